"""C01 secondary observation (semantics, lower confidence): for dict-keyed multi-survey data the survey that
carries the plain v0 and the survey each dv0_i prior is attached to are decided by the SORTED keys
(np.unique in get_constant_term_design_matrix), not by the order the surveys were given in - so the same
surveys in the same order give a different marginal likelihood as a list and as a dict.

Run from the worktree root:  /venv/bin/python HUNT/demo_2.py   (exit 1 = list and dict disagree)
"""
import os, sys, warnings
sys.path.insert(0, os.getcwd())
warnings.filterwarnings("ignore")
if os.environ.get("NOTWIN") != "1":
    sys.path.insert(0, "/tmp/seedtools")
    import pyx_runtime
    pyx_runtime.install_twin(os.path.join(os.getcwd(), "thejoker/src/fast_likelihood.pyx"))
import numpy as np
import astropy.units as u
from astropy.time import Time
import pymc as pm
import thejoker as tj
import thejoker.units as xu
assert tj.__file__.startswith(os.getcwd()), tj.__file__

rng = np.random.default_rng(42)
def mk(n, off):
    t = 58000 + rng.uniform(0, 300, n)
    return tj.RVData(Time(t, format="mjd", scale="tcb"), (10 + off + rng.normal(0, 3, n)) * u.km / u.s, np.full(n, 0.3) * u.km / u.s)
d_apogee, d_lamost, d_tres = mk(4, 0.0), mk(3, 4.0), mk(3, -2.0)
with pm.Model():
    dv1 = xu.with_unit(pm.Normal("dv0_1", 4.0, 0.5), u.km / u.s)     # meant for the 2nd survey given
    dv2 = xu.with_unit(pm.Normal("dv0_2", -2.0, 3.0), u.km / u.s)    # meant for the 3rd survey given
    prior = tj.JokerPrior.default(P_min=2 * u.day, P_max=1e3 * u.day, sigma_K0=30 * u.km / u.s,
                                  sigma_v=50 * u.km / u.s, v0_offsets=[dv1, dv2])
smp = prior.sample(size=5, rng=rng)
joker = tj.TheJoker(prior)
ll_list = joker.marginal_ln_likelihood([d_apogee, d_lamost, d_tres], smp, in_memory=True)
ll_dict = joker.marginal_ln_likelihood({"apogee": d_apogee, "Lamost": d_lamost, "tres": d_tres}, smp, in_memory=True)
ll_dict_sorted = joker.marginal_ln_likelihood({"a_apogee": d_apogee, "b_lamost": d_lamost, "c_tres": d_tres}, smp, in_memory=True)
print("list                          :", ll_list)
print("dict, keys already sorted     :", ll_dict_sorted)
print("dict apogee/Lamost/tres       :", ll_dict)
bad = not np.allclose(ll_list, ll_dict, rtol=0, atol=1e-8)
if bad:
    print("FAIL: same surveys in the same order, different marginal likelihood (max |diff| = %.3g): "
          "'Lamost' sorts first and silently becomes the reference survey, dv0_1 goes to 'apogee'." % np.abs(ll_list - ll_dict).max())
    sys.exit(1)
print("OK")
