"""C13 demo 2 (minor, fault-injection only): the temporary cache file is created and closed BEFORE the try/finally
that is supposed to remove it (thejoker/utils.py:283-286).  A failure at that crash point -- close() of the fresh
temp file reporting an I/O error (as NFS does at close time), or a KeyboardInterrupt delivered there -- leaves an
(empty) tmpXXXX.hdf5 behind.

Run from the worktree root:  /venv/bin/python HUNT/demo_2.py      exit 1: leaked / exit 0: nothing leaked
"""
import os, sys, tempfile, errno
sys.path.insert(0, os.getcwd())
TMP = tempfile.mkdtemp(prefix="c13_demo2_")
tempfile.tempdir = TMP
sys.path.insert(0, "/tmp/seedtools")
try:
    import pyx_runtime
    pyx_runtime.install_twin(os.path.join(os.getcwd(), "thejoker/src/fast_likelihood.pyx"))
except ImportError:
    pass
import warnings; warnings.simplefilter("ignore")
import logging, shutil
import numpy as np, astropy.units as u
from astropy.time import Time
import thejoker as tj, thejoker.utils as ut
assert os.path.dirname(tj.__file__) == os.path.join(os.getcwd(), "thejoker"), tj.__file__
logging.getLogger("thejoker").setLevel(logging.ERROR)

rng = np.random.default_rng(1)
t = Time(59000 + np.sort(rng.uniform(0, 200, 8)), format="mjd", scale="tcb")
rv = 5 * np.sin(2 * np.pi * (t.mjd - 59000) / 30.0) + rng.normal(0, 0.5, 8)
data = tj.RVData(t, rv * u.km / u.s, 0.5 * np.ones(8) * u.km / u.s)
prior = tj.JokerPrior.default(P_min=2 * u.day, P_max=256 * u.day, sigma_K0=30 * u.km / u.s, sigma_v=100 * u.km / u.s)
prior_samples = prior.sample(64, rng=np.random.default_rng(3))
joker = tj.TheJoker(prior, rng=np.random.default_rng(5))
ref = joker.marginal_ln_likelihood(data, prior_samples, in_memory=True)

class Boom(OSError):
    pass
_real = ut.NamedTemporaryFile
def failing_close_once(*a, **k):
    f = _real(*a, **k)
    class W:                                   # the real temp file; its close() closes it, then reports EIO
        name = f.name
        def close(self_):
            f.close()
            ut.NamedTemporaryFile = _real      # one-shot fault
            raise Boom(errno.EIO, "Input/output error (simulated, at close of the fresh cache file)")
    return W()

bad = []
for label, call in (("marginal_ln_likelihood", lambda: joker.marginal_ln_likelihood(data, prior_samples)),
                    ("rejection_sample", lambda: joker.rejection_sample(data, prior_samples)),
                    ("iterative_rejection_sample", lambda: joker.iterative_rejection_sample(
                        data, prior_samples, n_requested_samples=1, init_batch_size=32, growth_factor=2))):
    ut.NamedTemporaryFile = failing_close_once
    try:
        call(); got = "returned"
    except Boom:
        got = "Boom raised"
    except BaseException as e:
        got = f"other {type(e).__name__}"
    finally:
        ut.NamedTemporaryFile = _real
    left = sorted(f for f in os.listdir(TMP) if f.endswith(".hdf5"))
    print(f"{label}: {got}; *.hdf5 left in TMPDIR: {left}")
    if got != "Boom raised":
        bad.append(f"{label}: failure did not reach the caller ({got})")
    if left:
        bad.append(f"{label}: temporary cache file leaked: {left}")
        for f in left: os.unlink(os.path.join(TMP, f))
if not np.array_equal(joker.marginal_ln_likelihood(data, prior_samples), ref):
    bad.append("follow-up call wrong")
shutil.rmtree(TMP, ignore_errors=True)
if bad:
    print("C13 VIOLATED:"); [print("  -", b) for b in bad]; sys.exit(1)
print("C13 holds at this crash point"); sys.exit(0)
