"""C13 demo 1: a REAL failure while writing the prior-samples cache (disk full, ENOSPC) does not reach the
caller: TheJoker.marginal_ln_likelihood(data, <JokerSamples>) returns normally with mostly-NaN values.

Run from the worktree root:  /venv/bin/python HUNT/demo_1.py
Needs the right to mount a tiny tmpfs (root, or unprivileged user namespaces through `unshare -Urm`).
exit 1: property violated (this tree) / exit 0: property holds / exit 2: could not set up the small filesystem.
"""
import os, sys, subprocess, tempfile, shutil, atexit

sys.path.insert(0, os.getcwd())
SIZE = "48k"

mnt = tempfile.mkdtemp(prefix="c13_smallfs_")
def _mount():
    return subprocess.run(["mount", "-t", "tmpfs", "-o", f"size={SIZE}", "tmpfs", mnt],
                          stdout=subprocess.DEVNULL, stderr=subprocess.DEVNULL).returncode == 0
if not _mount():
    os.rmdir(mnt)
    if os.environ.get("C13_IN_USERNS") or shutil.which("unshare") is None:
        print("SETUP FAILED: cannot mount a tmpfs here"); sys.exit(2)
    env = dict(os.environ, C13_IN_USERNS="1")
    sys.exit(subprocess.run(["unshare", "-Urm", sys.executable] + sys.argv, env=env).returncode)
def _cleanup():
    subprocess.run(["umount", "-l", mnt], stdout=subprocess.DEVNULL, stderr=subprocess.DEVNULL)
    try: os.rmdir(mnt)
    except OSError: pass
atexit.register(_cleanup)

# current kernel source through the source twin (the compiled .so in the worktree is stale)
sys.path.insert(0, "/tmp/seedtools")
try:
    import pyx_runtime
    pyx_runtime.install_twin(os.path.join(os.getcwd(), "thejoker/src/fast_likelihood.pyx"))
except ImportError:
    pass
import warnings; warnings.simplefilter("ignore")
import logging
import numpy as np, astropy.units as u
from astropy.time import Time
import thejoker as tj
assert os.path.dirname(tj.__file__) == os.path.join(os.getcwd(), "thejoker"), tj.__file__
logging.getLogger("thejoker").setLevel(logging.ERROR)

rng = np.random.default_rng(1)
t = Time(59000 + np.sort(rng.uniform(0, 200, 8)), format="mjd", scale="tcb")
rv = 5 * np.sin(2 * np.pi * (t.mjd - 59000) / 30.0) + rng.normal(0, 0.5, 8)
data = tj.RVData(t, rv * u.km / u.s, 0.5 * np.ones(8) * u.km / u.s)
prior = tj.JokerPrior.default(P_min=2 * u.day, P_max=256 * u.day, sigma_K0=30 * u.km / u.s, sigma_v=100 * u.km / u.s)
N = 1500                                     # the cache file needs ~ 70 kB  >  48 kB file system
prior_samples = prior.sample(N, rng=np.random.default_rng(3))
joker = tj.TheJoker(prior, rng=np.random.default_rng(5))

# reference: two independent call paths on a healthy temp dir
ll_cache_ok = joker.marginal_ln_likelihood(data, prior_samples)                  # via the temporary cache file
ll_inmem = joker.marginal_ln_likelihood(data, prior_samples, in_memory=True)     # no file involved
assert np.array_equal(ll_cache_ok, ll_inmem) and np.all(np.isfinite(ll_inmem))

# now the cache goes to the tiny file system -> writing it fails with ENOSPC
old_tmp = tempfile.tempdir
tempfile.tempdir = mnt
sys.stderr.flush()
devnull = os.open(os.devnull, os.O_WRONLY); saved_err = os.dup(2); os.dup2(devnull, 2)   # hide h5py's "Exception ignored" noise
try:
    try:
        ll = joker.marginal_ln_likelihood(data, prior_samples)
        outcome = ("returned", ll)
    except BaseException as e:
        outcome = ("raised", e)
finally:
    os.dup2(saved_err, 2)
    tempfile.tempdir = old_tmp
left = [f for f in os.listdir(mnt) if f.endswith((".hdf5", ".h5"))]

bad = []
if left:
    bad.append(f"temporary cache file left behind: {left}")
if outcome[0] == "raised":
    print(f"the failure reached the caller: {type(outcome[1]).__name__}: {str(outcome[1])[:100]!r}")
else:
    ll = outcome[1]
    nwrong = int(np.sum(~(ll == ll_inmem)))
    print(f"disk-full while writing the cache: NO exception; returned {len(ll)} values, "
          f"{nwrong} differ from the correct ones ({int(np.isnan(ll).sum())} are NaN)")
    if nwrong:
        bad.append(f"silent wrong result: {nwrong}/{len(ll)} marginal likelihoods wrong, no exception")
# the same object on a healthy temp dir again
ll_again = joker.marginal_ln_likelihood(data, prior_samples)
if not np.array_equal(ll_again, ll_inmem):
    bad.append("follow-up call on the same TheJoker object is wrong")

if bad:
    print("C13 VIOLATED:")
    for b in bad: print("  -", b)
    sys.stdout.flush(); _cleanup(); os._exit(1)      # os._exit: HDF5 may crash in its atexit handlers after a failed write
print("C13 holds for a disk-full cache write")
sys.stdout.flush(); _cleanup(); os._exit(0)
