"""C02 counterexample: rejection_sample(..., in_memory=True, n_prior_samples=k) does not truncate
the library to its first k rows: all N rows are evaluated, N uniforms are drawn, and rows with
library index >= k are returned.

Run from the worktree root:  /venv/bin/python HUNT/demo_1.py
exit 1 = property violated (this tree), exit 0 = property holds.
"""
import os
import sys
import warnings

sys.path.insert(0, os.getcwd())
try:  # run the CURRENT .pyx (the compiled .so is stale); the finding does not depend on it
    sys.path.insert(1, "/tmp/seedtools")
    import pyx_runtime
    pyx_runtime.install_twin(os.path.join(os.getcwd(), "thejoker/src/fast_likelihood.pyx"))
except Exception as exc:  # pragma: no cover
    print("note: source twin not available, using compiled kernel:", exc)
warnings.simplefilter("ignore")

import astropy.units as u
import numpy as np
from astropy.time import Time

import thejoker as tj

assert os.path.abspath(tj.__file__).startswith(os.getcwd()), tj.__file__


class RecGen(np.random.Generator):
    """numpy Generator that records every uniform() draw"""

    def __init__(self, bg):
        super().__init__(bg)
        self.uniforms = []

    def uniform(self, *a, **k):
        r = super().uniform(*a, **k)
        self.uniforms.append(np.array(r, copy=True))
        return r


# two epochs only -> weakly informative data, ~10 % of the prior samples are accepted
t = Time(58000.0 + np.array([3.1, 47.9]), format="mjd")
data = tj.RVData(t, [12.3, 7.9] * u.km / u.s, rv_err=[0.3, 0.3] * u.km / u.s)
prior = tj.JokerPrior.default(
    P_min=2 * u.day, P_max=500 * u.day, sigma_K0=30 * u.km / u.s, sigma_v=100 * u.km / u.s
)
N, k = 1000, 100
lib = prior.sample(size=N, rng=np.random.default_rng(1))
lib["ln_prior"] = np.arange(N, dtype=float) * u.one  # tag: row index in the library

# independent reference: ln-likelihood of every library row, then the stated rule on the first k rows
ref_ll = tj.TheJoker(prior).marginal_ln_likelihood(data, lib, in_memory=True)

bad = []
for seed in range(3):
    res = {}
    for in_memory in (False, True):
        rg = RecGen(np.random.PCG64(seed))
        joker = tj.TheJoker(prior, rng=rg)
        out, all_ll = joker.rejection_sample(
            data,
            lib,
            n_prior_samples=k,
            in_memory=in_memory,
            return_logprobs=True,
            return_all_logprobs=True,
        )
        uu = rg.uniforms[0]
        rows = out["ln_prior"].value.astype(int)
        res[in_memory] = rows
        name = f"seed={seed} in_memory={in_memory}"
        if len(uu) != k or len(all_ll) != k:
            bad.append(
                f"{name}: {len(uu)} uniform draws / {len(all_ll)} likelihood evaluations, "
                f"expected n_prior_samples={k}"
            )
        if rows.size and rows.max() >= k:
            bad.append(
                f"{name}: {np.sum(rows >= k)} of {len(rows)} returned rows have library index >= {k} "
                f"(max index {rows.max()})"
            )
        if len(uu) >= k:
            ll = ref_ll[:k]
            expected = np.where(np.exp(ll - ll.max()) > uu[:k])[0]
            if not np.array_equal(rows, expected):
                bad.append(
                    f"{name}: returned rows differ from the rule applied to the first {k} rows with the "
                    f"sampler's own uniforms: got {len(rows)} rows, expected {len(expected)} "
                    f"(expected head {expected[:6]}, got head {rows[:6]})"
                )
    if not np.array_equal(res[False], res[True]):
        bad.append(
            f"seed={seed}: file-cache path and in-memory path disagree for the same seed and options "
            f"({len(res[False])} vs {len(res[True])} rows)"
        )

if bad:
    print("C02 VIOLATED: n_prior_samples is ignored when in_memory=True")
    for b in bad:
        print("  -", b)
    sys.exit(1)
print("OK: n_prior_samples truncates to the first evaluated rows in both paths")
sys.exit(0)
