"""C05 counterexample 3: (in_memory=True, prior samples given as a file name).

The property quantifies over all (in_memory, object|file name) combinations and
the docstring of in_memory says "Load all prior samples or keep all prior
samples in memory".  With a file name the in-memory branch never loads the
file: the string itself is handed to the kernel wrapper and the call dies with
an unrelated AttributeError instead of returning the same numbers as the cache
path.

Run from the worktree root:  /venv/bin/python HUNT/demo_3.py
exit 1 = property violated (this tree), exit 0 = property holds.
"""
import os
import sys
import tempfile

sys.path.insert(0, os.getcwd())
try:
    sys.path.insert(0, "/tmp/seedtools")
    import pyx_runtime

    pyx_runtime.install_twin(os.path.join(os.getcwd(), "thejoker/src/fast_likelihood.pyx"))
except Exception as exc:  # pragma: no cover
    print("note: source twin not available, using compiled kernel:", exc)

import warnings

warnings.simplefilter("ignore")
import astropy.units as u
import numpy as np
from astropy.time import Time

import thejoker as tj

assert os.path.dirname(tj.__file__).startswith(os.getcwd()), tj.__file__

rng = np.random.default_rng(42)
t = 58000 + np.sort(rng.uniform(0, 300, 5))
rv = (30 * np.sin(2 * np.pi * t / 37.0) + rng.normal(0, 2, len(t))) * u.km / u.s
err = np.full(len(t), 5.0) * u.km / u.s
data = tj.RVData(Time(t, format="mjd", scale="tcb"), rv, err)
prior = tj.JokerPrior.default(
    P_min=2 * u.day, P_max=500 * u.day, sigma_K0=30 * u.km / u.s, sigma_v=100 * u.km / u.s
)
samples = prior.sample(size=500, rng=np.random.default_rng(1))
fn = os.path.join(tempfile.mkdtemp(), "prior.hdf5")
samples.write(fn, overwrite=True)

joker = tj.TheJoker(prior, rng=np.random.default_rng(0))
ref = joker.marginal_ln_likelihood(data, fn)  # cache path, file name
assert np.array_equal(ref, joker.marginal_ln_likelihood(data, samples, in_memory=True))

bad = False
for name, call in [
    ("marginal_ln_likelihood", lambda: joker.marginal_ln_likelihood(data, fn, in_memory=True)),
    ("rejection_sample", lambda: joker.rejection_sample(data, fn, in_memory=True, return_all_logprobs=True)[1]),
]:
    try:
        out = np.asarray(call())
    except Exception as exc:
        print(f"{name}(data, '<file>.hdf5', in_memory=True) -> {type(exc).__name__}: {exc}")
        bad = True
        continue
    if out.shape != ref.shape or not np.array_equal(out, ref):
        print(f"{name}: values differ from the cache path")
        bad = True
    else:
        print(f"{name}: same values as the cache path")

os.unlink(fn)
if bad:
    print("PROPERTY C05 VIOLATED: the (in_memory=True, file name) combination does not give the "
          "numbers of the other paths (it crashes with an unrelated AttributeError)")
    sys.exit(1)
print("OK")
sys.exit(0)
