"""C05 counterexample 2: with equal seeds the accepted set depends on in_memory.

rejection_sample(..., n_prior_samples=n, in_memory=True) silently ignores
n_prior_samples (and randomize_prior_order): the in-memory path evaluates and
rejection-samples the WHOLE library, the cache path only the first n rows (or a
random subset).  Same TheJoker seed, same data, same JokerSamples object ->
different sets of accepted prior samples.

Run from the worktree root:  /venv/bin/python HUNT/demo_2.py
exit 1 = property violated (this tree), exit 0 = property holds.
"""
import os
import sys

sys.path.insert(0, os.getcwd())
try:
    sys.path.insert(0, "/tmp/seedtools")
    import pyx_runtime

    pyx_runtime.install_twin(os.path.join(os.getcwd(), "thejoker/src/fast_likelihood.pyx"))
except Exception as exc:  # pragma: no cover
    print("note: source twin not available, using compiled kernel:", exc)

import warnings

warnings.simplefilter("ignore")
import astropy.units as u
import numpy as np
from astropy.time import Time

import thejoker as tj

assert os.path.dirname(tj.__file__).startswith(os.getcwd()), tj.__file__

rng = np.random.default_rng(42)
t = 58000 + np.sort(rng.uniform(0, 300, 5))
rv = (30 * np.sin(2 * np.pi * t / 37.0) + rng.normal(0, 2, len(t))) * u.km / u.s
err = np.full(len(t), 5.0) * u.km / u.s
data = tj.RVData(Time(t, format="mjd", scale="tcb"), rv, err)
prior = tj.JokerPrior.default(
    P_min=2 * u.day, P_max=500 * u.day, sigma_K0=30 * u.km / u.s, sigma_v=100 * u.km / u.s
)
samples = prior.sample(size=3000, rng=np.random.default_rng(1))
P_all = samples["P"].value

bad = False
for kw in [dict(n_prior_samples=500), dict(n_prior_samples=500, randomize_prior_order=True)]:
    rows = {}
    n_eval = {}
    for in_memory in (True, False):
        joker = tj.TheJoker(prior, rng=np.random.default_rng(9))
        s, lls = joker.rejection_sample(
            data, samples, in_memory=in_memory, return_all_logprobs=True, **kw
        )
        rows[in_memory] = np.sort([np.where(P_all == p)[0][0] for p in s["P"].value])
        n_eval[in_memory] = len(lls)
    same = np.array_equal(rows[True], rows[False])
    print(kw)
    print(f"  in_memory=True : {n_eval[True]} likelihoods evaluated, accepted library rows {rows[True]}")
    print(f"  in_memory=False: {n_eval[False]} likelihoods evaluated, accepted library rows {rows[False]}")
    ok = same and n_eval[True] == n_eval[False] == 500
    if not ok:
        bad = True

if bad:
    print("PROPERTY C05 VIOLATED: equal seeds, but the in-memory path ignores n_prior_samples / "
          "randomize_prior_order and accepts a different set of prior samples than the cache path")
    sys.exit(1)
print("OK")
sys.exit(0)
