"""C05 counterexample 1: float32 prior samples whose period is not stored in days.

The in-memory path (JokerSamples.pack -> Quantity.to_value) converts yr -> day in
float32 arithmetic; the cache path (read_batch_slice / read_batch_idx) copies the
float32 column into a float64 array and converts there.  The two paths therefore
evaluate the SAME stored prior sample at two different periods (relative
difference up to 2**-24), and the marginal ln-likelihood of one and the same
sample differs by far more than float64 round-off.

Run from the worktree root:  /venv/bin/python HUNT/demo_1.py
exit 1 = property violated (this tree), exit 0 = property holds.
"""
import os
import sys

sys.path.insert(0, os.getcwd())
try:  # run the CURRENT .pyx (the compiled .so in the sandbox is stale)
    sys.path.insert(0, "/tmp/seedtools")
    import pyx_runtime

    pyx_runtime.install_twin(os.path.join(os.getcwd(), "thejoker/src/fast_likelihood.pyx"))
except Exception as exc:  # pragma: no cover
    print("note: source twin not available, using compiled kernel:", exc)

import warnings

warnings.simplefilter("ignore")
import astropy.units as u
import numpy as np
from astropy.time import Time

import thejoker as tj

assert os.path.dirname(tj.__file__).startswith(os.getcwd()), tj.__file__


# ---------------------------------------------------------------- independent
def kepler_E(M, e, tol=1e-14):
    E = M + e * np.sin(M)
    for _ in range(200):
        dE = (E - e * np.sin(E) - M) / (1 - e * np.cos(E))
        E = E - dE
        if np.all(np.abs(dE) < tol):
            break
    return E


def closed_form_ll(t, t_ref, rv, err, P, e, om, M0, s, sigma_K0, P0, sigma_v, max_K=500.0):
    """ln N(rv | 0, C + M Lambda M^T) computed with plain numpy (units: day, km/s)."""
    M = 2 * np.pi * (t - t_ref) / P - M0
    E = kepler_E(np.mod(M, 2 * np.pi), e)
    f = 2 * np.arctan2(np.sqrt(1 + e) * np.sin(E / 2), np.sqrt(1 - e) * np.cos(E / 2))
    zdot = np.cos(om + f) + e * np.cos(om)
    Mmat = np.stack([zdot, np.ones_like(t)], axis=1)
    varK = min(max_K**2, sigma_K0**2 / (1 - e**2) * (P / P0) ** (-2 / 3))
    Lam = np.diag([varK, sigma_v**2])
    B = np.diag(err**2 + s**2) + Mmat @ Lam @ Mmat.T
    sign, logdet = np.linalg.slogdet(2 * np.pi * B)
    return -0.5 * (rv @ np.linalg.solve(B, rv) + logdet)


# ----------------------------------------------------------------------- data
rng = np.random.default_rng(3)
t = 56000 + np.sort(rng.uniform(0, 1500, 12))
rv = 30 * np.cos(2 * np.pi * (t - 56000) / 3.1234 + 0.3) + 5 + rng.normal(0, 0.1, len(t))
err = np.full(len(t), 0.1)
data = tj.RVData(Time(t, format="mjd", scale="tcb"), rv * u.km / u.s, err * u.km / u.s)

# default prior, but the period domain is given in years (a valid time unit)
prior = tj.JokerPrior.default(
    P_min=(2 * u.day).to(u.year),
    P_max=(1000 * u.day).to(u.year),
    sigma_K0=30 * u.km / u.s,
    sigma_v=100 * u.km / u.s,
)
N = 2000
samples = prior.sample(size=N, rng=np.random.default_rng(1), dtype=np.float32)
assert samples["P"].dtype == np.float32 and samples["P"].unit == u.year

joker = tj.TheJoker(prior)
ll_mem = joker.marginal_ln_likelihood(data, samples, in_memory=True)
ll_cache = joker.marginal_ln_likelihood(data, samples)  # JokerSamples -> temp HDF5 cache

# independent closed form at the stored sample values (exact float32 -> float64, then yr -> day)
yr = u.year.to(u.day)
ll_ref = np.array(
    [
        closed_form_ll(
            t, t.min(), rv, err,
            float(np.float64(samples["P"].value[i]) * yr),
            float(samples["e"].value[i]), float(samples["omega"].value[i]),
            float(samples["M0"].value[i]), 0.0,
            30.0, 365.25, 100.0,
        )
        for i in range(N)
    ]
)

d_paths = np.abs(ll_mem - ll_cache)
d_mem = np.abs(ll_mem - ll_ref)
d_cache = np.abs(ll_cache - ll_ref)
scale = np.maximum(1.0, np.abs(ll_ref))
print(f"samples: N={N}, P column dtype={samples['P'].dtype}, unit={samples['P'].unit}")
print(f"max |ll(in_memory) - ll(cache)|       = {d_paths.max():.6g}  (median {np.median(d_paths):.3g})")
print(f"max |ll(cache)     - closed form|     = {d_cache.max():.3g}  (rel {np.max(d_cache/scale):.2g})")
print(f"max |ll(in_memory) - closed form|     = {d_mem.max():.6g}  (rel {np.max(d_mem/scale):.2g})")
i = int(np.argmax(d_paths))
print(
    f"worst sample #{i}: stored P = {samples['P'].value[i]!r} yr; "
    f"ll in_memory = {ll_mem[i]:.6f}, cache = {ll_cache[i]:.6f}, closed form = {ll_ref[i]:.6f}"
)

# same seed -> is the accepted sample reported with the same period?
s_mem = tj.TheJoker(prior, rng=np.random.default_rng(0)).rejection_sample(data, samples, in_memory=True)
s_cache = tj.TheJoker(prior, rng=np.random.default_rng(0)).rejection_sample(data, samples)
P_mem = np.sort(s_mem["P"].to_value(u.day))
P_cache = np.sort(s_cache["P"].to_value(u.day))
same_set = len(P_mem) == len(P_cache) and np.array_equal(P_mem, P_cache)
print(f"rejection_sample, seed 0: accepted P [day] in_memory={P_mem}, cache={P_cache}, identical={same_set}")

# tolerance: generous float64 round-off for |ll| ~ 1e5 (observed float64 agreement is exactly 0)
tol = 1e-6
bad = d_paths.max() > tol or not same_set
if bad:
    print("PROPERTY C05 VIOLATED: the same float32 prior samples get different marginal "
          "ln-likelihoods (and are returned with different periods) in memory vs through the cache")
    sys.exit(1)
print("OK: in-memory and cache paths agree")
sys.exit(0)
