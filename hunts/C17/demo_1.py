"""C17 demo 1: get_t0 / get_time_with_phase do the epoch arithmetic in the time
scale of t_ref (UTC->TAI, TT, TDB ...) while the orbit model (twobody
KeplerOrbit and the Cython kernel) measures elapsed time in TCB.  For any
reference epoch that is not already TCB the returned times are therefore NOT the
times at which the mean anomaly equals the requested phase: the error is
L_B ~ 1.55e-8 of the elapsed time (seconds for year-long periods), 8 orders of
magnitude above double-precision round-off, and two tables that describe the
same physical orbit (same instant as reference epoch, different scale) give
different pericentre times.

Run from the worktree root:  /venv/bin/python HUNT/demo_1.py
exit 1 = property violated, exit 0 = property holds.
"""
import os
import sys
import warnings

sys.path.insert(0, os.getcwd())
warnings.simplefilter("ignore")

import astropy.units as u
import numpy as np
from astropy.time import Time

import thejoker
from thejoker import JokerSamples

print("thejoker from", thejoker.__file__)

P = np.array([3652.5, 400.0, 2.0]) * u.day
M0 = np.array([5.5, 3.0, 6.0]) * u.rad
TOL_CYCLES = 1e-11   # round-off of the independent computation is ~1e-15


def make(t_ref):
    s = JokerSamples(t_ref=t_ref)
    s["P"] = P
    s["e"] = np.array([0.3, 0.1, 0.6])
    s["omega"] = np.array([1.0, 2.0, 3.0]) * u.rad
    s["M0"] = M0
    s["K"] = np.array([5.0, 3.0, 8.0]) * u.km / u.s
    s["v0"] = np.zeros(3) * u.km / u.s
    return s


def mean_anomaly_cycles(s, times):
    """Independent: the model's definition (twobody/orbit.py, the kernel):
    M = 2 pi (t - t_ref)_TCB / P - M0, with a two-part TimeDelta for precision."""
    dt = times.tcb - s.t_ref.tcb
    return (dt.jd1 + dt.jd2) / s["P"].to_value(u.day) - s["M0"].to_value(u.rad) / (
        2 * np.pi
    )


bad = False
ref_instant = Time("J2000")  # scale TT -- the epoch used throughout the package's own tests
for label, t_ref in [
    ("tcb (control)", ref_instant.tcb),
    ("tt  Time('J2000')", ref_instant),
    ("utc", ref_instant.utc),
    ("tdb", ref_instant.tdb),
]:
    s = make(t_ref)
    for phase in [0 * u.rad, 2.0 * u.rad, 20 * u.cycle]:
        tt = s.get_time_with_phase(phase)
        M = mean_anomaly_cycles(s, tt)
        d = M - phase.to_value(u.cycle)
        err = np.abs(d - np.round(d))
        err_s = err * P.to_value(u.s)
        flag = "" if err.max() < TOL_CYCLES else "   <-- WRONG"
        if flag:
            bad = True
        print(
            f"t_ref scale {label:18s} phase={phase!s:10s} "
            f"|M - phase| = {err.max():.3e} cycles, time error up to {err_s.max():.3e} s{flag}"
        )

# two equivalent call paths: same instant as reference epoch, same elements ->
# same physical orbit (RV curves identical), hence the same pericentre time
a = make(ref_instant.tcb)
b = make(ref_instant.utc)
grid = Time(51544.5 + np.linspace(0, 4000, 200), format="mjd", scale="tcb")
drv = max(
    np.abs(
        (oa.radial_velocity(grid) - ob.radial_velocity(grid)).to_value(u.m / u.s)
    ).max()
    for oa, ob in zip(a.orbits, b.orbits)
)
dt0 = np.abs((a.get_t0().tcb - b.get_t0().tcb).to_value(u.s))
print(f"same orbit, t_ref as TCB vs as UTC: max RV-curve difference {drv:.2e} m/s,")
print(f"   but get_t0() differs by {dt0} s")
if dt0.max() > 1e-4:
    bad = True

if bad:
    print("FAIL: get_t0/get_time_with_phase return times whose mean anomaly is not the requested phase")
    sys.exit(1)
print("OK")
sys.exit(0)
