"""C08 demo 1: plot_phase_fold() ties the dv0_k offsets to the wrong survey (or to none)
when the data sources are given as a dict.

Run from the worktree root:  /venv/bin/python HUNT/demo_1.py
Exits 1 (and says what is wrong) on the defective tree, 0 if the property holds.
"""
import os, sys
sys.path.insert(0, os.getcwd())
try:  # the kernel is not used here, but serve the current .pyx anyway if the twin runtime exists
    sys.path.insert(0, "/tmp/seedtools")
    import pyx_runtime
    pyx_runtime.install_twin(os.path.join(os.getcwd(), "thejoker/src/fast_likelihood.pyx"))
except Exception:
    pass
import warnings; warnings.simplefilter("ignore")
import matplotlib; matplotlib.use("Agg")
import matplotlib.pyplot as plt
import numpy as np, astropy.units as u
from astropy.time import Time
import thejoker as tj
from thejoker.data_helpers import validate_prepare_data
from thejoker.plot import plot_phase_fold

assert os.path.abspath(tj.__file__).startswith(os.getcwd()), tj.__file__

P, v0, offs = 17.3, 3.0, [0.0, 100.0, -250.0]     # km/s; offs[k] = offset of survey k
rng = np.random.default_rng(3)
datas, raw = [], []
for k in range(3):
    t = 58000 + rng.uniform(0, 100, 4)              # interleaved epochs
    rv = rng.normal(0, 20, 4) + v0 + offs[k]
    err = rng.uniform(0.1, 2, 4)
    datas.append(tj.RVData(Time(t, format="mjd", scale="tcb"), rv*u.km/u.s, err*u.km/u.s))
    raw.append((t, rv))

sample = tj.JokerSamples(poly_trend=1, n_offsets=2, t_ref=Time(58000.0, format="mjd", scale="tcb"))
sample["P"] = [P]*u.day; sample["e"] = [0.2]*u.one
sample["omega"] = [1.0]*u.rad; sample["M0"] = [0.5]*u.rad
sample["s"] = [0.0]*u.km/u.s; sample["K"] = [10.0]*u.km/u.s; sample["v0"] = [v0]*u.km/u.s
sample["dv0_1"] = [offs[1]]*u.km/u.s; sample["dv0_2"] = [offs[2]]*u.km/u.s

def canon(a):
    a = np.asarray(a, float)
    return a[np.lexsort(a.T[::-1])]

def plotted(data):
    fig, ax = plt.subplots()
    plot_phase_fold(sample, data=data, ax=ax, show_s_errorbar=False)   # remove_trend=True: v0 removed too
    xy = np.array(ax.containers[0].lines[0].get_data()).T
    plt.close(fig)
    return canon(xy)

def expected(order):
    """order[j] = index (into datas) of the survey that owns offset parameter j (j=0: reference)."""
    t0 = sample.get_t0()
    pts = []
    for j, k in enumerate(order):
        t, rv = raw[k]
        ph = ((Time(t, format="mjd", scale="tcb") - t0).tcb.jd / P) % 1
        off = 0.0 if j == 0 else offs[j]
        pts += list(zip(ph, rv - v0 - off))
    return canon(pts)

cases = {
    "list [d0,d1,d2]": (datas, [0, 1, 2]),
    "dict {0,1,2}": ({0: datas[0], 1: datas[1], 2: datas[2]}, [0, 1, 2]),
    "dict {'a','b','c'}": (dict(a=datas[0], b=datas[1], c=datas[2]), [0, 1, 2]),
    "dict {1,2,3}": ({1: datas[0], 2: datas[1], 3: datas[2]}, [0, 1, 2]),
    "dict {'apogee','lamost','weave'}": (dict(apogee=datas[0], lamost=datas[1], weave=datas[2]), [0, 1, 2]),
}
bad = 0
for name, (inp, order) in cases.items():
    # the survey <-> dv0_k association that the likelihood (design matrix) uses for this input:
    _, ids, M = validate_prepare_data(inp, 1, 2)
    unq = np.unique(ids)
    keys = list(inp.keys()) if hasattr(inp, "keys") else list(range(len(inp)))
    order_from_M = [keys.index(type(keys[0])(uq)) for uq in unq]
    assert order_from_M == order
    got, exp = plotted(inp), expected(order)
    drv = np.abs(got[:, 1] - exp[:, 1]).max()
    dph = np.abs(got[:, 0] - exp[:, 0]).max()
    ok = drv < 1e-9 and dph < 1e-12
    print(f"{name:36s} max|plotted rv - (rv - v0 - own dv0_k)| = {drv:8.3f} km/s   {'ok' if ok else 'WRONG'}")
    bad += not ok

if bad:
    print(f"\nFAIL: in {bad} of {len(cases)} input forms plot_phase_fold() removed the offsets dv0_1=100, dv0_2=-250 km/s "
          "from the wrong survey's epochs (or from none): it selects epochs with `ids == k` (k = 1..n_offsets) "
          "instead of by the k-th sorted survey label, as the design matrix and plot_rv_curves do.")
    sys.exit(1)
print("OK: every epoch had its own survey's offset removed for list and dict input")
sys.exit(0)
