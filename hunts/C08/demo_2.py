"""C08 demo 2: when the prior's v0_offsets list is not in name order (e.g. [dv0_2, dv0_1]), the sampler ties
the k-th further survey to the k-th *list entry* (its prior, and its column name in the returned samples),
while every consumer of the samples (ln_unmarginalized_likelihood, setup_mcmc, plot_*) ties it to the
parameter *named* dv0_k.  So the k-th further survey does not get dv0_k.

Run from the worktree root:  /venv/bin/python HUNT/demo_2.py     (exit 1 = defect present, 0 = property holds)
"""
import os, sys
sys.path.insert(0, os.getcwd()); sys.path.insert(0, "/tmp/seedtools")
import pyx_runtime
pyx_runtime.install_twin(os.path.join(os.getcwd(), "thejoker/src/fast_likelihood.pyx"))  # current .pyx, not the stale .so
import warnings; warnings.simplefilter("ignore")
import numpy as np, astropy.units as u
from astropy.time import Time
import pymc as pm
import thejoker as tj, thejoker.units as xu
assert os.path.abspath(tj.__file__).startswith(os.getcwd()), tj.__file__

true_off = [0.0, -30.0, 50.0]           # survey 0 = reference, survey 1 -> dv0_1 = -30, survey 2 -> dv0_2 = +50
rng = np.random.default_rng(0)
datas = []
for k, off in enumerate(true_off):
    t = 58000 + rng.uniform(0, 100, 6)  # interleaved
    rv = 10*np.cos(2*np.pi*(t - 58000)/20.0) + 7 + off + rng.normal(0, 0.05, 6)
    datas.append(tj.RVData(Time(t, format="mjd", scale="tcb"), rv*u.km/u.s, np.full(6, 0.05)*u.km/u.s))

def run(order):
    with pm.Model():
        # identical, wide priors on both offsets: only the *labelling* can differ between the two orders
        d1 = xu.with_unit(pm.Normal("dv0_1", 0.0, 100.0), u.km/u.s)
        d2 = xu.with_unit(pm.Normal("dv0_2", 0.0, 100.0), u.km/u.s)
        P = xu.with_unit(pm.Normal("P", 20.0, 1e-3), u.day)
        e = xu.with_unit(pm.Uniform("e", 0, 1e-4), u.one)
        prior = tj.JokerPrior.default(sigma_K0=30*u.km/u.s, sigma_v=100*u.km/u.s,
                                      v0_offsets=[d1, d2] if order == "fwd" else [d2, d1],
                                      pars={"P": P, "e": e})
    prior_samples = prior.sample(size=4000, rng=np.random.default_rng(5))
    joker = tj.TheJoker(prior, rng=np.random.default_rng(1))
    post = joker.rejection_sample(datas, prior_samples, in_memory=True, n_linear_samples=4)
    m1 = float(np.mean(post["dv0_1"].to_value(u.km/u.s)))
    m2 = float(np.mean(post["dv0_2"].to_value(u.km/u.s)))
    ll = float(np.max(post.ln_unmarginalized_likelihood(datas)))
    return len(post), m1, m2, ll

bad = 0
for order in ["fwd", "rev"]:
    n, m1, m2, ll = run(order)
    ok = abs(m1 - true_off[1]) < 1 and abs(m2 - true_off[2]) < 1
    print(f"v0_offsets={'[dv0_1, dv0_2]' if order == 'fwd' else '[dv0_2, dv0_1]'}: {n} posterior samples, "
          f"<dv0_1> = {m1:8.2f} (survey 1 is offset by {true_off[1]}),  <dv0_2> = {m2:8.2f} (survey 2: {true_off[2]}),  "
          f"max ln_unmarginalized_likelihood of those samples on the same data = {ll:.1f}   {'ok' if ok else 'WRONG'}")
    bad += not ok
if bad:
    print("\nFAIL: with v0_offsets=[dv0_2, dv0_1] the first further survey is tied to the parameter called dv0_2 "
          "(the kernel walks prior.v0_offsets by list position), so the samples' dv0_1/dv0_2 are swapped w.r.t. the "
          "surveys and the package's own ln_unmarginalized_likelihood of its posterior samples collapses.")
    sys.exit(1)
print("OK: the k-th further survey got dv0_k for both orders of the v0_offsets list")
sys.exit(0)
