"""C15 demo 1 (borderline): copy() / slicing of an RVData built with clean=False
that holds a row with a non-finite *time* raise instead of yielding the
corresponding observations.  Run from the worktree root:
    /venv/bin/python HUNT/demo_1.py
exit 1 = property violated on this tree, exit 0 = property holds."""
import os, sys
sys.path.insert(0, os.getcwd())
import logging
import numpy as np
import astropy.units as u
from astropy.time import Time
from thejoker.logging import logger
logger.setLevel(logging.ERROR)
from thejoker import RVData

t = np.array([55001.0, np.nan, 55000.0])
rv = np.array([1.0, 2.0, 3.0]) * u.km / u.s
err = np.array([0.1, 0.2, 0.3]) * u.km / u.s

problems = []
for label, t_ref in [("t_ref=False", False),
                     ("explicit t_ref", Time(55000.0, format="mjd", scale="tcb"))]:
    d = RVData(t, rv, err, clean=False, t_ref=t_ref)   # accepted
    # the object holds all three rows, NaN time sorted last:
    assert np.array_equal(d._t_bmjd, [55000.0, 55001.0, np.nan], equal_nan=True)
    assert np.array_equal(d.rv.value, [3.0, 1.0, 2.0])

    # copy(): same observations, same reference epoch
    try:
        c = d.copy()
        if not (np.array_equal(c._t_bmjd, d._t_bmjd, equal_nan=True)
                and np.array_equal(c.rv, d.rv) and np.array_equal(c.rv_err, d.rv_err)
                and c._t_ref_bmjd == d._t_ref_bmjd):
            problems.append(f"{label}: copy() differs from the original")
    except Exception as e:
        problems.append(f"{label}: copy() raised {type(e).__name__}: {str(e).splitlines()[0]}")

    # slicing out exactly the two FINITE rows
    try:
        s = d[:2]
        if not (np.array_equal(s._t_bmjd, [55000.0, 55001.0])
                and np.array_equal(s.rv.value, [3.0, 1.0])
                and np.array_equal(s.rv_err.value, [0.3, 0.1])):
            problems.append(f"{label}: d[:2] does not hold the first two observations")
    except Exception as e:
        problems.append(f"{label}: d[:2] (finite rows only) raised {type(e).__name__}: "
                        f"{str(e).splitlines()[0]}")

if problems:
    print("C15 violated:")
    for p in problems:
        print("  -", p)
    sys.exit(1)
print("ok: copy() and slicing preserve the observations of clean=False data with a NaN time")
sys.exit(0)
