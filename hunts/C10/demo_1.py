"""C10 counterexample: on the default (cache-file / pool) path the linear-parameter draws are NOT a function of
the numpy Generator handed to TheJoker.  multiproc_helpers.run_worker seeds the per-batch child generators from
the PRIVATE attribute rng.bit_generator._seed_seq instead of from the generator's state.  For perfectly valid
Generators whose bit generator was obtained by numpy's documented `.jumped()` (parallel streams) or by restoring a
saved `.state` onto a new bit generator (checkpoint/restore), numpy gives that attribute FRESH OS ENTROPY, so two
runs with equal seed and equal inputs return different K / v0 (the in_memory=True path is reproducible for the very
same generators).  A legacy-seeded bit generator (_seed_seq is None) crashes with AttributeError.

Run from the worktree root:  /venv/bin/python HUNT/demo_1.py     (exit 1 = property violated, 0 = holds)
"""
import os
import sys

sys.path.insert(0, os.getcwd())
import warnings

warnings.filterwarnings("ignore")
try:  # run the CURRENT .pyx (the compiled .so in the sandbox is stale); the defect itself is in pure python
    sys.path.insert(0, "/tmp/seedtools")
    import pyx_runtime

    pyx_runtime.install_twin(os.path.join(os.getcwd(), "thejoker/src/fast_likelihood.pyx"))
except Exception as exc:  # pragma: no cover
    print("note: source twin not available, using the compiled kernel:", exc)

import logging

import astropy.units as u
import numpy as np
from astropy.time import Time
from numpy.random import PCG64, Generator

import thejoker as tj

logging.getLogger("thejoker").setLevel(logging.ERROR)
assert os.path.abspath(tj.__file__).startswith(os.getcwd()), tj.__file__

SEED = 42


def make_inputs():
    r = np.random.default_rng(1)
    n = 4
    t = 56000 + np.sort(r.uniform(0, 300, n))
    rv = 10 * np.cos(2 * np.pi * t / 47.3) + r.normal(0, 1, n)
    data = tj.RVData(t=Time(t, format="mjd"), rv=rv * u.km / u.s, rv_err=np.full(n, 1.0) * u.km / u.s)
    prior = tj.JokerPrior.default(P_min=2 * u.day, P_max=500 * u.day, sigma_K0=30 * u.km / u.s, sigma_v=100 * u.km / u.s)
    lib = prior.sample(size=3000, rng=np.random.default_rng(0))
    return data, prior, lib


def gen_jumped():
    # numpy's documented recipe for independent parallel streams: PCG64(seed).jumped()
    return Generator(PCG64(SEED).jumped())


def gen_restored():
    # checkpoint / restore of a generator through its public .state dict
    saved = np.random.default_rng(SEED).bit_generator.state
    bg = PCG64()
    bg.state = saved
    return Generator(bg)


def gen_plain():
    return np.random.default_rng(SEED)


def same(a, b):
    return a.tbl.colnames == b.tbl.colnames and len(a) == len(b) and all(
        np.array_equal(np.asarray(a[k]), np.asarray(b[k])) for k in a.tbl.colnames
    )


def main():
    data, prior, lib = make_inputs()
    bad = []
    for label, make in [("default_rng(42) [control]", gen_plain), ("PCG64(42).jumped()", gen_jumped),
                        ("state of default_rng(42) restored on a new PCG64", gen_restored)]:
        g1, g2 = make(), make()
        assert g1.bit_generator.state == g2.bit_generator.state  # the two generators are in identical states
        for path_kw in [dict(in_memory=True), dict()]:
            a = tj.TheJoker(prior, rng=make()).rejection_sample(data, lib, **path_kw)
            b = tj.TheJoker(prior, rng=make()).rejection_sample(data, lib, **path_kw)
            ok = same(a, b)
            nonlin = all(np.array_equal(np.asarray(a[k]), np.asarray(b[k])) for k in ("P", "e", "omega", "M0"))
            path = "in_memory=True" if path_kw else "default cache-file path"
            print(f"{label:50s} {path:24s} n={len(a):3d}  bit-identical: {ok}   (P,e,omega,M0 identical: {nonlin})")
            if not ok:
                print("      run 1  K[:3] =", np.asarray(a["K"])[:3], " v0[:3] =", np.asarray(a["v0"])[:3])
                print("      run 2  K[:3] =", np.asarray(b["K"])[:3], " v0[:3] =", np.asarray(b["v0"])[:3])
                bad.append((label, path))

    # a Generator on a legacy-seeded bit generator: accepted by TheJoker.__init__, works in memory, crashes otherwise
    leg = lambda: Generator(np.random.RandomState(SEED)._bit_generator)  # noqa: E731
    n_mem = len(tj.TheJoker(prior, rng=leg()).rejection_sample(data, lib, in_memory=True))
    try:
        tj.TheJoker(prior, rng=leg()).rejection_sample(data, lib)
        print(f"legacy-seeded MT19937 generator: ok on both paths (in-memory n={n_mem})")
    except AttributeError as exc:
        # informational only (a crash, not a silent irreproducibility): not counted in the exit status
        print(f"[info] legacy-seeded MT19937 generator: in_memory=True works (n={n_mem}); "
              f"default path raises AttributeError: {exc}")

    if bad:
        print("\nC10 VIOLATED: equal seed + equal inputs do not give bit-identical output on:")
        for item in bad:
            print("   -", *item)
        print("cause: thejoker/multiproc_helpers.py:52  sg = rng.bit_generator._seed_seq.spawn(len(tasks))  "
              "(children seeded from a private attribute that numpy fills with OS entropy for these generators, "
              "not from the generator that was handed in)")
        return 1
    print("C10 holds for these generators")
    return 0


if __name__ == "__main__":
    sys.exit(main())
