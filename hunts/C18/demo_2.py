"""C18 demo 2: a linear parameter whose unit is a *logarithmic* unit (dex(km/s), mag(km/s)) passes the unit check
(`is_equivalent` is True for function units), although a Normal in dex is a log-normal in km/s; the kernel then
silently marginalises with mu = 10**mu, sigma = 10**sigma.

Run from the worktree root:  /venv/bin/python HUNT/demo_2.py
exit 1 = defect present; exit 0 = JokerPrior/TheJoker raised.
"""
import os, sys, warnings
sys.path.insert(0, os.getcwd())
sys.path.insert(0, "/tmp/seedtools")
warnings.filterwarnings("ignore")
import pyx_runtime
pyx_runtime.install_twin(os.path.join(os.getcwd(), "thejoker/src/fast_likelihood.pyx"))
import numpy as np, astropy.units as u, pymc as pm
from astropy.time import Time
import thejoker as tj, thejoker.units as xu
assert tj.__file__.startswith(os.getcwd()), tj.__file__
kms = u.km / u.s

rng = np.random.default_rng(4)
t = 55000.0 + np.sort(rng.uniform(0, 300, 10))
rv = 10 * np.sin(2 * np.pi * t / 37.0) + rng.normal(0, 0.5, 10)
data = tj.RVData(Time(t, format="mjd", scale="tcb"), rv * kms, np.full(10, 0.5) * kms)

bad = []
for name, unit in [("K", u.dex(kms)), ("v0", u.mag(kms))]:
    try:
        with pm.Model():
            var = xu.with_unit(pm.Normal(name, 1.0, 0.5), unit)
            prior = tj.JokerPrior.default(P_min=2 * u.day, P_max=100 * u.day, sigma_K0=30 * kms,
                                          sigma_v=100 * kms, pars={name: var})
        samples = prior.sample(4, rng=np.random.default_rng(3))
        ll = tj.TheJoker(prior).marginal_ln_likelihood(data, samples, in_memory=True)
    except Exception as exc:
        print(f"OK: {name} in {unit} rejected with {type(exc).__name__}")
        continue
    msg = f"ACCEPTED: {name} ~ Normal(1, 0.5) [{unit}]; ln L = {np.round(ll, 3)}"
    from thejoker.utils import _pytensor_get_mean_std
    mu, sd = _pytensor_get_mean_std(prior.model[name], unit, kms)
    msg += f"\n          kernel marginalised {name} with Normal(mu={float(mu):.4g}, sigma={float(sd):.4g}) km/s" \
           " although the prior is log-normal in km/s"
    print(msg)
    bad.append(name)

if bad:
    print("DEFECT: logarithmic units accepted for", bad)
    sys.exit(1)
sys.exit(0)
