"""C18 demo 3: the data/prior count check counts np.unique() of the *concatenated survey labels*, which numpy
casts to one common dtype: dictionary keys that differ only by type (1 and '1') or by trailing NUL collapse, so two
data sources with ZERO offset priors are accepted (and a correct one-offset prior is rejected).

Run from the worktree root:  /venv/bin/python HUNT/demo_3.py
exit 1 = defect present; exit 0 = behaves as the property says.
"""
import os, sys, warnings
sys.path.insert(0, os.getcwd())
sys.path.insert(0, "/tmp/seedtools")
warnings.filterwarnings("ignore")
import pyx_runtime
pyx_runtime.install_twin(os.path.join(os.getcwd(), "thejoker/src/fast_likelihood.pyx"))
import numpy as np, astropy.units as u, pymc as pm
from astropy.time import Time
import thejoker as tj, thejoker.units as xu
assert tj.__file__.startswith(os.getcwd()), tj.__file__
kms = u.km / u.s

def mkdata(n, seed, off):
    rng = np.random.default_rng(seed)
    t = 55000.0 + np.sort(rng.uniform(0, 300, n))
    rv = 10 * np.sin(2 * np.pi * t / 37.0) + off + rng.normal(0, 0.5, n)
    return tj.RVData(Time(t, format="mjd", scale="tcb"), rv * kms, np.full(n, 0.5) * kms)

d1, d2 = mkdata(6, 1, 0.0), mkdata(5, 2, 7.0)

def mkprior(n_off):
    with pm.Model():
        offs = [xu.with_unit(pm.Normal(f"dv0_{i+1}", 0, 10.0), kms) for i in range(n_off)]
        return tj.JokerPrior.default(P_min=2 * u.day, P_max=100 * u.day, sigma_K0=30 * kms,
                                     sigma_v=100 * kms, v0_offsets=offs)

def outcome(prior, data):
    samples = prior.sample(4, rng=np.random.default_rng(3))
    try:
        return "accepted", tj.TheJoker(prior).marginal_ln_likelihood(data, samples, in_memory=True)
    except Exception as exc:
        return "raised", f"{type(exc).__name__}: {str(exc)[:70]}"

fail = False
for label, data in [("{1: d1, '1': d2}", {1: d1, "1": d2}), ("{'a': d1, 'a\\x00': d2}", {"a": d1, "a\0": d2})]:
    assert len(data) == 2
    r0 = outcome(mkprior(0), data)   # 2 sources, 0 offset priors: must raise
    r1 = outcome(mkprior(1), data)   # 2 sources, 1 offset prior : must be accepted
    print(f"{label}: 2 sources / 0 offset priors -> {r0[0]}: {r0[1]}")
    print(f"{label}: 2 sources / 1 offset prior  -> {r1[0]}: {r1[1]}")
    if r0[0] == "accepted" or r1[0] == "raised":
        fail = True
# control: the list form of the same two sources behaves correctly
print("[d1, d2] / 0 ->", outcome(mkprior(0), [d1, d2])[0], "; [d1, d2] / 1 ->", outcome(mkprior(1), [d1, d2])[0])
if fail:
    print("DEFECT: number of data sources != number of offset priors + 1 was accepted")
    sys.exit(1)
sys.exit(0)
