"""C18 demo 1: a linear parameter with a *conditional* (non-independent) Normal prior is accepted and the
marginal likelihood is then computed for a different model (mu/sigma frozen at one random draw).

Run from the worktree root:  /venv/bin/python HUNT/demo_1.py
exit 1 = defect present; exit 0 = JokerPrior/TheJoker raised, or the marginal likelihood is exact.
"""
import os, sys, warnings
sys.path.insert(0, os.getcwd())
sys.path.insert(0, "/tmp/seedtools")
warnings.filterwarnings("ignore")
import pyx_runtime
pyx_runtime.install_twin(os.path.join(os.getcwd(), "thejoker/src/fast_likelihood.pyx"))
import numpy as np, astropy.units as u, pymc as pm, pytensor.tensor as pt
from astropy.time import Time
from scipy.stats import multivariate_normal
import thejoker as tj, thejoker.units as xu
from thejoker.distributions import UniformLog, Kipping13Global
assert tj.__file__.startswith(os.getcwd()), tj.__file__
kms = u.km / u.s

rng = np.random.default_rng(4)
t = 55000.0 + np.sort(rng.uniform(0, 300, 10))
rv = 10 * np.sin(2 * np.pi * t / 37.0) + rng.normal(0, 0.5, 10)
data = tj.RVData(Time(t, format="mjd", scale="tcb"), rv * kms, np.full(10, 0.5) * kms)

sigK0, P0, sig_v0 = 30.0, 365.25, 100.0
def sigma_K(P, e):                       # the law the user wrote down (same as FixedCompanionMass)
    return min(sigK0 * (P / P0) ** (-1 / 3) / np.sqrt(1 - e**2), 500.0)

def unit_rv(t, t_ref, P, e, omega, M0):  # independent Kepler solver
    M = 2 * np.pi * (t - t_ref) / P - M0
    E = M.copy()
    for _ in range(200):
        E = E - (E - e * np.sin(E) - M) / (1 - e * np.cos(E))
    f = 2 * np.arctan2(np.sqrt(1 + e) * np.sin(E / 2), np.sqrt(1 - e) * np.cos(E / 2))
    return np.cos(f + omega) + e * np.cos(omega)

def exact_ll(samples):                   # closed form: y ~ N(0, C + M Lambda M^T)
    out = []
    for i in range(len(samples)):
        P = samples["P"][i].to_value(u.day); e = float(samples["e"][i].value)
        om = samples["omega"][i].to_value(u.rad); M0 = samples["M0"][i].to_value(u.rad)
        M = np.stack([unit_rv(t, data._t_ref_bmjd, P, e, om, M0), np.ones_like(t)], axis=1)
        Lam = np.diag([sigma_K(P, e) ** 2, sig_v0**2])
        C = np.diag(np.full(len(t), 0.5**2)) + M @ Lam @ M.T
        out.append(multivariate_normal(np.zeros(len(t)), C).logpdf(rv))
    return np.array(out)

# reference path: the package's own FixedCompanionMass prior (same law) -> validates the closed form
with pm.Model():
    prior_ref = tj.JokerPrior.default(P_min=2 * u.day, P_max=100 * u.day, sigma_K0=sigK0 * kms,
                                      P0=P0 * u.day, sigma_v=sig_v0 * kms)
samples = prior_ref.sample(8, rng=np.random.default_rng(3))
ex = exact_ll(samples)
ll_ref = tj.TheJoker(prior_ref).marginal_ln_likelihood(data, samples, in_memory=True)
assert np.abs(ll_ref - ex).max() < 1e-5, "closed form does not reproduce the reference path"

try:
    with pm.Model():
        P = xu.with_unit(UniformLog("P", 2.0, 100.0), u.day)
        e = xu.with_unit(Kipping13Global("e"), u.one)
        # a Normal, but NOT an independent one: its sigma is a function of the random P and e
        K = xu.with_unit(pm.Normal("K", 0.0, pt.clip(sigK0 * (P / P0) ** (-1 / 3) / pt.sqrt(1 - e**2), 0, 500.0)), kms)
        prior = tj.JokerPrior.default(sigma_v=sig_v0 * kms, pars={"P": P, "e": e, "K": K})
    ll = tj.TheJoker(prior).marginal_ln_likelihood(data, samples, in_memory=True)
except Exception as exc:
    print("OK: rejected with", type(exc).__name__, "-", str(exc)[:100])
    sys.exit(0)

from thejoker.utils import _pytensor_get_mean_std
mu_used, sig_used = _pytensor_get_mean_std(prior.model["K"], kms, kms)
print("JokerPrior accepted K ~ Normal(0, sigma(P, e)); TheJoker ran the marginalisation.")
print("sigma_K the kernel used for EVERY sample (one random draw):", float(sig_used))
print("sigma_K(P_i, e_i) the prior actually has :", np.round([sigma_K(samples['P'][i].value, float(samples['e'][i].value)) for i in range(len(samples))], 2))
print("ln L (closed form)        :", np.round(ex, 4))
print("ln L (reference FCM path) :", np.round(ll_ref, 4))
print("ln L (this prior)         :", np.round(ll, 4))
err = np.abs(ll - ex).max()
print("max |ln L - exact| = %.3g" % err)
if err > 1e-5:
    print("DEFECT: marginalisation ran on a model it is not exact for (non-independent Normal accepted)")
    sys.exit(1)
sys.exit(0)
