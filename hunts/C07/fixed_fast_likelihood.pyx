# coding: utf-8
# cython: boundscheck=True
# cython: nonecheck=True
# cython: wraparound=True
# cython: initializedcheck=True
# cython: overflowcheck=True
# cython: linetrace=True
# cython: profile=True
# cython: cdivision=True
# cython: language_level=3

# Third-party
import astropy.units as u
import numpy as np
cimport numpy as np
np.import_array()
import cython
cimport cython
cimport scipy.linalg.cython_lapack as lapack
import thejoker.units as xu
from thejoker.utils import _pytensor_get_mean_std

# from libc.stdio cimport printf
from libc.math cimport pow, log, fabs, pi


cdef extern from "src/twobody.h":
    void c_rv_from_elements(double *t, double *rv, int N_t,
                            double P, double K, double e, double omega,
                            double phi0, double t0, double tol, int maxiter)

cdef:
    double INF = float('inf')
    # TODO: these should be pulled from the instance of TheJoker!
    double anomaly_tol = 1E-10  # passed to c_rv_from_elements
    int anomaly_maxiter = 128   # passed to c_rv_from_elements


# NOTE: if this order is changed, make sure to change the indexing order at
# the two other NOTE's below
_nonlinear_packed_order = ['P', 'e', 'omega', 'M0', 's']
_nonlinear_internal_units = {'P': u.day,
                             'e' : u.one,
                             'omega': u.radian,
                             'M0': u.radian}


cdef void get_ivar(double[::1] ivar, double s, double[::1] new_ivar):
    """Return new ivar values with the jitter incorporated.

    This is safe for zero'd out inverse variances.

    Parameters
    ----------
    ivar : `numpy.ndarray`
        Inverse-variance array.
    s : numeric
        Jitter in the same units as the RV data.
    new_ivar : `numpy.ndarray`
        The output array.

    """
    cdef:
        int i

    for i in range(ivar.shape[0]):
        new_ivar[i] = ivar[i] / (1 + s*s * ivar[i])


cdef class CJokerHelper:
    cdef:
        # Counts:
        int n_times
        int n_poly
        int n_offsets
        int n_linear
        int n_pars

        # Data:
        double t0
        double[::1] t
        double[::1] rv
        double[::1] ivar

        # Needed for runtime:
        double[::1] s_ivar
        double[:, ::1] trend_M
        double[:,::1] M_T

        # Prior on linear parameters:
        # TODO: Lambda should be a matrix, but we currently only support
        # diagonal variance
        double[::1] mu
        double[::1] Lambda
        int fixed_K_prior  # TODO: total HACK
        double sigma_K0  # TODO: total HACK
        double P0  # TODO: total HACK
        double max_K  # TODO: total HACK
        double logdet_Ainv

        # Needed for temporary storage in likelihood_worker:
        double[:, ::1] Btmp
        double[:, ::1] Atmp
        int[::1] npar_ipiv
        int[::1] ntime_ipiv
        double[::1] npar_work
        double[::1] ntime_work

        # Needed for internal work / output from likelihood_worker:
        public double[:, ::1] B
        public double[:, ::1] Binv
        public double[::1] b
        public double[:, ::1] A
        public double[:, ::1] Ainv
        public double[::1] a

        # Random number generation
        public object prior
        public object data
        public object internal_units
        public object packed_order

    def __reduce__(self):
        return (CJokerHelper, (self.data, self.prior, np.array(self.trend_M)))

    def __init__(self, data, prior, double[:, ::1] trend_M):
        cdef int i, j, n

        self.prior = prior
        self.data = data

        # Internal units needed for calculations below.
        # Note: order here matters! This is the order in which prior samples
        # will be unpacked externally!
        self.internal_units = {}
        self.internal_units['P'] = _nonlinear_internal_units['P']
        self.internal_units['e'] = _nonlinear_internal_units['e']
        self.internal_units['omega'] = _nonlinear_internal_units['omega']
        self.internal_units['M0'] = _nonlinear_internal_units['M0']
        self.internal_units['s'] = self.data.rv.unit
        self.internal_units['K'] = self.data.rv.unit
        self.internal_units['v0'] = self.data.rv.unit

        # v0 offsets must be between v0 and v1, if v1 is present
        for offset in prior.v0_offsets:
            self.internal_units[offset.name] = self.data.rv.unit

        for i, name in enumerate(prior._v_trend_names):
            self.internal_units[name] = self.data.rv.unit / u.day ** i

        # The assumed order of the nonlinear parameters used below to read from
        # packed samples array
        self.packed_order = _nonlinear_packed_order

        # Counting:
        self.n_times = len(data)  # number of data pints
        self.n_poly = prior.poly_trend  # polynomial trend terms
        self.n_offsets = prior.n_offsets  # v0 offsets
        self.n_linear = 1 + self.n_poly + self.n_offsets # K, trend
        self.n_pars = len(prior.par_names)

        # Data:
        self.t0 = data._t_ref_bmjd
        self.t = np.ascontiguousarray(data._t_bmjd, dtype='f8')
        self.rv = np.ascontiguousarray(data.rv.value, dtype='f8')
        self.ivar = np.ascontiguousarray(
            data.ivar.to_value(1 / self.data.rv.unit**2), dtype='f8')
        self.trend_M = trend_M

        # ivar with jitter included
        self.s_ivar = np.zeros(self.n_times, dtype='f8')

        # Transpose of design matrix: Fill the columns for the linear part of M
        # - trend shape: K, v0 + v0_offsets, poly_trend-1
        if (trend_M.shape[0] != self.n_times
                or trend_M.shape[1] != self.n_linear - 1):
            raise ValueError("Invalid design matrix shape: {}, expected: {}"
                             .format(trend_M.shape,
                                     (self.n_times,
                                     self.n_linear - 1)))

        self.M_T = np.zeros((self.n_linear, self.n_times))
        for n in range(self.n_times):
            for i in range(1, self.n_linear):
                self.M_T[i, n] = trend_M[n, i-1]

        # Needed for temporary storage in likelihood_worker:
        self.Btmp = np.zeros((self.n_times, self.n_times), dtype=np.float64)
        self.Atmp = np.zeros((self.n_linear, self.n_linear), dtype=np.float64)
        self.npar_ipiv = np.zeros(self.n_linear, dtype=np.int32)
        self.ntime_ipiv = np.zeros(self.n_times, dtype=np.int32)
        self.npar_work = np.zeros(self.n_linear, dtype=np.float64)
        self.ntime_work = np.zeros(self.n_times, dtype=np.float64)

        # Needed for internal work / output from likelihood_worker:
        self.B = np.zeros((self.n_times, self.n_times), dtype=np.float64)
        self.Binv = np.zeros((self.n_times, self.n_times), dtype=np.float64)
        self.b = np.zeros(self.n_times, dtype=np.float64)
        self.Ainv = np.zeros((self.n_linear, self.n_linear), dtype=np.float64)
        self.A = np.zeros((self.n_linear, self.n_linear), dtype=np.float64)
        self.a = np.zeros(self.n_linear, dtype=np.float64)

        # TODO: Lambda should be a matrix, but we currently only support
        # diagonal variance on Lambda
        self.mu = np.zeros(self.n_linear + self.n_offsets)
        self.Lambda = np.zeros(self.n_linear + self.n_offsets)

        # put v0_offsets variances into Lambda
        # - validated to be Normal() in JokerPrior
        for i in range(self.n_offsets):
            name = prior.v0_offsets[i].name
            # dist = prior.v0_offsets[i].distribution
            dist = prior.model[name]
            _unit = getattr(dist, xu.UNIT_ATTR_NAME)
            to_unit = self.internal_units[name]

            mu, std = _pytensor_get_mean_std(dist, _unit, to_unit)

            # K, v0 = 2 - start at index 2
            self.mu[2+i] = mu
            self.Lambda[2+i] = std ** 2

        # ---------------------------------------------------------------------
        # TODO: This is a bit of a hack:
        from ..distributions import FixedCompanionMass
        if prior.pars['K'].owner.op._print_name[0] == "FixedCompanionMass":
            self.fixed_K_prior = 0
        else:
            self.fixed_K_prior = 1

        for i, name in enumerate(prior._linear_equiv_units.keys()):
            _unit = getattr(prior.model[name], xu.UNIT_ATTR_NAME)
            to_unit = self.internal_units[name]

            dist = prior.model[name]
            mu, std = _pytensor_get_mean_std(dist, _unit, to_unit)

            if name == 'K' and self.fixed_K_prior == 0:
                # TODO: here's the major hack
                self.sigma_K0 = dist._sigma_K0.to_value(to_unit)
                self.P0 = dist._P0.to_value(self.internal_units['P'])
                self.max_K = dist._max_K.to_value(to_unit)
                self.mu[i] = mu

            elif name == 'K' or name == 'v0':
                self.Lambda[i] = std ** 2
                self.mu[i] = mu

            else:  # v1, v2, etc.
                j = i + self.n_offsets
                self.Lambda[j] = std ** 2
                self.mu[j] = mu
        # ---------------------------------------------------------------------

    cdef int make_AAinv(self):
        cdef:
            int i, j
            int info = 0
            int lwork = self.n_linear

        # Zero-out array:
        for i in range(self.n_linear):
            for j in range(self.n_linear):
                self.Ainv[i, j] = 0.

        # Ainv = Λinv + M.T @ Cinv @ M
        # First construct Ainv using the temp 2D array:
        for i in range(self.n_linear):
            self.Ainv[i, i] = 1 / self.Lambda[i]
            for j in range(self.n_linear):
                # TODO: with line above, this now assumes diagonal Lambda
                # Ainv[i, j] = Lambda_inv[i, j]
                for n in range(self.n_times):
                    self.Ainv[i, j] += (self.M_T[j, n] * self.s_ivar[n]
                                        * self.M_T[i, n])

                # Make a copy because we do in-place LU decomp. below
                self.Atmp[i, j] = self.Ainv[i, j]

        # LU factorization of Ainv, used for inverting to compute A:
        lapack.dgetrf(&(self.n_linear), &(self.n_linear), &(self.Atmp[0, 0]),
                      &(self.n_linear), &(self.npar_ipiv)[0], &info)
        if info != 0:
            return -1
        # Atmp is now the LU-decomposed Ainv
        self.logdet_Ainv = 0.
        for i in range(self.n_linear):
            self.logdet_Ainv += log(fabs(self.Atmp[i, i]))

        # Compute A from Ainv - Atmp is now A:
        lapack.dgetri(&(self.n_linear), &(self.Atmp[0, 0]), &self.n_linear,
                      &self.npar_ipiv[0], &self.npar_work[0], &lwork, &info)
        if info != 0:
            return -1

        for i in range(self.n_linear):
            for j in range(self.n_linear):
                self.A[i, j] = self.Atmp[i, j]

        return 0

    cdef double make_bBBinv(self):
        cdef:
            int i, j, n, m
            int info = 0
            double log_det_val

        # Make the vector b:
        for n in range(self.n_times):
            self.b[n] = 0.
            for i in range(self.n_linear):
                self.b[n] += self.M_T[i, n] * self.mu[i]

            # zero out B
            for m in range(self.n_times):
                self.B[n, m] = 0.

        # First make B:
        for n in range(self.n_times):
            self.B[n, n] = 1 / self.s_ivar[n]  # TODO: Assumes diagonal covariance
            for m in range(self.n_times):
                self.Binv[n, m] = 0.
                # TODO: this now assumes diagonal Lambda
                # for i in range(self.n_linear):
                #     for j in range(self.n_linear):
                #         B[n, m] += M_T[j, n] * Lambda[i, j] * M_T[i, m]
                for i in range(self.n_linear):
                    self.B[n, m] += (self.M_T[i, n] * self.Lambda[i]
                                     * self.M_T[i, m])

                self.Btmp[n, m] = self.B[n, m]

        # Compute Binv using A and the Woodbury matrix identity:
        # Binv = Cinv + Cinv @ M @ A @ M.T @ Cinv
        for n in range(self.n_times):
            self.Binv[n, n] = self.s_ivar[n]
            for i in range(self.n_linear):
                for m in range(self.n_times):
                    for j in range(self.n_linear):
                        self.Binv[n, m] -= (self.s_ivar[n] * self.M_T[i, n]
                                            * self.A[i, j] * self.M_T[j, m]
                                            * self.s_ivar[m])

        # Binv_py = np.diag(self.s_ivar) - np.diag(self.s_ivar) @ self.M_T.T @ self.A @ self.M_T @ np.diag(self.s_ivar)
        # print(np.allclose(Binv_py, np.array(self.Binv)))

        # LU factorization of B, used for determinant and inverse:
        lapack.dgetrf(&(self.n_times), &(self.n_times), &(self.Btmp[0, 0]),
                      &(self.n_times), &(self.ntime_ipiv)[0], &info)
        if info != 0:
            return INF

        # Compute log-determinant:
        log_det_val = 0.
        for i in range(self.n_times):
            log_det_val += log(2*pi * fabs(self.Btmp[i, i]))
        # print(np.allclose(log_det_val,
        #                   np.linalg.slogdet(2*np.pi*np.array(self.B))[1]))

        return log_det_val

    cdef double likelihood_worker(self, int make_aAinv):
        """The argument controls whether to make a, Ainv"""

        cdef:
            int i, j, n, m  # i,j used below for n_pars, n,m used for n_times

            # Needed to LAPACK dsysv
            char* uplo = 'U'  # store the upper triangle
            int nrhs = 1  # number of columns in b
            int info = 0  # if 0, success, otherwise some shit happened
            int lwork = self.n_times

            # Temp. variables needed for computation below
            double dy
            double var
            double chi2

        # We always produce B and b:
        # B = C + M @ Λ @ M.T
        # b = M @ µ

        info = self.make_AAinv()
        if info < 0:
            return INF

        # (B, Binv are not needed for the marginal likelihood any more)
        # Posterior mean of the linear parameters: solve Ainv a = M^T Cinv y + Lambda^-1 mu
        for i in range(self.n_linear):
            self.a[i] = 0.

        for n in range(self.n_times):
            for i in range(self.n_linear):
                self.a[i] += self.M_T[i, n] * self.s_ivar[n] * self.rv[n]

        for i in range(self.n_linear):
            self.a[i] += self.mu[i] / self.Lambda[i]

        for i in range(self.n_linear):
            for j in range(self.n_linear):
                self.Atmp[i, j] = self.Ainv[i, j]

        lapack.dsysv(uplo, &self.n_linear, &nrhs,
                     &self.Atmp[0, 0], &self.n_linear, # lda = same as n
                     &self.npar_ipiv[0], &self.a[0], &self.n_linear,
                     &self.npar_work[0], &lwork,
                     &info)

        if info != 0:
            return INF

        # chi2 = r^T Cinv r + (a - mu)^T Lambda^-1 (a - mu): a sum of squares, no cancellation
        chi2 = 0.
        for n in range(self.n_times):
            dy = self.rv[n]
            for i in range(self.n_linear):
                dy -= self.M_T[i, n] * self.a[i]
            chi2 += dy * dy * self.s_ivar[n]

        for i in range(self.n_linear):
            chi2 += (self.a[i] - self.mu[i]) * (self.a[i] - self.mu[i]) / self.Lambda[i]

        # ln|2 pi B| = n ln(2 pi) + ln|C| + ln|Lambda| + ln|Ainv|  (matrix determinant lemma)
        log_det_val = self.logdet_Ainv
        for n in range(self.n_times):
            log_det_val += log(2*pi) - log(self.s_ivar[n])
        for i in range(self.n_linear):
            log_det_val += log(self.Lambda[i])

        return -0.5 * (chi2 + log_det_val)


    cpdef batch_marginal_ln_likelihood(self, double[:, ::1] chunk):
        """Compute the marginal log-likelihood for a batch of prior samples.

        Parameters
        ----------
        chunk : numpy.ndarray
            A chunk of nonlinear parameter prior samples.
            Expected order: P, e, omega, M0, s (jitter).
        """
        cdef:
            int n
            int n_samples = chunk.shape[0]
            double P, e, om, M0

            # the log-likelihood values
            double[::1] ll = np.full(n_samples, np.nan)

        for n in range(n_samples):
            # NOTE: need to make sure the chunk is always in this order! If this
            # is changed, change "packed_order" above
            P = chunk[n, 0]
            e = chunk[n, 1]
            om = chunk[n, 2]
            M0 = chunk[n, 3]

            c_rv_from_elements(&self.t[0], &self.M_T[0, 0], self.n_times,
                               P, 1., e, om, M0, self.t0,
                               anomaly_tol, anomaly_maxiter)

            # Note: jitter must be in same units as the data RV's / ivar
            get_ivar(self.ivar, chunk[n, 4], self.s_ivar)

            # TODO: this is a continuation of the massive hack introduced above.
            if self.fixed_K_prior == 0:
                self.Lambda[0] = (self.sigma_K0**2 / (1 - e**2)
                                  * (P / self.P0)**(-2/3.))
                self.Lambda[0] = min(self.max_K**2, self.Lambda[0])

            # compute things needed for the ln(likelihood)
            ll[n] = self.likelihood_worker(0)

        return ll

    cpdef batch_get_posterior_samples(self, double[:, ::1] chunk,
                                      int n_linear_samples_per,
                                      object rng):
        """TODO:

        Parameters
        ----------
        chunk : numpy.ndarray
            A chunk of nonlinear parameter prior samples.
            Expected order: P, e, omega, M0, s (jitter).
        """

        cdef:
            int n, j, k
            int n_samples = chunk.shape[0]
            double P, e, om, M0

            # Transpose of design matrix
            double[:, ::1] M_T = np.zeros((self.n_linear, self.n_times))

            # the log-likelihood values
            double[:, ::1] ll = np.full((n_samples, n_linear_samples_per),
                                        np.nan)
            double _ll

            # The samples
            double[:, :, ::1] samples = np.zeros((n_samples,
                                                  n_linear_samples_per,
                                                  self.n_pars))
            double[:, ::1] linear_pars = np.zeros((n_linear_samples_per,
                                                   self.n_linear))

        for n in range(n_samples):
            # NOTE: need to make sure the chunk is always in this order! If this
            # is changed, change "packed_order" above
            P = chunk[n, 0]
            e = chunk[n, 1]
            om = chunk[n, 2]
            M0 = chunk[n, 3]

            c_rv_from_elements(&self.t[0], &self.M_T[0, 0], self.n_times,
                               P, 1., e, om, M0, self.t0,
                               anomaly_tol, anomaly_maxiter)

            # Note: jitter must be in same units as the data RV's / ivar
            get_ivar(self.ivar, chunk[n, 4], self.s_ivar)

            # TODO: this is a continuation of the massive hack introduced above.
            if self.fixed_K_prior == 0:
                self.Lambda[0] = (self.sigma_K0**2 / (1 - e**2)
                                  * (P / self.P0)**(-2/3.))
                self.Lambda[0] = min(self.max_K**2, self.Lambda[0])

            # compute likelihood, but also generate a, Ainv
            _ll = self.likelihood_worker(1)  # the 1 is "True"

            # TODO: FIXME: this calls back to numpy at the Python layer
            # - use https://github.com/bashtage/randomgen instead?
            # a and Ainv are populated by the likelihood_worker()
            linear_pars = rng.multivariate_normal(
                self.a, np.linalg.inv(self.Ainv), size=n_linear_samples_per)

            for j in range(n_linear_samples_per):
                ll[n, j] = _ll

                samples[n, j, 0] = P
                samples[n, j, 1] = e
                samples[n, j, 2] = om
                samples[n, j, 3] = M0
                samples[n, j, 4] = chunk[n, 4] # s, jitter

                for k in range(self.n_linear):
                    samples[n, j, 5 + k] = linear_pars[j, k]

        return (np.array(samples).reshape(n_samples * n_linear_samples_per, -1),
                np.array(ll).reshape(n_samples * n_linear_samples_per))

    cpdef test_likelihood_worker(self, double[::1] chunk_row):
        cdef:
            double P, e, om, M0

            # Transpose of design matrix
            double[:, ::1] M_T = np.zeros((self.n_linear, self.n_times))

        # TODO: need to make sure the chunk is always in this order!
        P = chunk_row[0]
        e = chunk_row[1]
        om = chunk_row[2]
        M0 = chunk_row[3]

        # TODO: audit order of chunk[...]'s and what c_rv_from_elements
        c_rv_from_elements(&self.t[0], &self.M_T[0, 0], self.n_times,
                            P, 1., e, om, M0, self.t0,
                            anomaly_tol, anomaly_maxiter)

        # Note: jitter must be in same units as the data RV's / ivar
        get_ivar(self.ivar, chunk_row[4], self.s_ivar)

        # TODO: this is a continuation of the massive hack introduced above.
        if self.fixed_K_prior == 0:
            self.Lambda[0] = (self.sigma_K0**2 / (1 - e**2)
                              * (P / self.P0)**(-2/3.))
            self.Lambda[0] = min(self.max_K**2, self.Lambda[0])

        # compute likelihood, but also generate a, A, etc.
        ll = self.likelihood_worker(1)  # the 1 is "True"

        return ll
