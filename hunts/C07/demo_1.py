"""
C07 demo 1 -- the marginal ln-likelihood (and with it the accepted set) depends on the
velocity unit of the RV data, far beyond round-off, for an ordinary problem.

Run from the worktree root:   /venv/bin/python HUNT/demo_1.py
Exit status 1 = property violated (this tree), 0 = property holds.

The SAME physical problem (4 epochs, 1 m/s errors, systemic velocity -80 km/s, the default
prior with sigma_K0 = 30 km/s, sigma_v = 100 km/s, P in (2, 1000) d, zero jitter) is given
to TheJoker once with the RVs in km/s and once in m/s.  C07 says the two marginal
ln-likelihood vectors differ by exactly n_epochs*ln(1000) and the accepted sets are equal
for equal seeds.

Independent references, both computed here without the kernel:
  * an 80-digit `decimal` evaluation of  -1/2 [ y^T B^-1 y + ln det(2 pi B) ],
    B = C + M Lambda M^T   (design matrix M from twobody, not from the kernel);
  * a plain float64 evaluation of the same number with the cancellation-free form
    chi2 = r^T C^-1 r + a^T Lambda^-1 a,  ln|B| = ln|C| + ln|Lambda| + ln|A^-1|
    -- it agrees with the 80-digit value to ~1e-11 in BOTH unit systems, so double
    precision is amply sufficient for this input: the discrepancy is the kernel's.
"""
import os
import sys
import warnings

sys.path.insert(0, os.getcwd())
sys.path.insert(0, "/tmp/seedtools")
import pyx_runtime  # noqa: E402

# run the CURRENT fast_likelihood.pyx (the compiled .so gives the same numbers, see report)
pyx_runtime.install_twin(os.environ.get("C07_PYX") or os.path.join(os.getcwd(), "thejoker/src/fast_likelihood.pyx"))
warnings.simplefilter("ignore")

from decimal import Decimal as D, getcontext  # noqa: E402

import astropy.units as u  # noqa: E402
import numpy as np  # noqa: E402
import pymc as pm  # noqa: E402
from astropy.time import Time  # noqa: E402

import thejoker as tj  # noqa: E402

assert os.path.abspath(tj.__file__).startswith(os.getcwd()), tj.__file__
import logging  # noqa: E402

logging.getLogger("thejoker").setLevel(logging.ERROR)

kms = u.km / u.s
ms = u.m / u.s
TOL_LL = 1e-6  # generous: the stable float64 evaluation below is unit-invariant to ~1e-11

# ----------------------------------------------------------------------------- problem
n = 4
rng = np.random.default_rng(5)
t = 58000 + np.sort(rng.uniform(0, 100, n))
tt = Time(t, format="mjd", scale="tcb")
err = np.full(n, 1e-3)  # 1 m/s, in km/s
rv = -80.0 + 0.02 * np.cos(2 * np.pi * (t - t[0]) / 17.3 + 0.4) + rng.normal(0, err)  # km/s
SIGMA_K0, SIGMA_V, P0 = 30.0, 100.0, 365.25  # km/s, km/s, d
N_PRIOR = 3000


def run(unit, seed):
    data = tj.RVData(tt, (rv * kms).to(unit), (err * kms).to(unit))
    with pm.Model():
        prior = tj.JokerPrior.default(
            P_min=2 * u.day, P_max=1000 * u.day,
            sigma_K0=SIGMA_K0 * kms, sigma_v=SIGMA_V * kms, P0=P0 * u.day,
        )
    ps = prior.sample(N_PRIOR, rng=np.random.default_rng(7))
    ll = tj.TheJoker(prior).marginal_ln_likelihood(data, ps, in_memory=True)
    joker = tj.TheJoker(prior, rng=np.random.default_rng(seed))
    post = joker.rejection_sample(data, ps, in_memory=True)
    return ps, ll, post


# ------------------------------------------------------------------- independent references
def design_matrix(ps, i):
    s = tj.JokerSamples(t_ref=tt.min())
    for k in ["P", "e", "omega", "M0", "s"]:
        s[k] = ps[k][i:i + 1]
    s["K"] = [1.0] * kms
    s["v0"] = [0.0] * kms
    m1 = s.get_orbit(0).radial_velocity(tt).to_value(kms)  # twobody, K = 1
    P = ps["P"][i].to_value(u.day)
    e = ps["e"][i].value
    lam_K = min(500.0**2, SIGMA_K0**2 / (1 - e**2) * (P / P0) ** (-2 / 3))
    return np.stack([m1, np.ones(n)], axis=1), np.array([lam_K, SIGMA_V**2])


def exact_ll(M, Lam, var, y):
    getcontext().prec = 80
    p = len(Lam)
    M = [[D(float(x)) for x in r] for r in M]
    Lam = [D(float(x)) for x in Lam]
    var = [D(float(x)) for x in var]
    y = [D(float(x)) for x in y]
    A = [[sum(M[a][j] * Lam[j] * M[b][j] for j in range(p)) + (var[a] if a == b else D(0))
          for b in range(n)] + [y[a]] for a in range(n)]
    logdet = D(0)
    for c in range(n):
        piv = max(range(c, n), key=lambda r: abs(A[r][c]))
        A[c], A[piv] = A[piv], A[c]
        logdet += abs(A[c][c]).ln()
        for r in range(c + 1, n):
            f = A[r][c] / A[c][c]
            for k in range(c, n + 1):
                A[r][k] -= f * A[c][k]
    x = [D(0)] * n
    for r in range(n - 1, -1, -1):
        x[r] = (A[r][n] - sum(A[r][k] * x[k] for k in range(r + 1, n))) / A[r][r]
    chi2 = sum(y[a] * x[a] for a in range(n))
    two_pi = 2 * D("3.1415926535897932384626433832795028841971693993751058209749445923")
    return float(D("-0.5") * (chi2 + logdet + n * two_pi.ln()))


def stable_float64_ll(M, Lam, var, y):
    Ci = 1 / var
    Ainv = np.diag(1 / Lam) + (M.T * Ci) @ M
    a = np.linalg.solve(Ainv, (M.T * Ci) @ y)
    r = y - M @ a
    chi2 = np.sum(r * r * Ci) + np.sum(a * a / Lam)
    logdet = (np.sum(np.log(var)) + np.sum(np.log(Lam)) + np.linalg.slogdet(Ainv)[1]
              + len(y) * np.log(2 * np.pi))
    return -0.5 * (chi2 + logdet)


# ----------------------------------------------------------------------------------- run
SEED = 0
ps_k, ll_k, post_k = run(kms, SEED)
ps_m, ll_m, post_m = run(ms, SEED)
assert np.array_equal(ps_k["P"].value, ps_m["P"].value)  # same prior samples in both runs

jac = n * np.log(1000.0)
d = (ll_m + jac) - ll_k  # C07: must be 0 up to round-off
worst = int(np.argmax(np.abs(d)))
best = int(np.argmax(ll_k))
bad = False

print(f"n_epochs = {n}, Jacobian constant n*ln(1000) = {jac:.6f}")
print(f"max | ll[m/s] + n ln 1000 - ll[km/s] |  over {N_PRIOR} prior samples = {np.abs(d).max():.3e}"
      f"   (sample {worst}; the highest-likelihood sample is {best})")
print(f"number of samples with a discrepancy > {TOL_LL:g}: {(np.abs(d) > TOL_LL).sum()}")
if np.abs(d).max() > TOL_LL:
    bad = True
    print("  -> VIOLATION: the marginal ln-likelihood changes by more than the Jacobian constant")

M, Lam = design_matrix(ps_k, worst)
ex = exact_ll(M, Lam, err**2, rv)
st_k = stable_float64_ll(M, Lam, err**2, rv)
st_m = stable_float64_ll(M, Lam * 1e6, err**2 * 1e6, rv * 1e3) + jac
print(f"sample {worst}: P = {ps_k['P'][worst]:.3f}, e = {ps_k['e'][worst]:.3f}")
print(f"  exact (80 digits, km/s convention)      : {ex:.9f}")
print(f"  kernel, data in km/s                    : {ll_k[worst]:.9f}   (error {ll_k[worst]-ex:+.3e})")
print(f"  kernel, data in m/s  (+ n ln 1000)      : {ll_m[worst]+jac:.9f}   (error {ll_m[worst]+jac-ex:+.3e})")
print(f"  stable float64 formula, km/s / m/s      : error {st_k-ex:+.1e} / {st_m-ex:+.1e}")
B = np.diag(err**2) + (M * Lam) @ M.T
print(f"  cond(B) = {np.linalg.cond(B):.2e}  (a backward-stable solve would lose ~eps*cond ~ "
      f"{2.2e-16*np.linalg.cond(B):.0e} relative, not O(0.1))")

Pk = np.sort(post_k["P"].to_value(u.day))
Pm = np.sort(post_m["P"].to_value(u.day))
print(f"rejection_sample, same prior samples, same seed ({SEED}):")
print(f"  accepted with data in km/s: {len(Pk)} samples, P = {np.round(Pk, 3)} d")
print(f"  accepted with data in m/s : {len(Pm)} samples, P = {np.round(Pm, 3)} d")
if len(Pk) != len(Pm) or not np.allclose(Pk, Pm, rtol=1e-9):
    bad = True
    print("  -> VIOLATION: the accepted set depends on the unit of the RV data")

if bad:
    print("\nC07 VIOLATED: re-expressing the RV data in m/s instead of km/s changes the physical result.")
    sys.exit(1)
print("\nC07 holds for this problem.")
sys.exit(0)
