"""C19 demo 2 (adjacent to the statement; the function is listed in the property's mechanism):
phase_coverage_per_period ("the maximum number of data points within a period") silently ignores every
observation taken before the data's reference epoch, and raises for a single epoch / all epochs <= t_ref.
Run from the worktree root:  /venv/bin/python HUNT/demo_2.py   (exit 1 = defect present)"""
import os, sys
sys.path.insert(0, os.getcwd())
import warnings; warnings.simplefilter("ignore")
import numpy as np
import astropy.units as u
from astropy.time import Time
from thejoker import RVData, JokerSamples
from thejoker.samples_analysis import phase_coverage_per_period


def make(t, P, t_ref=None):
    n = len(t)
    data = RVData(Time(t, format="mjd", scale="tcb"), np.zeros(n) * u.km / u.s,
                  np.ones(n) * u.km / u.s, t_ref=t_ref)
    s = JokerSamples(t_ref=data.t_ref)
    s["P"] = [P] * u.day
    return s[0], data


def reference(t, P, t_ref):
    """max count over the period-long windows [k, k+1) and [k-1/2, k+1/2) counted from t_ref, k any integer"""
    x = (np.asarray(t) - t_ref) / P
    a = np.floor(x).astype(int)
    b = np.floor(x + 0.5).astype(int)
    return max(np.unique(a, return_counts=True)[1].max(), np.unique(b, return_counts=True)[1].max())


fail = 0
t = 55000.0 + np.array([0.0, 1.0, 2.0, 3.0, 100.0])
P = 10.0
cases = [("default t_ref (= first epoch)", t, None, None),
         ("t_ref in the middle of the run", t, Time(55050.0, format="mjd", scale="tcb"), 55050.0),
         ("t_ref after the last epoch", t, Time(55200.0, format="mjd", scale="tcb"), 55200.0),
         ("one epoch", np.array([55000.0]), None, None),
         ("time-reversed pattern, t_ref mid", (t.max() + t.min() - t), Time(55050.0, format="mjd", scale="tcb"), 55050.0)]
for label, tt, tref, tref_num in cases:
    s, d = make(tt, P, tref)
    expected = reference(tt, P, tt.min() if tref_num is None else tref_num)
    try:
        got = int(phase_coverage_per_period(s, d))
    except Exception as e:  # noqa
        print(f"FAIL {label}: expected {expected}, call raised {type(e).__name__}: {e}")
        fail = 1
        continue
    if got != expected:
        print(f"FAIL {label}: expected {expected}, got {got}")
        fail = 1
    else:
        print(f"ok   {label}: {got}")
sys.exit(fail)
