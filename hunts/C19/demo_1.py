"""C19 demo 1: max_phase_gap / phase_coverage cannot be evaluated for RVData built with t_ref=False
(a documented option: "Set to False to disable subtracting the reference time").
Run from the worktree root:  /venv/bin/python HUNT/demo_1.py
Exits 1 on the defective tree, 0 if the diagnostics equal their definitions."""
import os, sys
sys.path.insert(0, os.getcwd())
import warnings; warnings.simplefilter("ignore")
import numpy as np
import astropy.units as u
from astropy.time import Time
from thejoker import RVData, JokerSamples
from thejoker.samples_analysis import max_phase_gap, phase_coverage, periods_spanned

t = 55000.0 + np.array([0.5, 1.5, 2.5, 3.5, 100.5])      # BMJD (phases fall mid-bin)
P = 10.0                                                  # days
n = len(t)
data = RVData(Time(t, format="mjd", scale="tcb"), np.zeros(n) * u.km / u.s,
              np.ones(n) * u.km / u.s, t_ref=False)       # no reference epoch (phase origin = BMJD 0)
sample = JokerSamples()
sample["P"] = [P] * u.day
sample = sample[0]

# independent definitions; without a reference epoch the package's phase origin is _t_ref_bmjd = 0.0
ph = np.sort((t - 0.0) / P % 1.0)
gaps = np.append(np.diff(ph), ph[0] + 1 - ph[-1])
exp_gap = gaps.max()                                      # 0.7 (the arc across 1 -> 0), origin independent
exp_cov = len(set(np.floor(ph * 10).astype(int))) / 10   # 0.4
exp_span = (t.max() - t.min()) / P                        # 10

fail = 0
for name, func, expected in [("max_phase_gap", max_phase_gap, exp_gap),
                             ("phase_coverage", phase_coverage, exp_cov),
                             ("periods_spanned", periods_spanned, exp_span)]:
    try:
        got = float(np.squeeze(func(sample, data)))
    except Exception as e:  # noqa
        print(f"FAIL {name}: expected {expected:.6g}, but the call raised {type(e).__name__}: {e}")
        fail = 1
        continue
    if abs(got - expected) > 1e-6:
        print(f"FAIL {name}: expected {expected:.6g}, got {got:.6g}")
        fail = 1
    else:
        print(f"ok   {name}: {got:.6g}")
sys.exit(fail)
