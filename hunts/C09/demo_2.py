"""C09 finding 2: UniformLog with array-valued bounds (and no explicit size/shape) draws ONE uniform for all
elements, so the components are identical / perfectly rank-correlated, while UniformLog.logp is the elementwise
(independent) log-uniform density.  Draws do not follow the declared joint density.

Run from the worktree root:  /venv/bin/python HUNT/demo_2.py      (exit 1 = defect present)
"""
import os
import sys
import warnings

sys.path.insert(0, os.getcwd())
warnings.simplefilter("ignore")

import numpy as np
import pymc as pm

from thejoker.distributions import UniformLog

N = 4000
bad = []

a = np.array([1.0, 10.0])
b = np.array([10.0, 1000.0])
d = UniformLog.dist(a, b)
x = pm.draw(d, draws=N, random_seed=2)
uu = np.log(x / a) / np.log(b / a)  # probability-integral transform of each component: iid U(0,1) if correct
rho = np.corrcoef(uu[:, 0], uu[:, 1])[0, 1]
print(f"UniformLog.dist([1,10],[10,1000]): shape {x.shape}, corr of the PITs of the two components = {rho:.6f}"
      f" (independent components: |rho| <~ {4/np.sqrt(N):.3f}); max|u0-u1| = {np.abs(uu[:,0]-uu[:,1]).max():.2e}")
if abs(rho) > 6 / np.sqrt(N):
    bad.append(f"components of a vector UniformLog are dependent (corr {rho:.4f}); logp treats them as independent")

with pm.Model():
    P = UniformLog("P", np.array([1.0, 1.0, 1.0]), 10.0)
    y = pm.draw(P, draws=5, random_seed=1)
print("UniformLog('P', [1,1,1], 10) draws:\n", y)
n_same = int((np.ptp(y, axis=1) == 0).sum())
if n_same:
    bad.append(f"{n_same}/5 draws of a 3-vector log-uniform have three identical components (probability 0)")

# control: the same with explicit shape is fine
with pm.Model():
    P = UniformLog("P", np.array([1.0, 1.0, 1.0]), 10.0, shape=(3,))
    y = pm.draw(P, draws=5, random_seed=1)
print("control with shape=(3,): identical rows =", int((np.ptp(y, axis=1) == 0).sum()))

if bad:
    print("\nPROPERTY C09 VIOLATED:")
    for m in bad:
        print("  -", m)
    sys.exit(1)
print("OK")
sys.exit(0)
