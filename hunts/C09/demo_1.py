"""C09 finding 1: UniformLog with plain Python integer bounds draws on a float16 grid and OUTSIDE its support.

UniformLog.dist() keeps the integer dtype pytensor auto-assigns to Python ints (int8 for |x| < 128); rng_fn then
calls np.log on int8 arrays, which numpy evaluates in float16, and the scalar uniform (a weak Python float) does
not promote it back.  Draws of UniformLog(5, 7) therefore take only ~350 distinct values and reach 7.0039 > b,
where the class's own logp is -inf; a JokerPrior built on it returns rows with ln_prior = -inf.

Run from the worktree root:  /venv/bin/python HUNT/demo_1.py      (exit 1 = defect present)
"""
import os
import sys
import warnings

sys.path.insert(0, os.getcwd())
warnings.simplefilter("ignore")

import astropy.units as u
import numpy as np
import pymc as pm

import thejoker as tj
import thejoker.units as xu
from thejoker.distributions import UniformLog
from thejoker.logging import logger

logger.setLevel(100)
N = 20000
bad = []


def check(label, a, b):
    d = UniformLog.dist(a, b)
    x = pm.draw(d, draws=N, random_seed=123)  # same call JokerPrior.sample uses
    lo, hi = float(a), float(b)
    n_out = int(((x < lo) | (x > hi)).sum())
    n_uniq = len(np.unique(x))
    lp = pm.logp(d, x).eval()
    n_inf = int((~np.isfinite(lp)).sum())
    print(
        f"{label:28s} param dtypes={[i.dtype for i in d.owner.inputs[-2:]]} "
        f"min={x.min():.6f} max={x.max():.6f} outside[a,b]={n_out} "
        f"logp(draw)=-inf: {n_inf}  distinct values={n_uniq}/{N}"
    )
    return n_out, n_inf, n_uniq


print("control (float64 bounds): must be inside the support, all distinct")
c = check("UniformLog(float64 1, 100)", np.float64(1), np.float64(100))
if c[0] or c[1] or c[2] < 0.999 * N:
    bad.append("control failed?!")

print("same distribution, bounds given as Python ints:")
for a, b in [(1, 100), (5, 7), (2, 50)]:
    n_out, n_inf, n_uniq = check(f"UniformLog({a}, {b})", a, b)
    if n_out:
        bad.append(f"UniformLog({a},{b}): {n_out}/{N} draws outside [a, b]")
    if n_inf:
        bad.append(f"UniformLog({a},{b}): own logp is -inf at {n_inf}/{N} of its own draws")
    if n_uniq < 0.99 * N:
        bad.append(
            f"UniformLog({a},{b}): only {n_uniq} distinct values in {N} draws of a continuous density"
        )

# effect on JokerPrior.sample(..., return_logprobs=True)
with pm.Model():
    P = xu.with_unit(UniformLog("P", 5, 7), u.day)
    prior = tj.JokerPrior.default(
        sigma_K0=30 * u.km / u.s, sigma_v=100 * u.km / u.s, pars={"P": P}
    )
s = prior.sample(size=N, return_logprobs=True, rng=np.random.default_rng(7))
n_inf = int((~np.isfinite(s["ln_prior"])).sum())
Pd = s["P"].to_value(u.day)
print(
    f"JokerPrior with P=UniformLog('P', 5, 7) d: P max={Pd.max():.5f} d, "
    f"rows with ln_prior=-inf: {n_inf}/{N}, distinct P values: {len(np.unique(Pd))}"
)
if n_inf:
    bad.append(f"prior.sample: {n_inf}/{N} drawn rows have ln_prior = -inf")

if bad:
    print("\nPROPERTY C09 VIOLATED:")
    for m in bad:
        print("  -", m)
    sys.exit(1)
print("OK")
sys.exit(0)
