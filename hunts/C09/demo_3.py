"""C09 finding 3 (documentation/support mismatch, low severity): the default prior documents
p(omega) = p(M0) = U(0, 2*pi) ("uniform over the domain (0, 2 pi)"), but prior.sample() returns both angles in
(-pi, pi): about half of the draws lie outside the documented support.  (Equivalent modulo 2 pi.)

Run from the worktree root:  /venv/bin/python HUNT/demo_3.py      (exit 1 = mismatch present)
"""
import os
import sys
import warnings

sys.path.insert(0, os.getcwd())
warnings.simplefilter("ignore")

import astropy.units as u
import numpy as np

import thejoker as tj

prior = tj.JokerPrior.default(P_min=2 * u.day, P_max=1e3 * u.day, sigma_K0=30 * u.km / u.s, sigma_v=100 * u.km / u.s)
s = prior.sample(size=20000, rng=np.random.default_rng(0))
bad = []
for name in ["omega", "M0"]:
    x = s[name].to_value(u.rad)
    frac = np.mean((x < 0) | (x > 2 * np.pi))
    print(f"{name}: min={x.min():.4f} max={x.max():.4f} rad; fraction outside documented (0, 2pi): {frac:.3f}")
    if frac > 0:
        bad.append(f"{name}: {frac:.1%} of prior draws outside the documented support (0, 2 pi)")
if bad:
    print("\nPROPERTY C09 (documented support) VIOLATED:")
    for m in bad:
        print("  -", m)
    sys.exit(1)
print("OK")
