from common import *
import h5py, tempfile, glob
tmp = tempfile.mkdtemp(prefix="c13repro_"); tempfile.tempdir = tmp
lib = prior.sample(size=32, rng=np.random.default_rng(7))
class DiskFull(OSError): pass
orig = h5py.File
class FailingFile(orig):                      # the first HDF5 open for writing fails (e.g. ENOSPC / EACCES)
    def __init__(self, name, mode="r", *a, **k):
        if mode == "w":
            raise DiskFull("injected: cannot create " + str(name))
        super().__init__(name, mode, *a, **k)
h5py.File = FailingFile
joker = tj.TheJoker(prior, rng=np.random.default_rng(42))
try:
    joker.marginal_ln_likelihood(data, lib)
except BaseException as e:
    print("exception reaching the caller:", type(e).__name__, "-", e)
finally:
    h5py.File = orig
print("HDF5 files left in TMPDIR:", glob.glob(tmp + "/*.hdf5"))
import shutil; shutil.rmtree(tmp)
