from common import *
lib = prior.sample(size=400, rng=np.random.default_rng(7))
acc = {}
for in_memory in (False, True):
    joker = tj.TheJoker(prior, rng=np.random.default_rng(42))
    s = joker.iterative_rejection_sample(data, lib, n_requested_samples=12, init_batch_size=8, in_memory=in_memory)
    P = s["P"].to_value(u.day)
    acc[in_memory] = [int(np.argmin(np.abs(lib["P"].to_value(u.day) - p))) for p in P]
print("cache path  accepted rows:", acc[False])
print("in_memory   accepted rows:", acc[True])
print("identical:", acc[False] == acc[True])
