import os, sys, warnings
warnings.filterwarnings("ignore")
sys.path.insert(0, os.path.join(os.path.dirname(os.path.abspath(__file__)), "..", "..", "harness"))
import core, pyxtrans
pyxtrans.install_twin(os.path.join(core.REPO, "thejoker/src/fast_likelihood.pyx"))
sys.path.insert(0, core.REPO)
import numpy as np, astropy.units as u, thejoker as tj
t = 55000.0 + np.array([0.0, 3.1, 7.7, 12.2, 20.4, 31.9])
rv = np.array([3.2, -7.1, 11.4, 0.3, -9.8, 6.6]) * u.km / u.s
err = np.full(6, 8.0) * u.km / u.s
data = tj.RVData(t=t, rv=rv, rv_err=err)
prior = tj.JokerPrior.default(P_min=2 * u.day, P_max=64 * u.day, sigma_K0=30 * u.km / u.s, sigma_v=100 * u.km / u.s)
