from common import *
out = []
for rep in range(2):
    joker = tj.TheJoker(prior, rng=np.random.default_rng(42))
    s = joker.rejection_sample(data, 64)           # prior samples requested by count
    out.append(np.sort(s["P"].value))
print("run 1 P[:3] =", out[0][:3], " run 2 P[:3] =", out[1][:3])
print("bit-identical:", len(out[0]) == len(out[1]) and np.array_equal(out[0], out[1]))
