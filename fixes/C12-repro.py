"""Stand-alone reproduction of the four C12 storage defects (see fixes/C12-*.md).
usage: VERIF_REPO=<repo copy> /venv/bin/python fixes/C12-repro.py"""
import sys, os, warnings, hashlib, tempfile, shutil
warnings.filterwarnings("ignore")
sys.path.insert(0, os.path.join(os.path.dirname(os.path.dirname(os.path.abspath(__file__))), "harness"))
import core, pyxtrans
pyxtrans.install_twin(os.path.join(core.REPO, "thejoker/src/fast_likelihood.pyx")); sys.path.insert(0, core.REPO)
import numpy as np, astropy.units as u
from astropy.time import Time
from thejoker.samples import JokerSamples
from thejoker.utils import read_batch
sha = lambda p: hashlib.sha256(open(p, "rb").read()).hexdigest()[:12]
d = tempfile.mkdtemp(prefix="c12_repro_"); p = os.path.join(d, "s.hdf5")
T = Time(55000.0, format="mjd", scale="tcb")
def tbl(n, names, t_ref=T, off=0.0):
    units = dict(P=u.day, e=u.one, omega=u.rad, M0=u.rad, s=u.km/u.s, ln_prior=u.one)
    s = JokerSamples(t_ref=t_ref)
    for k in names: s[k] = (np.arange(n) + off + 0.25) * units[k]
    return s
base = ["P", "e", "omega", "M0", "s"]
def attempt(label, t, **kw):
    h = sha(p)
    try:
        t.write(p, **kw); r = JokerSamples.read(p)
        print(f"{label}: ACCEPTED; file now {len(r)} rows, columns {r.par_names}, s={r['s'].value.tolist()}, t_ref={r.t_ref}, file changed={sha(p)!=h}")
    except Exception as e:
        print(f"{label}: {type(e).__name__}: {str(e)[:90]}; file changed={sha(p)!=h}")
print("== A: append with an extra / a missing last column")
tbl(3, base).write(p, overwrite=True); attempt("append 2 rows with extra column ln_prior", tbl(2, base + ["ln_prior"], off=10), append=True)
tbl(3, base).write(p, overwrite=True); attempt("append 2 rows without column s", tbl(2, base[:-1], off=10), append=True)
print("== B: append a table without t_ref onto a file with t_ref (and the reverse)")
tbl(3, base).write(p, overwrite=True); attempt("file t_ref=55000, table t_ref=None", tbl(2, base, t_ref=None, off=10), append=True)
tbl(3, base, t_ref=None).write(p, overwrite=True); attempt("file t_ref=None, table t_ref=55000", tbl(2, base, off=10), append=True)
print("== C: write(append=True, overwrite=True) on an existing file")
tbl(3, base).write(p, overwrite=True); attempt("append+overwrite", tbl(2, base, off=10), append=True, overwrite=True)
try: print("   read afterwards:", JokerSamples.read(p))
except Exception as e: print("   read afterwards:", type(e).__name__, e)
print("== D: read_batch by slice, float32 column first")
s = JokerSamples(t_ref=T); s["P"] = np.array([1.5, 2.5, 3.5], dtype="f4") * u.day; s["e"] = np.array([0.1, 0.2, 0.3]) * u.one
s.write(p, overwrite=True)
b = read_batch(p, ["P", "e"], slice(0, 3)); print("   slice  [P,e]:", b.dtype, b[:, 1].tolist())
b = read_batch(p, ["P", "e"], np.arange(3)); print("   index  [P,e]:", b.dtype, b[:, 1].tolist())
b = read_batch(p, ["e", "P"], slice(0, 3)); print("   slice  [e,P]:", b.dtype, b[:, 0].tolist())
shutil.rmtree(d)
