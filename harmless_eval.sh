#!/bin/bash
# harmless_eval.sh <id> <src-dir-with-SEED> "<props>" : run checks against a behaviour-preserving rewrite (must stay green)
set -u
id=$1; src=$2; props=$3
cd "$(dirname "$0")"
dst=seeded/harmless/$id; mkdir -p $dst
cp $src/SEED/patch.diff $src/SEED/notes.md $dst/ 2>/dev/null; cp $src/SEED/equiv.py $dst/ 2>/dev/null
wt=/tmp/harmeval_$id
git -C /repo worktree remove --force $wt 2>/dev/null
git -C /repo worktree add --detach $wt HEAD -q
cp /repo/thejoker/src/fast_likelihood.c /repo/thejoker/src/*.so $wt/thejoker/src/; cp /repo/thejoker/_version.py $wt/thejoker/
res=$dst/eval.txt; : > $res
( cd $wt && git apply $OLDPWD/$dst/patch.diff && echo "patch_applies=yes ($(git diff --stat | tail -1))" || echo "patch_applies=NO" ) >> $res
( cd $wt && /venv/bin/python -m pytest -q -p no:cacheprovider --timeout=900 --continue-on-collection-errors 2>&1 | tail -1 | sed 's/^/tests_patched: /' ) >> $res
for p in $props; do
  out=$(VERIF_REPO=$wt timeout 1800 ./check $p 2>&1 | grep -E "^(VIOLATION|OK|INFRA)" | head -3 | tr '\n' '|')
  echo "check_patched $p: $out" >> $res
done
git -C /repo worktree remove --force $wt
cat $res
