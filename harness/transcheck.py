"""Self-check of the pyx->Python translator: the compiled extension shipped with /repo was built from *some*
revision of fast_likelihood.pyx (Cython embeds the source lines in the .c file).  Find that revision in git,
translate it, and compare twin and binary on random inputs.  A disagreement is a bug of this machinery (exit 2),
never a statement about the package."""
import glob
import importlib.machinery
import importlib.util
import os
import subprocess
import types

import numpy as np

import core
import pyxtrans

REL = "thejoker/src/fast_likelihood.pyx"


def find_built_revision():
    cfile = os.path.join(core.REPO, "thejoker", "src", "fast_likelihood.c")
    emb = pyxtrans.embedded_pyx_lines(cfile)
    if not emb:
        return None, "no .c file with embedded source"
    try:
        revs = subprocess.run(["git", "-C", core.REPO, "log", "--format=%H", "--", REL], capture_output=True, text=True).stdout.split()
    except Exception as e:
        return None, f"git unavailable: {e}"
    import re
    norm = lambda x: re.sub(r"\s+", " ", x.split("#")[0]).strip()
    for r in revs:
        src = subprocess.run(["git", "-C", core.REPO, "show", f"{r}:{REL}"], capture_output=True, text=True).stdout
        cur = src.split("\n")
        if all(no - 1 < len(cur) and norm(cur[no - 1]) == norm(t) for no, t in emb.items()):
            return (r, src), "found"
    return None, "no git revision of the .pyx matches the compiled binary"


def load_binary():
    so = glob.glob(os.path.join(core.REPO, "thejoker", "src", "fast_likelihood.*.so"))
    if not so:
        return None
    loader = importlib.machinery.ExtensionFileLoader("thejoker.src.fast_likelihood", so[0])
    spec = importlib.util.spec_from_loader("thejoker.src.fast_likelihood", loader, origin=so[0])
    mod = importlib.util.module_from_spec(spec)
    loader.exec_module(mod)
    return mod


def load_twin_of(src):
    py = pyxtrans.translate(src)
    mod = types.ModuleType("thejoker.src.fast_likelihood")
    mod.__package__ = "thejoker.src"
    mod.__dict__["_rt"] = pyxtrans.RT
    with np.errstate(all="ignore"):
        exec(compile("from math import pow, log, fabs, pi\n" + py, "<twin-of-built-revision>", "exec"), mod.__dict__)
    return mod


def run(ctx, rng, n_problems=3):
    """returns dict(status=..., max_rel_dev=...)"""
    import scen
    from thejoker.data_helpers import validate_prepare_data
    found, why = find_built_revision()
    if found is None:
        return dict(status="skipped", why=why)
    rev, src = found
    try:
        binmod = load_binary()
    except Exception as e:
        return dict(status="skipped", why=f"cannot load the compiled binary: {type(e).__name__}: {e}")
    if binmod is None:
        return dict(status="skipped", why="no compiled binary")
    twin = load_twin_of(src)
    worst = 0.0
    cases = 0
    for _ in range(n_problems):
        pr = scen.make_problem(rng, q=0, K_kind="fcm", n=int(rng.integers(3, 10)))   # shapes the pinned revision handles identically
        lib, phys = scen.make_library(rng, pr, 16)
        all_data, ids, trend_M = validate_prepare_data(pr.data, pr.p, pr.q)
        hb = binmod.CJokerHelper(all_data, pr.prior, np.ascontiguousarray(trend_M))
        ht = twin.CJokerHelper(all_data, pr.prior, np.ascontiguousarray(trend_M))
        chunk, _ = lib.pack(units=hb.internal_units, names=hb.packed_order)
        chunk = np.ascontiguousarray(chunk, dtype="f8")
        a = np.array(hb.batch_marginal_ln_likelihood(chunk))
        b = np.array(ht.batch_marginal_ln_likelihood(chunk))
        ok = np.isfinite(a) & np.isfinite(b)
        if ok.any():
            worst = max(worst, float(np.max(np.abs(a[ok] - b[ok]) / (1 + np.abs(a[ok])))))
        cases += int(ok.sum())
    return dict(status="compared", revision=rev[:10], cases=cases, max_rel_dev=worst)
