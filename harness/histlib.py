"""Shared pieces of the C05 / C10 / C13 correspondences (history, RNG and cache-file properties).

Nothing here imports thejoker at module level (check.py must install the kernel's source twin first)."""
import hashlib
import os
import shutil
import tempfile

import numpy as np

import core
import scen


# ---------------------------------------------------------------------------------------------------------
# problems and libraries


def small_problem(rng, **kw):
    """A random problem with sizes kept small (the kernel runs as a pure-Python twin).

    A plain-Normal K prior is only combined with q = 0: with v0 offsets the pinned kernel leaves Lambda[0] = 0
    (a defect that belongs to C01, DESIGN section 4) and then every likelihood is the same number, which makes
    the case useless for order / history comparisons.  This is a choice of *useful* inputs, not a filter on
    failures: every comparison here is implementation-vs-implementation."""
    q = kw.pop("q", None)
    if q is None:
        q = int(rng.choice([0, 0, 1, 2]))
    K_kind = kw.pop("K_kind", None)
    if K_kind is None:
        K_kind = "fcm" if q > 0 else str(rng.choice(["fcm", "fcm", "normal"]))
    n = kw.pop("n", None)
    if n is None:
        n = int(rng.integers(max(3, q + 1), 9))
    # error scale relative to the scatter: larger errors => flatter likelihood => intermediate acceptance
    es = kw.pop("err_scale", None)
    if es is None:
        es = float(10 ** rng.uniform(-0.7, 0.9))
    return scen.make_problem(rng, q=q, K_kind=K_kind, n=n, err_scale=es, **kw)


def library(rng, pr, N, internal_units=None, ln_prior=True):
    """hand-built prior-sample library; `internal_units=True` stores every column in the kernel's units (then
    every path must agree bit for bit), False picks random storage units"""
    if internal_units is None:
        internal_units = bool(rng.random() < 0.6)
    lib, phys = scen.make_library(rng, pr, N, units="canonical" if internal_units else None, ln_prior=ln_prior)
    return lib, phys, internal_units


class Scratch:
    """private scratch directory: TMPDIR for the code under test + place for library files"""

    def __init__(self, tag):
        self.root = tempfile.mkdtemp(prefix=f"verif_{tag}_", dir=os.environ.get("VERIF_SCRATCH") or None)
        self.tmpdir = os.path.join(self.root, "tmp")
        self.userdir = os.path.join(self.root, "user")
        self.jokerdir = os.path.join(self.root, "joker")
        for d in (self.tmpdir, self.userdir, self.jokerdir):
            os.makedirs(d)
        self._old = None

    def __enter__(self):
        self._old = (os.environ.get("TMPDIR"), tempfile.tempdir)
        os.environ["TMPDIR"] = self.tmpdir
        tempfile.tempdir = self.tmpdir
        return self

    def __exit__(self, *a):
        old_env, old_td = self._old
        if old_env is None:
            os.environ.pop("TMPDIR", None)
        else:
            os.environ["TMPDIR"] = old_env
        tempfile.tempdir = old_td
        shutil.rmtree(self.root, ignore_errors=True)

    def listing(self):
        """every HDF5 file (by suffix or by signature) below the private TMPDIR and the tempfile_path handed to
        TheJoker.  Other files are ignored: pytensor / numba drop generated *.py sources into TMPDIR when a
        model is unpickled in a worker process, which has nothing to do with the sampler's cache."""
        out = []
        for base in (self.tmpdir, self.jokerdir):
            for r, _, fs in os.walk(base):
                for f in fs:
                    p = os.path.join(r, f)
                    if f.endswith((".hdf5", ".h5")):
                        out.append(p)
                        continue
                    try:
                        with open(p, "rb") as fh:
                            if fh.read(8) == b"\x89HDF\r\n\x1a\n":
                                out.append(p)
                    except OSError:
                        pass
        return sorted(out)

    def write_library(self, lib, name="lib.hdf5"):
        path = os.path.join(self.userdir, name)
        lib.write(path, overwrite=True)
        return path


def sha256_file(path):
    h = hashlib.sha256()
    with open(path, "rb") as f:
        for blk in iter(lambda: f.read(1 << 20), b""):
            h.update(blk)
    return h.hexdigest()


# ---------------------------------------------------------------------------------------------------------
# canonical form of outputs


def table_arrays(samples):
    """JokerSamples -> {column: (unit string, float64 array)}; plain arrays pass through"""
    if samples is None:
        return None
    if isinstance(samples, np.ndarray):
        return {"array": ("", np.array(samples, dtype="f8"))}
    out = {}
    tbl = samples.tbl
    for name in tbl.colnames:
        col = tbl[name]
        unit = str(getattr(col, "unit", "") or "")
        arr = np.asarray(getattr(col, "value", col))
        if arr.dtype.fields is not None:     # structured column (e.g. a whole table row stored as ln_prior)
            arr = np.stack([np.asarray(arr[f], dtype="f8") for f in arr.dtype.names], axis=-1)
        out[name] = (unit, np.array(arr, dtype="f8"))
    return out


def arrays_diff(a, b):
    """None if the two canonical outputs are bit-identical (NaN == NaN by bit pattern), else a description"""
    if (a is None) != (b is None):
        return "one output missing"
    if a is None:
        return None
    if sorted(a) != sorted(b):
        return f"columns differ: {sorted(a)} vs {sorted(b)}"
    for k in a:
        (ua, xa), (ub, xb) = a[k], b[k]
        if ua != ub:
            return f"unit of {k}: {ua!r} vs {ub!r}"
        if xa.shape != xb.shape:
            return f"shape of {k}: {xa.shape} vs {xb.shape}"
        if xa.tobytes() != xb.tobytes():
            bad = np.nonzero(xa.view("u8").ravel() != xb.view("u8").ravel())[0]
            i = int(bad[0])
            return f"{k}[{i}]: {float(xa.ravel()[i])!r} vs {float(xb.ravel()[i])!r} ({len(bad)} of {xa.size} differ)"
    return None


def digest(canon):
    h = hashlib.sha256()
    if canon is None:
        return "none"
    for k in sorted(canon):
        u, x = canon[k]
        h.update(k.encode())
        h.update(u.encode())
        h.update(str(x.shape).encode())
        h.update(np.ascontiguousarray(x).tobytes())
    return h.hexdigest()


def brief(canon, n=4):
    if canon is None:
        return None
    return {k: dict(unit=u, shape=list(x.shape), head=[float(v) for v in x.ravel()[:n]]) for k, (u, x) in canon.items()}


def accepted_rows(samples, lib_P_internal, n_linear=1):
    """which library rows a posterior table consists of, identified by the (distinct) period values;
    returns list of row indices (one per posterior row / n_linear) or None if periods cannot be matched"""
    import astropy.units as u
    P = samples["P"].to_value(u.day)
    P = P[::n_linear] if n_linear > 1 else P
    lib = np.asarray(lib_P_internal)
    order = np.argsort(lib)
    pos = np.searchsorted(lib[order], P)
    pos = np.clip(pos, 0, len(lib) - 1)
    rows = []
    for p, k in zip(P, pos):
        cand = [order[kk] for kk in (k - 1, k, k + 1) if 0 <= kk < len(lib)]
        best = min(cand, key=lambda c: abs(lib[c] - p))
        if abs(lib[best] - p) > 1e-9 * abs(p):
            return None
        rows.append(int(best))
    return rows


# ---------------------------------------------------------------------------------------------------------
# pools


def serial_pool():
    import schwimmbad
    return schwimmbad.SerialPool()


def multi_pool(k):
    import schwimmbad
    return schwimmbad.MultiPool(k)


def seed_of(rng):
    return int(rng.integers(0, 2 ** 31 - 1))


# ---------------------------------------------------------------------------------------------------------
# API call specifications (shared vocabulary of the three checks)


def gen_spec(rng, N, entry=None, source=None, in_memory=None, allow_int=True, has_ln_prior=True):
    """A random, *valid* option combination for one public entry point on a library of N rows."""
    if entry is None:
        entry = str(rng.choice(["marginal", "rejection", "rejection", "iterative"]))
    if source is None:
        source = str(rng.choice(["object", "file"]))
    if in_memory is None:
        in_memory = bool(rng.random() < 0.25)
    # (in_memory=True with a file name is a valid combination: "Load all prior samples ... in memory")
    spec = dict(entry=entry, source=source, in_memory=in_memory, opts={})
    o = spec["opts"]
    nb = [None, 1, 2, 3, int(rng.integers(1, N + 4)), N, N + 3][int(rng.integers(0, 7))]
    if entry == "marginal":
        if not in_memory:
            o["n_batches"] = nb
    elif entry == "rejection":
        if rng.random() < 0.4:
            o["max_posterior_samples"] = int(rng.integers(1, max(2, N // 2)))
        if rng.random() < 0.4:
            o["n_linear_samples"] = int(rng.integers(2, 4))
        # (return_logprobs with n_linear_samples > 1 is not supported by the package: column lengths differ)
        if has_ln_prior and "n_linear_samples" not in o and rng.random() < 0.5:
            o["return_logprobs"] = True
        if rng.random() < 0.5:
            o["return_all_logprobs"] = True
        if not in_memory:
            o["n_batches"] = nb
        if source != "int" and rng.random() < 0.35:
            o["n_prior_samples"] = int(rng.integers(max(1, N // 2), N + 1))
        if rng.random() < 0.35:
            o["randomize_prior_order"] = True
    elif entry == "iterative":
        o["n_requested_samples"] = int(rng.integers(1, 6))
        o["init_batch_size"] = int(rng.integers(max(1, N // 8), max(2, N // 2)))
        if rng.random() < 0.3:
            o["n_linear_samples"] = int(rng.integers(2, 4))
        if has_ln_prior and "n_linear_samples" not in o and rng.random() < 0.5:
            o["return_logprobs"] = True
        if not in_memory:
            o["n_batches"] = nb
        if rng.random() < 0.3:
            o["max_prior_samples"] = int(rng.integers(max(o["init_batch_size"], N // 2), N + 1))
        if rng.random() < 0.3:
            o["randomize_prior_order"] = True
    return spec


def do_call(joker, pr, spec, lib=None, path=None, n_int=None, data=None):
    """run one API call; returns canonical output {"samples": canon, "lls": canon}"""
    entry, source, opts = spec["entry"], spec["source"], dict(spec["opts"])
    if data is not None:
        pr = _WithData(pr, data)
    if source == "object":
        ps = lib
    elif source == "file":
        ps = path
    else:
        ps = int(n_int)
    if spec.get("in_memory"):
        opts["in_memory"] = True
    if entry == "marginal":
        ll = joker.marginal_ln_likelihood(pr.data, ps, **opts)
        return {"samples": None, "lls": table_arrays(np.asarray(ll))}
    if entry == "rejection":
        out = joker.rejection_sample(pr.data, ps, **opts)
        if opts.get("return_all_logprobs"):
            s, lls = out
            return {"samples": table_arrays(s), "lls": table_arrays(np.asarray(lls)), "_obj": s}
        return {"samples": table_arrays(out), "lls": None, "_obj": out}
    if entry == "iterative":
        out = joker.iterative_rejection_sample(pr.data, ps, **opts)
        if not hasattr(out, "tbl"):
            # the in-memory path *returns* (instead of raising) a RuntimeError on non-finite likelihoods
            # (belongs to C14); treat as a value so that it can be compared across runs
            return {"samples": None, "lls": None, "_obj": None, "returned": repr(out)}
        return {"samples": table_arrays(out), "lls": None, "_obj": out}
    raise ValueError(entry)


class _WithData:
    def __init__(self, pr, data):
        self.data = data


def out_diff(a, b):
    for k in ("samples", "lls"):
        d = arrays_diff(a.get(k), b.get(k))
        if d is not None:
            return f"{k}: {d}"
    if a.get("returned") != b.get("returned"):
        return f"returned {a.get('returned')} vs {b.get('returned')}"
    return None


def out_digest(a):
    return digest(a.get("samples")) + ":" + digest(a.get("lls")) + ":" + str(a.get("returned"))


def out_brief(a):
    return {"samples": brief(a.get("samples")), "lls": brief(a.get("lls")), "returned": a.get("returned")}


# ---------------------------------------------------------------------------------------------------------
# fault injection and step recording (C13; also used by C05 for step counting)


class InjectedFault(Exception):
    pass


class InjectedOSError(OSError):
    pass


class InjectedBase(BaseException):
    """not an `Exception`: a cleanup written as `except Exception:` instead of `finally:` misses it"""


EXC_CLASSES = {"Exception": InjectedFault, "OSError": InjectedOSError, "BaseException": InjectedBase}


class Recorder:
    """Records the observable steps of a call (vocabulary of the Lean `Cache.Step`) and raises an injected
    exception at the k-th invocation of one target."""

    def __init__(self, sc):
        import collections
        self.sc = sc
        self.trace = []
        self.counts = collections.Counter()
        self.fault = None          # (target, occurrence, exception class name)
        self.armed_file = None     # if set: faults fire only while this file exists (lets the parent disarm forked workers)
        self.fired = False
        self.ids = {}

    def fid(self, path):
        """('temp'|'user'|None, id) for a path; ids are small naturals in order of first appearance"""
        try:
            p = os.path.abspath(os.fspath(path))
        except TypeError:
            return None, 0
        if p.startswith(self.sc.tmpdir + os.sep) or p.startswith(self.sc.jokerdir + os.sep):
            kind = "temp"
        elif p.startswith(self.sc.userdir + os.sep):
            kind = "user"
        else:
            return None, 0
        if p not in self.ids:
            self.ids[p] = (1 if kind == "temp" else 100) + sum(1 for k in self.ids.values() if (k >= 100) == (kind == "user"))
        return kind, self.ids[p]

    def hit(self, target, step=None):
        self.counts[target] += 1
        if step is not None:
            self.trace.append(step)
        if self.fault is not None and self.fault[0] == target and self.counts[target] == self.fault[1] \
                and (self.armed_file is None or os.path.exists(self.armed_file)):
            self.fired = True
            raise EXC_CLASSES[self.fault[2]](f"injected fault at {target} #{self.fault[1]}")

    def open_step(self, path, mode):
        kind, i = self.fid(path)
        if kind == "temp":
            return {"s": "openTemp", "f": i, "m": "r" if mode == "r" else str(mode)}
        if kind == "user":
            return {"s": "openUser", "p": i, "m": "r" if mode == "r" else str(mode)}
        return None


class FaultPool:
    """wraps a pool: `map` is a recorded / injectable step"""

    def __init__(self, inner, recorder):
        self.inner = inner
        self.rec = recorder
        self.size = getattr(inner, "size", 1)

    def map(self, worker, tasks, **kw):
        self.rec.hit("pool.map", {"s": "body", "l": "pool.map"})
        return self.inner.map(worker, tasks, **kw)

    def close(self):
        # a faithful wrapper: if the code under test closes the user's pool, the user's pool is closed
        self.rec.counts["pool.close"] += 1
        return self.inner.close()


class instrument:
    """context manager: patch the callables used inside the sampler entry points so that they record / fail.
    Classes (h5py.File) are replaced by recording *subclasses* so that isinstance checks keep working."""

    TARGETS = ["NamedTemporaryFile", "JokerSamples.write", "h5py.File", "tb.open_file", "read_batch",
               "batch_marginal_ln_likelihood", "batch_get_posterior_samples", "pool.map", "JokerSamples.unpack",
               "JokerSamples.pack", "h5py.create_dataset", "h5py.File.close", "NamedTemporaryFile.close", "os.path.exists"]

    def __init__(self, recorder):
        self.rec = recorder
        self.saved = []

    def _set(self, obj, name, new):
        self.saved.append((obj, name, obj.__dict__[name] if name in obj.__dict__ else getattr(obj, name)))
        setattr(obj, name, new)

    def __enter__(self):
        import h5py
        import tables
        import thejoker.multiproc_helpers as mh
        import thejoker.utils as tu
        from thejoker.samples import JokerSamples
        from thejoker.src import fast_likelihood as fl
        rec = self.rec

        orig_ntf = tu.NamedTemporaryFile

        def ntf(*a, **k):
            rec.hit("NamedTemporaryFile")          # a fault here means: nothing was created
            f = orig_ntf(*a, **k)
            kind, i = rec.fid(f.name)
            rec.trace.append({"s": "mkTemp", "f": i})
            # closing the freshly created (empty) cache file is a step of its own: a failure here (close(2) reporting
            # EIO / EDQUOT) happens while the file already exists
            orig_close = f.close

            def close():
                try:
                    rec.hit("NamedTemporaryFile.close")
                except BaseException:
                    orig_close()
                    raise
                return orig_close()
            f.close = close
            return f
        self._set(tu, "NamedTemporaryFile", ntf)

        # os.path.exists(<temp file>) whose stat fails (EIO / ESTALE on a network TMPDIR): the real function swallows the OSError and
        # answers False - so does this one at the injected occurrence.  Not an exception: only the no-leak clause applies.
        orig_exists = os.path.exists

        def exists(path_):
            kind, _i = rec.fid(path_) if isinstance(path_, (str, os.PathLike)) else (None, 0)
            if kind == "temp":
                try:
                    rec.hit("os.path.exists")
                except BaseException:
                    return False
            return orig_exists(path_)
        self._set(os.path, "exists", exists)

        orig_write = JokerSamples.write

        def write(self_, output, *a, **k):
            kind, i = rec.fid(output)
            step = {"s": "writeTemp", "f": i} if kind == "temp" else ({"s": "openUser", "p": i, "m": "w"} if kind == "user" else None)
            rec.hit("JokerSamples.write", step)
            return orig_write(self_, output, *a, **k)
        self._set(JokerSamples, "write", write)

        orig_file = h5py.File

        def created(name, existed):
            # a temp file that comes into existence through an open in a creating mode is a `mkTemp` step
            kind, i = rec.fid(name)
            if kind == "temp" and not existed and os.path.exists(os.fspath(name)):
                rec.trace.append({"s": "mkTemp", "f": i})

        def exists(name):
            try:
                return os.path.exists(os.fspath(name))
            except TypeError:
                return True

        class RecFile(orig_file):
            def __init__(self_, name, mode="r", *a, **k):
                existed = exists(name)
                rec.hit("h5py.File", rec.open_step(name, mode))
                super().__init__(name, mode, *a, **k)
                created(name, existed)

            def close(self_):
                # fail *before* closing only for files opened for writing (half-written cache); the handle is still
                # closed so that no descriptor is leaked by the injection itself
                if self_.id.valid and self_.mode != "r":
                    try:
                        rec.hit("h5py.File.close")
                    except BaseException:
                        super().close()
                        raise
                return super().close()
        self._set(h5py, "File", RecFile)

        orig_cd = h5py.Group.create_dataset

        def create_dataset(self_, *a, **k):
            rec.hit("h5py.create_dataset")      # a failure in the middle of writing a table
            return orig_cd(self_, *a, **k)
        self._set(h5py.Group, "create_dataset", create_dataset)

        orig_open = tables.open_file

        def open_file(filename, mode="r", *a, **k):
            existed = exists(filename)
            rec.hit("tb.open_file", rec.open_step(filename, mode))
            r = orig_open(filename, mode, *a, **k)
            created(filename, existed)
            return r
        self._set(tables, "open_file", open_file)

        orig_rb = mh.read_batch

        def read_batch(*a, **k):
            rec.hit("read_batch", {"s": "body", "l": "read_batch"})
            return orig_rb(*a, **k)
        self._set(mh, "read_batch", read_batch)

        for meth in ("batch_marginal_ln_likelihood", "batch_get_posterior_samples"):
            orig = fl.CJokerHelper.__dict__[meth]

            def make(orig=orig, meth=meth):
                def wrapped(self_, *a, **k):
                    rec.hit(meth, {"s": "body", "l": meth})
                    return orig(self_, *a, **k)
                return wrapped
            self._set(fl.CJokerHelper, meth, make())

        orig_unpack = JokerSamples.__dict__["unpack"]

        def unpack(cls, *a, **k):
            rec.hit("JokerSamples.unpack", {"s": "body", "l": "unpack"})
            return orig_unpack.__func__(cls, *a, **k)
        self._set(JokerSamples, "unpack", classmethod(unpack))

        orig_pack = JokerSamples.pack

        def pack(self_, *a, **k):
            rec.hit("JokerSamples.pack", {"s": "body", "l": "pack"})
            return orig_pack(self_, *a, **k)
        self._set(JokerSamples, "pack", pack)

        orig_unlink = os.unlink

        def unlink(path, *a, **k):
            try:
                kind, i = rec.fid(path)
            except Exception:
                kind, i = None, 0
            if kind == "temp":
                rec.trace.append({"s": "unlink", "f": i})
            elif kind == "user":
                rec.trace.append({"s": "openUser", "p": i, "m": "unlink"})
            return orig_unlink(path, *a, **k)
        self._set(os, "unlink", unlink)

        orig_remove = os.remove

        def remove(path, *a, **k):
            kind, i = rec.fid(path)
            if kind == "temp":
                rec.trace.append({"s": "unlink", "f": i})
            elif kind == "user":
                rec.trace.append({"s": "openUser", "p": i, "m": "unlink"})
            return orig_remove(path, *a, **k)
        self._set(os, "remove", remove)
        return self

    def __exit__(self, *a):
        for obj, name, old in reversed(self.saved):
            setattr(obj, name, old)
        self.saved = []
