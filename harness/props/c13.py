"""C13 - failures propagate and never leak cache files or damage user files.

Tie = fault enumeration on the real code (DESIGN 3/C13).  For a configuration (entry point x input form x pool x
options) a dry run under the recorder measures how often each internal callable is invoked
(`NamedTemporaryFile`, `JokerSamples.write`, `h5py.File`, `tb.open_file`, `read_batch`, the helper's two batch
methods, `pool.map`, `JokerSamples.unpack`, `JokerSamples.pack`); then for each callable and occurrences k
(first, last, one in between; all of them in the thorough tier) an exception (Exception / OSError / BaseException
subclass) is injected at its k-th invocation and the check decides, independently of the model:
 (a) exactly that exception object's class and message reach the caller;
 (b) the set of files below the private TMPDIR and the sampler's tempfile_path is the same as before the call
     (a pre-existing decoy *.hdf5 there must survive, nothing new may remain);
 (c) the user's sample file has the same SHA-256, the user's JokerSamples object the same content;
 (d) a follow-up call on the same TheJoker equals, bit for bit, the same call on a fresh TheJoker.
The observed step trace (file-system steps with their open modes + body steps) is sent to the Lean `Cache` machine
(`cache.run`): it must be a run of the model (trace inclusion) and the model's final state / propagated flag must
agree with what was observed - this is what connects the enumeration to the for-all-faults theorems."""
import os

import numpy as np

NEEDS_KERNEL = False

RULE = ("one evaluation = one call (dry or with one injected fault) with checks (a)-(d) and trace inclusion; "
        "non-trivial = a fault was actually raised inside the call while a temp file existed or a user file was "
        "open-able; distinct = distinct (entry, input form, pool, target, occurrence class, exception class)")

CONFIGS = [("rejection", "object"), ("marginal", "object"), ("iterative", "object"), ("rejection", "file"),
           ("iterative", "file"), ("marginal", "file"), ("rejection", "inmem"), ("iterative", "inmem"),
           ("marginal", "inmem")]


def plan(ctx):
    t = ctx.thorough
    cases = [("serial", i) for i in range(27 if t else 9)]
    cases += [("multi", i) for i in range(9 if t else 2)]
    cases += [("diskfull", i) for i in range(6 if t else 2)]
    cases += [("intprior", i) for i in range(6 if t else 2)]
    return cases


def make_config(rng, kind, index):
    import histlib as hl
    entry, form = CONFIGS[index % len(CONFIGS)] if kind == "serial" else CONFIGS[(index * 2) % 6]
    pr = hl.small_problem(rng, n=int(rng.integers(3, 7)))
    N = int(rng.integers(12, 28))
    lib, phys, internal = hl.library(rng, pr, N)
    spec = hl.gen_spec(rng, N, entry=entry, source="file" if form == "file" else "object", in_memory=(form == "inmem"))
    if form != "inmem":
        spec["opts"]["n_batches"] = int(rng.integers(1, 4))
    return pr, lib, N, spec, form


def occurrences(rng, K, thorough):
    if thorough or K <= 3:
        return list(range(1, K + 1))
    mid = int(rng.integers(2, K))
    return sorted({1, mid, K})


def one_run(ctx, g, sc, pr, lib, path, spec, form, pool_factory, fault, ref, seed, seed2, decoy, inp0):
    """one call, dry (fault None) or with one injected fault; all checks; returns the recorder"""
    import histlib as hl
    rec = hl.Recorder(sc)
    rec.fault = fault
    if fault is not None:
        # workers forked from here inherit the armed injector; the parent disarms all of them after the failing
        # call by removing this file, so that the follow-up call can run on the SAME pool
        rec.armed_file = os.path.join(sc.root, "fault-armed")
        open(rec.armed_file, "w").close()
    before = sc.listing()
    user_hash = hl.sha256_file(path) if path else None
    lib_before = hl.digest(hl.table_arrays(lib))
    raised = None
    out = None
    with hl.instrument(rec):
        inner_pool = pool_factory()
        pool = hl.FaultPool(inner_pool, rec)
        try:
            j = pr.joker(rng=np.random.default_rng(seed), pool=pool, tempfile_path=sc.jokerdir)
            try:
                out = hl.do_call(j, pr, spec, lib=lib, path=path)
            except BaseException as e:      # noqa: the injected BaseException subclass must be caught here
                if isinstance(e, (KeyboardInterrupt, SystemExit, MemoryError)):
                    raise
                raised = e
        finally:
            pass
    after = sc.listing()
    inp = dict(inp0, fault=fault)
    tags = dict(entry=spec["entry"], form=form, target=fault[0] if fault else "none")
    tname = fault[0] if fault else "dry"
    # ---- (a) propagation
    rel_a = "exception reaches the caller (Cache.exception_propagates)"
    if fault is not None:
        in_worker = inner_pool.__class__.__name__ == "MultiPool" and fault[0] in ("read_batch", "batch_marginal_ln_likelihood",
                                                                                  "batch_get_posterior_samples")
        fired = rec.fired or in_worker
        ctx.evaluated(rel_a, (spec["entry"], form, tname, min(fault[1], 3), fault[2]) if raised is not None else None,
                      sample=dict(inp, trace_len=len(rec.trace)) if fault[1] > 1 else None)
        ctx.count(f"fault:{tname}")
        ctx.count(f"exc:{fault[2]}")
        if fault[1] > 1:
            ctx.count("fault:occurrence>1")
        want = hl.EXC_CLASSES[fault[2]]
        if raised is None and fault[0] == "os.path.exists":
            ctx.count("stat failure swallowed by os.path.exists (by design of that function): only the no-leak clause applies")
        elif raised is None:
            if rec.fired or in_worker:
                ctx.violation(rel_a, g, inp, dict(returned=hl.out_brief(out) if out else None), dict(propagated=True),
                              f"a failure injected at {fault[0]} #{fault[1]} must reach the caller; the call returned "
                              "normally", tags=tags)
            else:
                ctx.count("fault-not-reached")
        elif type(raised) is not want or "injected fault" not in str(raised):
            ctx.violation(rel_a, g, inp, dict(raised=f"{type(raised).__name__}: {raised}"[:300]), dict(expected=want.__name__),
                          f"the injected {want.__name__} must reach the caller unchanged, got {type(raised).__name__}",
                          tags=tags)
    else:
        ctx.evaluated("dry run: value returned, no exception", None)
        if raised is not None:
            raise raised
    # ---- (b) no leaked files, decoy intact
    rel_b = "no temporary file left behind (Cache.no_leak)"
    made_temp = any(s["s"] == "mkTemp" for s in rec.trace)
    ctx.evaluated(rel_b, (spec["entry"], form, tname, "temp" if made_temp else "notemp") if (fault and made_temp) else None)
    if made_temp:
        ctx.count("runs-with-temp-file")
        if fault is not None and raised is not None:
            ctx.count("faults-while-temp-file-exists")
    if after != before:
        leaked = sorted(set(after) - set(before))
        lost = sorted(set(before) - set(after))
        ctx.violation(rel_b, g, inp, dict(leaked=[os.path.basename(x) for x in leaked], removed=[os.path.basename(x) for x in lost]),
                      dict(tmp="unchanged"), "after the call (failing or not) the private TMPDIR / tempfile_path must "
                      f"contain exactly what they contained before: leaked {len(leaked)}, removed {len(lost)}", tags=tags)
    # ---- (c) user data untouched
    rel_c = "user file / object untouched (Cache.user_file_untouched)"
    ctx.evaluated(rel_c, (spec["entry"], form, tname) if (fault and path) else None)
    if path:
        ctx.count("runs-with-user-file")
        h2 = hl.sha256_file(path) if os.path.exists(path) else "missing"
        if h2 != user_hash:
            ctx.violation(rel_c, g, inp, dict(sha256=h2), dict(sha256=user_hash), "the user's prior-sample file must be "
                          "byte-for-byte unchanged after the call", tags=tags)
    if hl.digest(hl.table_arrays(lib)) != lib_before:
        ctx.violation(rel_c, g, inp, "JokerSamples object changed", None, "the user's JokerSamples object must be "
                      "unchanged after the call", tags=tags)
    if not os.path.exists(decoy):
        ctx.violation(rel_b, g, inp, "decoy removed", None, "an unrelated *.hdf5 file that was in the temp directory "
                      "before the call must still be there", tags=tags)
    # ---- (e) trace inclusion in the Lean machine
    rel_e = "observed step trace is a run of the Cache machine"
    kind = "object" if (form == "object") else "file"
    m = ctx.model({"op": "cache.run", "kind": kind, "trace": rec.trace, "raised": raised is not None, "tmp0": [99]})
    ctx.evaluated(rel_e, (spec["entry"], form, tname, len(rec.trace) > 3))
    obs_tmp_ok = after == before
    if not m.get("isRun"):
        # decide the property's predicate on this very trace: did it leave a file / write a user file?
        if after != before or (path and hl.sha256_file(path) != user_hash):
            pass      # already reported as a violation above
        else:
            ctx.mismatch(rel_e, g, inp, dict(trace=rec.trace, raised=raised is not None), m,
                         "the observed step sequence must be mkTemp f, writeTemp f, <steps that neither create/delete temp "
                         "files nor open user files writable>, unlink f (object input) resp. only such inner steps (file input)")
    else:
        if (m["final"]["tmp"] == [99]) != obs_tmp_ok or m["propagated"] != (raised is not None):
            ctx.mismatch(rel_e, g, inp, dict(tmp_unchanged=obs_tmp_ok, raised=raised is not None), m,
                         "model final state / propagation flag must agree with the observation")
    # ---- (d) the same TheJoker works on the next call
    rel_d = "follow-up call on the same TheJoker equals a fresh one (Cache.next_call_clean)"
    if fault is not None and raised is not None and ref is not None:
        try:
            j.rng = np.random.default_rng(seed2)
            # the same TheJoker on the SAME pool object (a failed call must not leave the user's pool unusable);
            # the injector in the forked workers is disarmed through the flag file
            if rec.armed_file and os.path.exists(rec.armed_file):
                os.unlink(rec.armed_file)
            ctx.count("follow-up-on-same-pool:" + ("multi" if hasattr(inner_pool, "terminate") else "serial"))
            ref_here, replaced = ref, False
            if path and fault[1] > 1 and (spec["entry"] != "iterative" or (fault[1] + len(fault[0]) + g["index"]) % 2 == 0):
                # between the failed call and the next one the USER replaces the library under the same name (the same rows, the
                # period column in another valid unit): whatever the failed call had read must not survive.  Reference: a fresh
                # TheJoker on a copy of the new file under a name nobody has read from.
                import astropy.units as u
                import thejoker as tj
                lib2 = tj.JokerSamples(poly_trend=pr.p, n_offsets=pr.q)
                for nm in lib.par_names:
                    lib2[nm] = lib[nm].to(u.yr if lib[nm].unit == u.day else u.day) if nm == "P" else lib[nm]
                lib2.write(path, overwrite=True)
                replaced = True
                ctx.count("follow-up after the user replaced the library file under the same name")
                ctx.count("follow-up after the user replaced the library file under the same name:" + spec["entry"])
            ll_follow = None
            if replaced:
                # first the plain likelihood of the replaced library (the quantity every sampler is built on) ...
                ll_follow = np.asarray(j.marginal_ln_likelihood(pr.data, path))
            out2 = hl.do_call(j, pr, spec, lib=lib, path=path)
            if replaced:
                # the reference is computed AFTER the follow-up call: no other call may run between the failed call and it
                fresh = os.path.join(os.path.dirname(path), "fresh_name_%d.hdf5" % ctx.counters["follow-up-calls"])
                lib2.write(fresh, overwrite=True)
                jr = pr.joker(rng=np.random.default_rng(seed2), pool=hl.serial_pool(), tempfile_path=sc.jokerdir)
                ll_fresh = np.asarray(jr.marginal_ln_likelihood(pr.data, fresh))
                jr.rng = np.random.default_rng(seed2)
                ref_here = hl.do_call(jr, pr, spec, lib=lib2, path=fresh)
                os.unlink(fresh)
                lib.write(path, overwrite=True)        # the original library again, for the runs that follow
            d = hl.out_diff(out2, ref_here)
            if replaced and d is None:
                d = hl.arrays_diff({"array": ("", ll_follow)}, {"array": ("", ll_fresh)})
                if d is not None:
                    d = "marginal_ln_likelihood of the replaced library: " + d
            err = None
        except Exception as e:      # noqa
            d, err, out2 = f"follow-up call raised {type(e).__name__}: {e}"[:300], e, None
        ctx.evaluated(rel_d, (spec["entry"], form, tname))
        ctx.count("follow-up-calls")
        if d is not None:
            ctx.violation(rel_d, g, dict(inp, library_file_replaced_by_the_user_before_the_follow_up=replaced), hl.out_brief(out2) if out2 else d, hl.out_brief(ref_here),
                          "after a failed call the same TheJoker must return exactly what a fresh TheJoker returns for the "
                          "same seeded call: " + d, tags=tags)
        if sc.listing() != before:
            ctx.violation(rel_b, g, inp, "files left after follow-up call", None, "follow-up call leaked a file", tags=tags)
    try:
        if hasattr(inner_pool, "terminate"):
            inner_pool.terminate()
            inner_pool.join()
    except Exception:
        pass
    return rec


def config_case(ctx, g, kind):
    import histlib as hl
    rng = ctx.case_rng(kind, g["index"])
    pr, lib, N, spec, form = make_config(rng, kind, g["index"])
    seed, seed2 = hl.seed_of(rng), hl.seed_of(rng)
    k = int(rng.integers(2, 4))
    pool_factory = hl.serial_pool if kind == "serial" else (lambda: hl.multi_pool(k))
    inp0 = dict(spec=spec, N=N, form=form, pool=kind, seed=seed,
                problem=dict(p=pr.p, q=pr.q, K=pr.desc["K"]["kind"], n=len(pr.merged()[0])))
    ctx.count(f"config:{spec['entry']}:{form}:{kind}")
    with hl.Scratch("c13") as sc:
        path = sc.write_library(lib) if form == "file" else None
        decoy = os.path.join(sc.tmpdir, "tmp_decoy_other_process.hdf5")
        with open(decoy, "wb") as f:
            f.write(b"not ours")
        # reference for (d): a fresh TheJoker, seeded with seed2
        jref = pr.joker(rng=np.random.default_rng(seed2), pool=hl.serial_pool(), tempfile_path=sc.jokerdir)
        ref = hl.do_call(jref, pr, spec, lib=lib, path=path)
        args = (ctx, g, sc, pr, lib, path, spec, form, pool_factory)
        dry = one_run(*args, None, ref, seed, seed2, decoy, inp0)
        K = dict(dry.counts)
        ctx.extra.setdefault("occurrences_measured", {})[f"{spec['entry']}:{form}:{kind}"] = K
        exc_cycle = ["Exception", "OSError", "BaseException"] if kind == "serial" else ["Exception", "OSError"]
        n = 0
        targets = [t for t in hl.instrument.TARGETS if K.get(t, 0) > 0]
        if kind == "multi":
            # worker-side targets fire in the worker processes (their own occurrence counters, not visible in the
            # parent's dry-run counts); keep the number of (slow) multi-process runs small in the quick tier
            pick = ["read_batch", "batch_marginal_ln_likelihood", "pool.map", "tb.open_file"]
            if spec["entry"] != "marginal":
                pick.insert(2, "batch_get_posterior_samples")
            if ctx.thorough:
                pick += ["JokerSamples.write", "h5py.File", "JokerSamples.unpack", "NamedTemporaryFile"]
            worker_side = ("read_batch", "batch_marginal_ln_likelihood", "batch_get_posterior_samples")
            targets = [t for t in pick if t in worker_side or K.get(t, 0) > 0]
        for t in targets:
            occ = occurrences(rng, K[t], ctx.thorough) if kind == "serial" else [1]
            for o in occ:
                fault = (t, o, exc_cycle[n % len(exc_cycle)])
                n += 1
                one_run(*args, fault, ref, seed, seed2, decoy, inp0)


def diskfull_case(ctx, g):
    """a REAL operating-system fault: the directory the cache file is written to is a 48 kB tmpfs, so writing the library
    runs out of space (ENOSPC) inside HDF5.  The failure must reach the caller and no cache file may stay behind; a normal
    return is acceptable only with the correct values.  Needs the right to mount a tmpfs (skipped and counted otherwise).
    The call runs in a child process (harness/diskfull_child.py): HDF5 may crash the interpreter after ENOSPC."""
    import json
    import subprocess
    import sys
    import tempfile
    import core
    rel = "a failing cache write (disk full) reaches the caller; no temporary HDF5 file is left behind"
    mnt = tempfile.mkdtemp(prefix="verif_c13_full_")
    r = subprocess.run(["mount", "-t", "tmpfs", "-o", "size=48k", "tmpfs", mnt], capture_output=True, text=True)
    if r.returncode != 0:
        ctx.count("diskfull: tmpfs cannot be mounted here (relation not exercised)")
        os.rmdir(mnt)
        return
    try:
        child = os.path.join(os.path.dirname(os.path.dirname(os.path.abspath(__file__))), "diskfull_child.py")
        pr_ = subprocess.run([sys.executable, child, mnt, str(g["index"]), str(ctx.seed)], capture_output=True, text=True, timeout=900,
                             env=dict(os.environ, VERIF_REPO=core.REPO))
        line = [l for l in pr_.stdout.splitlines() if l.startswith("RESULT ")]
        if not line:
            ctx.count("diskfull: child process died before reporting (interpreter crash inside HDF5)")
            ctx.evaluated(rel, None)
            ctx.violation(rel, g, dict(case=g["index"], cache_dir="48 kB tmpfs"), dict(child_exit=pr_.returncode, stderr=pr_.stderr[-300:]), None,
                          "a failing cache write must surface as an exception in the caller (the process crashed instead)",
                          tags=dict(relation="diskfull", what="crash"))
            return
        res = json.loads(line[0][7:])
        inp = dict(entry=res["entry"], library_rows=res["N"], ln_prior_column=res["ln_prior"], cache_dir="48 kB tmpfs",
                   problem=dict(p=res["p"], q=res["q"]))
        ctx.evaluated(rel, ("diskfull", g["index"]))
        ctx.count(f"diskfull:{res['entry']}")
        if res["left"]:
            ctx.violation(rel, g, inp, dict(files_left=res["left"], raised=res["raised"]), None,
                          "no temporary HDF5 file may be left behind after a failing cache write", tags=dict(relation="diskfull", what="leak"))
        elif res["raised"] is None:
            if not res["values_ok"]:
                ctx.violation(rel, g, inp, dict(returned_normally=True, non_finite_values=res["non_finite"]),
                              dict(expected="an exception (the cache file does not fit into the directory), or the values of the in-memory evaluation"),
                              "the I/O failure of the cache write must reach the caller: the call returned normally with values read "
                              "back from a truncated cache file", tags=dict(relation="diskfull", what="swallowed"))
        else:
            name, msg, io_like = res["raised"]
            ctx.count(f"diskfull: raised {name}")
            if not io_like or "good samples" in msg or "reshape" in msg:
                ctx.violation(rel, g, inp, dict(raised=f"{name}: {msg[:160]}"), None,
                              "the I/O failure of the cache write must reach the caller: the write went unnoticed and the call "
                              "failed later on the truncated cache with an unrelated error", tags=dict(relation="diskfull", what="late"))
    finally:
        subprocess.run(["umount", mnt], capture_output=True)
        try:
            os.rmdir(mnt)
        except OSError:
            pass


def intprior_case(ctx, g):
    """prior samples requested by COUNT with return_logprobs=True: the log-prior of the freshly drawn library is evaluated inside
    the call (`JokerPrior.sample` -> one compiled evaluation per parameter).  A failure of the k-th of these evaluations is a
    failing step like any other: it must reach the caller - not be logged and turned into an ln_prior with that term missing."""
    import pytensor.graph.replace as pgr
    import histlib as hl
    rng = ctx.case_rng("intprior", g["index"])
    pr = hl.small_problem(rng, n=int(rng.integers(3, 7)))
    seed = hl.seed_of(rng)
    N = int(rng.integers(30, 80))
    rel = "a failing log-prior evaluation inside rejection_sample(prior_samples=<int>, return_logprobs=True) reaches the caller"
    orig = pgr.vectorize_graph
    state = dict(n=0, fail_at=None, fired=False)

    class _Proxy:
        """the graph `vectorize_graph` returns, failing at `.eval()` when armed (a compile / memory error at evaluation time)"""
        def __init__(self, inner, armed):
            self._inner, self._armed = inner, armed

        def eval(self, *a, **k):
            if self._armed:
                state["fired"] = True
                raise hl.InjectedOSError("injected fault at the evaluation of a log-prior term")
            return self._inner.eval(*a, **k)

    def vg(*a, **k):
        state["n"] += 1
        return _Proxy(orig(*a, **k), state["fail_at"] == state["n"])

    def call():
        j = pr.joker(rng=np.random.default_rng(seed), pool=hl.serial_pool())
        out = j.rejection_sample(pr.data, N, return_logprobs=True, in_memory=bool(g["index"] % 2))
        return hl.table_arrays(out)
    pgr.vectorize_graph = vg
    try:
        state.update(n=0, fail_at=None)
        ref = call()
        total = state["n"]
        ctx.count("intprior:log-prior evaluations per call", total)
        for k in sorted({1, max(1, total // 2), total}):
            state.update(n=0, fail_at=k, fired=False)
            raised, out = None, None
            try:
                out = call()
            except BaseException as e:      # noqa
                if isinstance(e, (KeyboardInterrupt, SystemExit, MemoryError)):
                    raise
                raised = e
            ctx.evaluated(rel, (g["index"], k))
            ctx.count("fault:log-prior evaluation")
            inp = dict(n_prior_samples=N, seed=seed, failing_evaluation=k, of=total, in_memory=bool(g["index"] % 2),
                       problem=dict(p=pr.p, q=pr.q, K=pr.desc["K"]["kind"]))
            if not state["fired"]:
                ctx.count("fault-not-reached")
            elif raised is None:
                d = hl.arrays_diff(out, ref)
                ctx.violation(rel, g, inp, dict(returned=hl.brief(out), differs_from_the_fault_free_call=d), dict(expected="the injected OSError"),
                              f"evaluation #{k} of {total} log-prior terms failed inside the call; the call returned normally"
                              + (" with an ln_prior that lacks that term" if d else ""), tags=dict(entry="rejection", form="int", target="log-prior evaluation"))
                return
            elif not isinstance(raised, hl.InjectedOSError):
                ctx.violation(rel, g, inp, dict(raised=f"{type(raised).__name__}: {raised}"[:200]), dict(expected="the injected OSError"),
                              "the injected failure must reach the caller unchanged", tags=dict(entry="rejection", form="int", target="log-prior evaluation"))
                return
    finally:
        pgr.vectorize_graph = orig


def run_case(ctx, g):
    import time
    t0 = time.time()
    ctx.seed = g.get("seed", ctx.seed)
    try:
        if g["kind"] == "diskfull":
            diskfull_case(ctx, g)
        elif g["kind"] == "intprior":
            intprior_case(ctx, g)
        else:
            config_case(ctx, g, g["kind"])
    finally:
        w = ctx.extra.setdefault("wall_by_kind", {})
        w[g["kind"]] = round(w.get(g["kind"], 0) + time.time() - t0, 2)


def post(ctx):
    ctx.rule = RULE
    c = ctx.counters
    ctx.extra["exhaustive"] = False
    ctx.assumptions = [
        "faults are Python exceptions raised at the entry of an internal callable; crashes that are not exceptions "
        "(SIGKILL, power loss) are outside the property (DESIGN 3/C13 residue)",
        "in multi-process configurations the step trace is the parent's (worker-side steps are not observed); faults "
        "injected in workers are observed through the exception that reaches the caller",
        "file-system observation: directory listing of a private TMPDIR and tempfile_path, SHA-256 of the user file",
    ]
    import histlib as hl
    for t in hl.instrument.TARGETS:
        if t == "os.path.exists":
            continue        # the repaired clean-up no longer asks whether the file exists: nothing to inject into
        need = 1 if t in ("JokerSamples.pack",) else 2
        ctx.require(f"faults injected at {t}", c[f"fault:{t}"], need)
    ctx.require("faults at a later occurrence (k>1)", c["fault:occurrence>1"], 10)
    ctx.require("faults raised while a temp file existed", c["faults-while-temp-file-exists"], 15)
    ctx.require("runs on a user file", c["runs-with-user-file"], 10)
    ctx.require("faults injected into the log-prior evaluation of a library requested by count", c["fault:log-prior evaluation"], 3)
    ctx.require("follow-up calls", c["follow-up-calls"], 30)
    ctx.require("follow-up calls after the user replaced the library file under the same name",
                c["follow-up after the user replaced the library file under the same name"], 3)
    ctx.require("... of which rejection_sample / marginal_ln_likelihood", c["follow-up after the user replaced the library file under the same name:rejection"]
                + c["follow-up after the user replaced the library file under the same name:marginal"], 2)
    ctx.require("follow-up calls on the same multi-process pool", c["follow-up-on-same-pool:multi"], 3)
    ctx.require("BaseException faults", c["exc:BaseException"], 5)
    ctx.require("multi-process configurations", sum(v for k, v in c.items() if k.startswith("config:") and k.endswith(":multi")), 2)
    for e in ("rejection", "marginal", "iterative"):
        ctx.require(f"configurations of {e}", sum(v for k, v in c.items() if k.startswith(f"config:{e}:")), 2)
