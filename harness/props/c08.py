"""C08 - multi-survey data keep every observation tied to its own survey offset.

Tie (DESIGN 3/C08): real `thejoker.data_helpers.validate_prepare_data` (list / dict of RVData) against the Lean
model `Data.merge` (+ `Merged.design`), and end to end `TheJoker.marginal_ln_likelihood([d1, d2, ...])` against the
real code run on the same observations with an unambiguous labelling.

* velocities are recognisable (`rv = (1000·(survey+1) + index)·f`), so the source and input position of every
  merged row is read off the output: the labelled multiset is compared exactly;
* the property does not fix the order of the merged rows (time-sorted, concatenation order, ties in any order):
  the permutation of the concatenation the real code produced is read off its output and given to the model, which
  accepts any permutation of all rows (`Data.isPermOfRange`) and gathers rows *and labels* by it;
* on any difference the property's own predicate is decided without the model: (1) the multiset of
  `(t, rv, err, ids[row])` equals the union of the inputs tagged with their key, (2) the reference epoch is the
  earliest epoch, (3) the constant
  block of the design matrix has a one in column 0 and, in column 1+j, a one exactly on the rows whose *true*
  source (from the recognisable velocity) owns that column, (4) trend columns = (t - t_min)^l;
* end to end: `TheJoker.marginal_ln_likelihood(data)` vs the *same real kernel* (`CJokerHelper` +
  `marginal_ln_likelihood_inmem`) fed with the harness' own merge: rows held in the order of the implementation's merge, labels taken from the
  observations themselves, indicator columns built from those labels (nothing of `validate_prepare_data` /
  `_make_joker_helper` is used for the reference).  The reference key -> column rule is the code's (smallest key
  is the reference, columns in key order; list input: source k -> dv0_k).

Tolerances:
* same velocity unit in all sources: t, rv, err, ids, constant block compared exactly (bit patterns);
* mixed units: rv / err within 4·2^-52 relative of the exactly converted value (one multiplication by an
  inexact scale factor in `Quantity.to_value`);
* trend columns: 16·2^-52 relative against the exact rational `(t - t_min)^l` (one subtraction and l-1 products);
* likelihood: |ll - ll_ref| <= 1e-5·(1 + |ll_ref|).  Both numbers come from the same kernel on the same labelled
  rows; the reference puts tied rows in the order the implementation's merge holds them, so a correct
  implementation gives identical kernel inputs (difference 0).  The tolerance covers implementations that order tied
  rows differently: over 200 generated problems with tied epochs the kernel's value changed by at most
  1.9e-7·(1+|ll|) (99 %: 5.5e-8) when only the order of tied rows was changed (n < k and small errors against wide
  priors make the Woodbury step ill-conditioned); the tolerance is 50x that.  A case counts as *sensitive* when the
  likelihood of the same rows with the labels left in concatenation order differs from the reference by more than
  100x the tolerance (1e-3·(1+|ll|)); a run needs >= 100 sensitive cases.
"""
import math
from fractions import Fraction

import numpy as np

NEEDS_KERNEL = True

RULE = ("merged rows accepted in any order (time-sorted or concatenation order); 2..4 (thorough ..6) sources of 1..8 epochs (a quarter of the cases: >16 merged rows), layouts interleaved / "
        "disjoint in list order / disjoint in reverse order / identical epochs / partial overlap / all epochs tied, "
        "each source given sorted or shuffled; list, dict with integer keys (random, non-contiguous, negative) or "
        "string keys (random order, code-point traps) ; same or mixed velocity units; poly_trend 1..3.  Non-trivial = "
        "the time-sort moves at least one row across a source boundary (so labels in concatenation order would be "
        "wrong); distinct = distinct (kind, index)")

FAC = {"km/s": 1.0, "m/s": 1000.0, "cm/s": 100000.0}
STR_KEYS = ["apogee", "lamost", "weave", "s10", "s9", "S2", "a", "B", "z1", "harps", "Keck", "10", "9"]


def bits(x):
    import core
    return core.bits(x)


def bl(a):
    return [bits(v) for v in np.asarray(a, dtype="f8").ravel()]


_SEEN = set()
_PRIORS = {}


def report(ctx, relation, g, inp, impl, model, predicate, tags):
    ctx.count("violating-cases")
    key = (relation, tags.get("what"))
    ctx.count("violating:" + "/".join(str(k) for k in key))
    if key in _SEEN and not ctx.replay_mode:
        return
    _SEEN.add(key)
    ctx.violation(relation, g, inp, impl, model, predicate, tags=tags)


def setup(ctx):
    _SEEN.clear()
    import logging
    try:
        from thejoker.logging import logger
        logger.setLevel(logging.ERROR)
    except Exception:
        pass


E2E_SHAPES = [(1, 1), (2, 1), (3, 1), (1, 2), (2, 2), (3, 2), (1, 3), (2, 3)]   # (poly_trend, n_offsets) by index % 8
E2E_QUICK = (0, 1, 4, 6)


def plan(ctx):
    """a case is a function of (kind, index, seed) only: the larger generators of the thorough tier have their own
    kinds (`mergeL`), so a replay does not depend on VERIF_TIER"""
    if ctx.thorough:
        return ([("merge", i) for i in range(4000)] + [("mergeL", i) for i in range(4000)]
                + [("single", i) for i in range(400)] + [("refuse", i) for i in range(160)]
                + [("e2e", i) for i in range(4800)] + [("plot", i) for i in range(600)])
    return ([("merge", i) for i in range(320)] + [("single", i) for i in range(30)] + [("refuse", i) for i in range(16)]
            + [("e2e", i) for i in range(480) if i % 8 in E2E_QUICK] + [("plot", i) for i in range(60)])


# ------------------------------------------------------------------------------------------------
# generators


def gen_layout(rng, nsurv, sizes, layout):
    """list of time arrays (declared order within each source: as drawn)"""
    base = float(rng.choice([50000.0, 55123.25, 58000.5, 59999.75]))
    span = float(10 ** rng.uniform(0.0, 3.3))
    n_tot = int(sum(sizes))

    def dy(x):
        return np.round(np.asarray(x) * 64) / 64

    if layout == "alltied":
        return [np.full(k, base + 2.5) for k in sizes]
    if layout == "identical":
        common = base + dy(np.sort(rng.uniform(0, span, max(sizes))))
        return [common[:k].copy() for k in sizes]
    if layout in ("disjoint", "disjoint_rev"):
        allt = base + np.sort(rng.uniform(0, span, n_tot))
        if rng.random() < 0.5:
            allt = base + dy(allt - base)
        parts, lo, hi = [], 0, n_tot
        for k in sizes:
            if layout == "disjoint":      # blocks in source order
                parts.append(allt[lo:lo + k].copy())
                lo += k
            else:                         # first source latest
                parts.append(allt[hi - k:hi].copy())
                hi -= k
        return parts
    if layout == "overlap":
        out = []
        prev = None
        for k in sizes:
            t = base + dy(rng.uniform(0, span, k))
            if prev is not None and len(prev):
                m = int(rng.integers(1, min(k, len(prev)) + 1))
                t[:m] = rng.choice(prev, m, replace=False)
            out.append(t)
            prev = t
        return out
    # interleaved
    out = []
    for k in sizes:
        t = base + rng.uniform(0, span, k)
        if rng.random() < 0.5:
            t = base + dy(t - base)
        out.append(t)
    return out


def gen_keys(rng, nsurv, form):
    if form == "list":
        return list(range(nsurv))
    if form == "dict_int":
        pool = rng.permutation(np.arange(-5, 31))[:nsurv]
        return [int(k) for k in pool]
    return [str(k) for k in rng.permutation(STR_KEYS)[:nsurv]]


def gen_sources(rng, thorough, recognisable=True, mixed_units=None, nmax=None):
    c = {}
    nsurv = int(rng.choice([2, 2, 3, 3, 4] + ([5, 6] if thorough else [])))
    c["nsurv"] = nsurv
    big = rng.random() < 0.25
    hi = 9 if not big else (21 if not thorough else 41)
    if nmax:
        hi = min(hi, nmax)
    sizes = [int(rng.integers(1, hi)) for _ in range(nsurv)]
    if big and sum(sizes) <= 16:
        sizes[int(rng.integers(0, nsurv))] += 17
    c["sizes"] = sizes
    c["layout"] = str(rng.choice(["interleaved", "interleaved", "disjoint", "disjoint_rev", "identical", "overlap", "alltied"]))
    ts = gen_layout(rng, nsurv, sizes, c["layout"])
    c["form"] = str(rng.choice(["list", "dict_int", "dict_str"]))
    c["keys"] = gen_keys(rng, nsurv, c["form"])
    if mixed_units is None:
        mixed_units = rng.random() < 0.3
    u0 = str(rng.choice(list(FAC)))
    c["units"] = [u0 if not mixed_units else str(rng.choice(list(FAC))) for _ in range(nsurv)]
    c["p"] = int(rng.choice([1, 2, 2, 3]))
    c["tform"] = str(rng.choice(["float", "float", "time_tcb", "time_utc"]))
    srcs = []
    j = 0
    for s in range(nsurv):
        k = sizes[s]
        order = rng.permutation(k) if rng.random() < 0.5 else np.arange(k)
        t = np.asarray(ts[s], dtype="f8")[order]
        R = 1000 * (s + 1) + np.arange(k)
        E = 0.25 + (j + np.arange(k) + 1) / 64.0
        j += k
        srcs.append(dict(t=t, R=R, E=E, unit=c["units"][s]))
    c["srcs"] = srcs
    return c


def src_bmjd(c, s):
    from astropy.time import Time
    t = c["srcs"][s]["t"]
    if c["tform"] == "float":
        return np.asarray(t, dtype="f8")
    scale = "tcb" if c["tform"].endswith("tcb") else "utc"
    return np.asarray(Time(t, format="mjd", scale=scale).tcb.mjd, dtype="f8")


def build_data(c):
    """the user's data argument, from the declared numbers"""
    import astropy.units as u
    from astropy.time import Time
    from thejoker import RVData
    ds = []
    for s, sv in enumerate(c["srcs"]):
        f = FAC[sv["unit"]]
        if c["tform"] == "float":
            t = np.array(sv["t"], dtype="f8")
        else:
            t = Time(sv["t"], format="mjd", scale="tcb" if c["tform"].endswith("tcb") else "utc")
        ds.append(RVData(t, (sv["R"] * f) * u.Unit(sv["unit"]), (sv["E"] * f) * u.Unit(sv["unit"])))
    if c["form"] == "list":
        return ds if len(ds) % 2 else tuple(ds)
    return {k: d for k, d in zip(c["keys"], ds)}


def case_input(c):
    return dict(form=c["form"], keys=c["keys"], layout=c["layout"], poly_trend=c["p"], t_form=c["tform"],
                sources=[dict(t=list(sv["t"]), rv=[float(x) * FAC[sv["unit"]] for x in sv["R"]],
                              err=[float(x) * FAC[sv["unit"]] for x in sv["E"]], unit=sv["unit"]) for sv in c["srcs"]])


def key_sort(keys):
    return sorted(keys)


# ------------------------------------------------------------------------------------------------


def run_merge(ctx, g, rng):
    from thejoker.data_helpers import validate_prepare_data
    rel = "validate_prepare_data=Data.merge"
    c = gen_sources(rng, g["kind"] == "mergeL")
    inp = case_input(c)
    nsurv, p = c["nsurv"], c["p"]
    data = build_data(c)
    mixed = len(set(c["units"])) > 1
    tags = dict(form=c["form"], layout=c["layout"], mixed_units=mixed)
    ctx.count(f"form:{c['form']}")
    ctx.count(f"layout:{c['layout']}")
    if mixed:
        ctx.count("units:mixed")
    if sum(c["sizes"]) > 16:
        ctx.count("rows>16")
    all_data, ids, M = validate_prepare_data(data, p, nsurv - 1)
    # the unit of the merged data is not fixed by the property (the code uses the first source's): take it as found
    import astropy.units as u
    unit_name = next((k for k in FAC if u.Unit(k) == all_data.rv.unit and u.Unit(k) == all_data.rv_err.unit), None)
    if unit_name is None:
        report(ctx, rel, g, inp, dict(unit=str(all_data.rv.unit), err_unit=str(all_data.rv_err.unit)), None,
               "merged velocities and errors must come in one velocity unit", tags=dict(tags, what="units"))
        return
    if unit_name != c["units"][0]:
        ctx.count("merged-unit-not-first-source")
    f0 = FAC[unit_name]
    t_out = np.array(all_data._t_bmjd, dtype="f8")
    rv_out = np.array(all_data.rv.value, dtype="f8")
    err_out = np.array(all_data.rv_err.value, dtype="f8")
    ids_out = [x.item() if hasattr(x, "item") else x for x in np.asarray(ids).tolist()] if not isinstance(ids, list) else ids
    ids_out = [str(x) if c["form"] == "dict_str" else x for x in ids_out]
    M = np.array(M, dtype="f8")
    impl_out = dict(t=list(t_out), rv=list(rv_out), err=list(err_out), ids=ids_out, M=M.tolist(),
                    unit=str(all_data.rv.unit), t_ref=float(all_data._t_ref_bmjd))
    # ---- expected labelled rows (harness' own arithmetic on the declared numbers)
    tb = [src_bmjd(c, s) for s in range(nsurv)]
    offs = np.concatenate([[0], np.cumsum(c["sizes"])])
    exp_rows = {}
    for s in range(nsurv):
        for i in range(c["sizes"][s]):
            exp_rows[(s, i)] = (float(tb[s][i]), float(c["srcs"][s]["R"][i]) * f0, float(c["srcs"][s]["E"][i]) * f0)
    n = int(offs[-1])

    def close(a, b):
        return bits(a) == bits(b) if not mixed else abs(a - b) <= 4 * 2.0 ** -52 * abs(b)

    # ---- the property's predicate on the implementation's output
    why, what = None, None
    src_of_row = []
    if not (len(t_out) == len(rv_out) == len(err_out) == len(ids_out) == M.shape[0]):
        why, what = (f"lengths differ: data {len(t_out)}, ids {len(ids_out)}, design rows {M.shape[0]}"), "union"
    if why is None:
        for r in range(len(rv_out)):
            x = rv_out[r] / f0
            R = int(round(x)) if math.isfinite(x) else -1
            s, i = R // 1000 - 1, R % 1000
            if not (0 <= s < nsurv and i < c["sizes"][s]) or abs(x - R) > 1e-6:
                why, what = f"row {r}: velocity {rv_out[r]!r} is not an input observation", "union"
                break
            src_of_row.append((s, i))
    if why is None and sorted(src_of_row) != sorted(exp_rows):
        why, what = "merged rows are not exactly the union of the input observations (some lost or duplicated)", "union"
    if why is None:
        for r, (s, i) in enumerate(src_of_row):
            et, erv, eerr = exp_rows[(s, i)]
            if bits(t_out[r]) != bits(et) or not close(rv_out[r], erv) or not close(err_out[r], eerr):
                why, what = (f"row {r}: (t, rv, err) = ({t_out[r]!r}, {rv_out[r]!r}, {err_out[r]!r}) is not observation {i} of "
                             f"source {s}: ({et!r}, {erv!r}, {eerr!r})"), "pairing"
                break
            if ids_out[r] != c["keys"][s]:
                why, what = (f"row {r} holds observation {i} of source {c['keys'][s]!r} (t={t_out[r]!r}, rv={rv_out[r]!r}) "
                             f"but is labelled {ids_out[r]!r}"), "labels"
                break
    # the order of the merged rows is not part of the property (time-sorted and concatenation order are both fine)
    if why is None:
        cat_order = [(s, i) for s in range(nsurv) for i in range(c["sizes"][s])]
        if src_of_row == cat_order:
            ctx.count("merged-order:concatenation")
        elif all(a <= b for a, b in zip(t_out[:-1], t_out[1:])):
            ctx.count("merged-order:time-sorted")
        else:
            ctx.count("merged-order:other")
    uq = key_sort(c["keys"])
    if why is None:
        if M.shape != (n, nsurv + p - 1):
            why, what = f"design matrix shape {M.shape}, expected {(n, nsurv + p - 1)}", "design"
        else:
            # the property: column 0 is one; every row of a source carries the same offset pattern; exactly one
            # source (the reference) has no offset column, every other source has exactly one column of its own.
            # Which source is the reference is fixed by the property for list input only (first source, k-th further
            # source -> column k); for dict input the code's rule (smallest key, columns in key order) is part of
            # the model and a deviation from it is a model/implementation difference, not a violation.
            pattern = {}
            for r, (s, i) in enumerate(src_of_row):
                row = [float(x) for x in M[r, :nsurv]]
                off = row[1:]
                if row[0] != 1.0 or any(x not in (0.0, 1.0) for x in off) or sum(off) > 1:
                    why, what = (f"design row {r} (observation {i} of source {c['keys'][s]!r}) has constant block {row}: "
                                 "column 0 must be one and at most one offset column may be set"), "indicators"
                    break
                if pattern.setdefault(s, off) != off:
                    why, what = (f"observations of source {c['keys'][s]!r} do not share one offset column: row {r} has "
                                 f"{off}, an earlier row of the same source {pattern[s]}"), "indicators"
                    break
            if why is None:
                pats = [tuple(pattern[s]) for s in range(nsurv)]
                if len(set(pats)) != nsurv or sum(1 for q_ in pats if not any(q_)) != 1:
                    why, what = (f"offset columns per source {dict(zip(map(str, c['keys']), pats))}: every non-reference "
                                 "source needs a column of its own and exactly one source none"), "indicators"
                elif c["form"] == "list":
                    want = [tuple(1.0 if k == s else 0.0 for k in range(1, nsurv)) for s in range(nsurv)]
                    if pats != want:
                        why, what = (f"list input: first source is the reference and the k-th further source gets "
                                     f"dv0_k; got {pats}"), "indicators"
    tmin = min(v[0] for v in exp_rows.values())
    if why is None:
        if bits(float(all_data._t_ref_bmjd)) != bits(tmin):
            why, what = f"reference epoch {all_data._t_ref_bmjd!r} is not the earliest epoch {tmin!r}", "tref"
        for r in range(n):
            if why is not None:
                break
            dt = Fraction(float(t_out[r])) - Fraction(tmin)
            for l in range(1, p):
                ex = dt ** l
                if abs(Fraction(float(M[r, nsurv + l - 1])) - ex) > abs(ex) * Fraction(16, 2 ** 52):
                    why, what = f"trend column {l} of row {r} is {M[r, nsurv + l - 1]!r}, expected (t-t_min)^{l} = {float(ex)!r}", "trend"
                    break

    # non-trivial: sorting the concatenation by time moves at least one row across a source boundary, so an
    # implementation that re-orders rows and labels differently is exposed
    cat_t = np.concatenate(tb)
    cat_s = np.concatenate([[s] * c["sizes"][s] for s in range(nsurv)])
    crossing = bool(np.any(cat_s[np.argsort(cat_t, kind="stable")] != cat_s))
    if crossing:
        ctx.count("sort-crosses-source-boundary")
    # ---- the model on the observed permutation
    perm = [int(offs[s] + i) for (s, i) in src_of_row] if len(src_of_row) == n else []
    op = {"op": "data.merge", "keyKind": "str" if c["form"] == "dict_str" else "int", "nOffsets": nsurv - 1, "p": p,
          "perm": perm,
          "surveys": [dict(key=c["keys"][s], t=bl(tb[s]), rv=bl(c["srcs"][s]["R"] * f0), err=bl(c["srcs"][s]["E"] * f0))
                      for s in range(nsurv)]}
    m = ctx.model(op)
    ctx.evaluated(rel, (g["kind"], g["index"]) if crossing else None,
                  sample=dict(inp, impl=dict(rv=list(rv_out), ids=ids_out)))
    if why is not None:
        report(ctx, rel, g, inp, impl_out, m, "the merged data are exactly the union of the input observations, each "
               "(t, rv, err) still labelled with the source it came from; one offset column per non-reference source "
               "(reference = smallest key; list input: first source, k-th further source -> dv0_k): " + why,
               tags=dict(tags, what=what))
        return
    from core import unbits
    if "ok" not in m:
        ctx.mismatch(rel, g, inp, impl_out, m, "the model must accept the implementation's (property-conforming) output")
        return
    mo = m["ok"]
    diff = []
    if mo["t"] != bl(t_out):
        diff.append("t")
    if not all(close(a, unbits(b)) for a, b in zip(rv_out, mo["rv"])) or len(mo["rv"]) != n:
        diff.append("rv")
    if not all(close(a, unbits(b)) for a, b in zip(err_out, mo["err"])) or len(mo["err"]) != n:
        diff.append("err")
    if mo["ids"] != ids_out:
        diff.append("ids")
    if mo["uniq"] != uq:
        diff.append("uniq(model vs python sorted)")
    if mo["tref"] != bits(float(all_data._t_ref_bmjd)):
        diff.append("tref")
    md = [[unbits(b) for b in row] for row in mo["design"]]
    if len(md) != n or any(len(row) != M.shape[1] for row in md):
        diff.append("design-shape")
    else:
        for r in range(n):
            for k in range(M.shape[1]):
                a, b = float(M[r, k]), md[r][k]
                if (k < nsurv and a != b) or (k >= nsurv and abs(a - b) > 16 * 2.0 ** -52 * abs(b)):
                    diff.append(f"design[{r}][{k}]")
                    break
            if diff and diff[-1].startswith("design["):
                break
    if diff:
        ctx.mismatch(rel, g, inp, impl_out, m, f"model and implementation differ in {diff}")


def run_single(ctx, g, rng):
    """a single RVData: labels all zero, constant column + trend relative to the data's own reference epoch"""
    import astropy.units as u
    from astropy.time import Time
    from thejoker import RVData
    from thejoker.data_helpers import validate_prepare_data
    from core import unbits
    rel = "validate_prepare_data(single)=Data.singleDesign"
    n = int(rng.integers(1, 12))
    p = int(rng.choice([1, 2, 3]))
    t = 55000.0 + np.round(rng.uniform(0, 300, n) * 64) / 64
    tk = str(rng.choice(["default", "explicit", "disabled"]))
    tv = 54000.0 + float(np.round(rng.uniform(0, 100) * 8) / 8)
    tref = None if tk == "default" else (False if tk == "disabled" else Time(tv, format="mjd", scale="tcb"))
    d = RVData(t, (3000.0 + np.arange(n)) * u.km / u.s, (0.25 + (np.arange(n) + 1) / 64) * u.km / u.s, t_ref=tref)
    ts = np.sort(t)
    t0 = ts[0] if tk == "default" else (0.0 if tk == "disabled" else tv)
    inp = dict(n=n, poly_trend=p, t=list(t), t_ref=tk, t_ref_value=tv)
    data = dict(t=bl(ts), rv=bl(d.rv.value), err=bl(d.rv_err.value), tref=None if tk == "disabled" else bits(t0), uRv="km/s", uErr="km/s")
    ctx.count(f"single:{tk}")
    for noff in (0, 1):
        m = ctx.model({"op": "data.single", "data": data, "p": p, "nOffsets": noff})
        try:
            out, ids, M = validate_prepare_data(d, p, noff)
            impl = dict(ids=np.asarray(ids).tolist(), M=np.asarray(M).tolist(), same_object=out is d)
        except ValueError:
            impl = dict(error="value")
        ctx.evaluated(rel, (n, p, tk, noff))
        if "error" in impl or "error" in m:
            if impl.get("error") != m.get("error"):
                ctx.mismatch(rel, g, dict(inp, n_offsets=noff), impl, m, "a single source with declared offsets is refused, "
                             "without offsets accepted")
            continue
        why = None
        Mi = np.asarray(M, dtype="f8")
        if any(int(x) != 0 for x in np.asarray(ids)) or len(ids) != n or not impl["same_object"]:
            why = "single source: the data itself with all labels zero"
        elif Mi.shape != (n, p) or any(float(x) != 1.0 for x in Mi[:, 0]):
            why = f"constant column must be one, shape {(n, p)}; got shape {Mi.shape}"
        else:
            for r in range(n):
                dt = Fraction(float(ts[r])) - Fraction(float(t0))
                for l in range(1, p):
                    ex = dt ** l
                    if abs(Fraction(float(Mi[r, l])) - ex) > abs(ex) * Fraction(16, 2 ** 52):
                        why = f"trend column {l} row {r}: {Mi[r, l]!r} vs (t - t_ref)^{l} = {float(ex)!r}"
        if why is not None:
            report(ctx, rel, g, dict(inp, n_offsets=noff), impl, m, "design matrix of a single source: " + why,
                   tags=dict(form="single", what="single"))
            continue
        md = [[unbits(b) for b in row] for row in m["ok"]["design"]]
        bad = [(r, k) for r in range(n) for k in range(p)
               if abs(float(Mi[r, k]) - md[r][k]) > 16 * 2.0 ** -52 * abs(md[r][k])]
        if bad:
            ctx.mismatch(rel, g, dict(inp, n_offsets=noff), impl, md, f"design differs from the model at {bad[:3]}")


def run_refuse(ctx, g, rng):
    """inputs validate_prepare_data must refuse: wrong number of offsets, covariance sources, non-RVData entries"""
    import astropy.units as u
    from thejoker import RVData
    from thejoker.data_helpers import validate_prepare_data
    rel = "validate_prepare_data refusals=Data.merge errors"
    c = gen_sources(rng, False, nmax=5)
    nsurv = c["nsurv"]
    which = str(rng.choice(["too-few-offsets", "too-many-offsets", "cov-source", "not-rvdata", "duplicate-free-ok",
                            "keys-not-distinguishable"]))
    if g["index"] % 4 == 3:
        which = "keys-not-distinguishable"
    data = build_data(c)
    if which == "keys-not-distinguishable":
        # dict keys that numpy cannot tell apart once they sit in one array (1 and '1'), or that never equal themselves (nan):
        # accepted only if every source still gets its own label
        ds = list(data.values()) if isinstance(data, dict) else list(data)
        variant = str(rng.choice(["int-and-str", "nan"]))
        keys = ([1, "1"] + [f"k{i}" for i in range(nsurv - 2)]) if variant == "int-and-str" else ([1.0, float("nan")] + [float(i + 2) for i in range(nsurv - 2)])
        data = dict(zip(keys, ds))
        noff_try = [nsurv - 1, nsurv - 2]
        ctx.evaluated(rel, (g["kind"], g["index"]))
        ctx.count("refuse:keys-not-distinguishable")
        f0_ = FAC[c["units"][0]]
        for noff in noff_try:
            if noff < 0:
                continue
            try:
                ad, ids, tm = validate_prepare_data(data, c["p"], noff)
            except (ValueError, TypeError):
                continue
            # accepted: every source must own one label, and a reference source exists
            rv_out = np.asarray(ad.rv.to_value(u.Unit(c["units"][0])), dtype="f8") / f0_
            src_of_row = np.round(rv_out / 1000.0).astype(int) - 1          # recognisable velocities: 1000*(source+1) + index
            const = np.asarray(tm)[:, : 1 + noff]
            patterns = {}
            for s_ in range(nsurv):
                rows = const[src_of_row == s_]
                pats = {tuple(r) for r in rows.tolist()}
                patterns[s_] = pats
            distinct = len({next(iter(p_)) for p_ in patterns.values() if len(p_) == 1}) == nsurv
            if noff != nsurv - 1 or not distinct or any(len(p_) != 1 for p_ in patterns.values()):
                ctx.violation(rel, g, dict(case_input(c), keys=[repr(k) for k in keys], n_offsets=noff), dict(accepted=True,
                              labels=[repr(x) for x in np.unique(np.asarray(ids).astype(str))]), None,
                              "each source must keep its own label (one offset column per non-reference source): with keys that "
                              f"cannot be told apart after numpy coerces them ({variant}) the sources were accepted with "
                              f"{noff} offsets for {nsurv} sources and share / lose labels", tags=dict(what="keys-collapse", variant=variant))
                return
        return
    noff = nsurv - 1
    tb = [src_bmjd(c, s) for s in range(nsurv)]
    f0 = FAC[c["units"][0]]
    svs = [dict(key=c["keys"][s], t=bl(tb[s]), rv=bl(c["srcs"][s]["R"] * f0), err=bl(c["srcs"][s]["E"] * f0)) for s in range(nsurv)]
    expect_type = False
    if which == "too-few-offsets":
        noff = nsurv - 2
    elif which == "too-many-offsets":
        noff = nsurv
    elif which == "cov-source":
        s = int(rng.integers(0, nsurv))
        k = c["sizes"][s]
        dc = RVData(np.array(tb[s]), (c["srcs"][s]["R"] * f0) * u.Unit(c["units"][0]),
                    np.diag(np.ones(k)) * u.Unit(c["units"][0]) ** 2)
        if isinstance(data, dict):
            data[c["keys"][s]] = dc
        else:
            data = list(data)
            data[s] = dc
        svs[s]["hasCov"] = True
    elif which == "not-rvdata":
        s = int(rng.integers(0, nsurv))
        if isinstance(data, dict):
            data[c["keys"][s]] = "not data"
        else:
            data = list(data)
            data[s] = "not data"
        expect_type = True
    # a valid permutation for the model: stable sort of the concatenation
    cat = np.concatenate(tb)
    perm = [int(i) for i in np.argsort(cat, kind="stable")]
    m = ctx.model({"op": "data.merge", "keyKind": "str" if c["form"] == "dict_str" else "int", "nOffsets": noff,
                   "p": c["p"], "perm": perm, "surveys": svs})
    try:
        validate_prepare_data(data, c["p"], noff)
        impl = "accepted"
    except ValueError:
        impl = "value"
    except NotImplementedError:
        impl = "notimpl"
    except TypeError:
        impl = "type"
    ctx.evaluated(rel, (g["kind"], g["index"]))
    ctx.count(f"refuse:{which}")
    want = "type" if expect_type else (m.get("error") or "accepted")
    if impl != want:
        ctx.mismatch(rel, g, dict(case_input(c), which=which, n_offsets=noff), impl, m,
                     "number of sources must be n_offsets+1 (ValueError), covariance sources are refused "
                     "(NotImplementedError), entries must be RVData (TypeError)")


# ------------------------------------------------------------------------------------------------
# end to end


def get_prior(ctx, p, q):
    """one prior per (poly_trend, n_offsets): building a pymc prior costs seconds, the data do not depend on it"""
    import scen
    if (p, q) not in _PRIORS:
        rng = np.random.default_rng([ctx.seed, 808, p, q])
        pr = scen.make_problem(rng, p=p, q=q, K_kind="fcm", s_kind="zero", units="canonical", means=True, cap=False)
        _PRIORS[(p, q)] = pr
        ctx.count("e2e:priors-built")
    return _PRIORS[(p, q)]


def run_e2e(ctx, g, rng):
    import astropy.units as u
    from astropy.time import Time
    import scen
    from thejoker import RVData
    rel = "marginal_ln_likelihood(list|dict)=likelihood of the labelled data"
    p, q = E2E_SHAPES[g["index"] % len(E2E_SHAPES)]
    pr = get_prior(ctx, p, q)
    nsurv = q + 1
    # sources: realistic velocities (survey zero points a few km/s apart), continuous so every observation is unique
    sizes = [int(rng.integers(1, 7)) for _ in range(nsurv)]
    layout = str(rng.choice(["interleaved", "interleaved", "disjoint", "disjoint_rev", "identical", "overlap"]))
    ts = gen_layout(rng, nsurv, sizes, layout)
    form = str(rng.choice(["list", "dict_int", "dict_str"]))
    keys = gen_keys(rng, nsurv, form)
    zero = rng.normal(0, 8, nsurv)
    srcs = []
    for s in range(nsurv):
        k = sizes[s]
        order = rng.permutation(k) if rng.random() < 0.5 else np.arange(k)
        t = np.asarray(ts[s], dtype="f8")[order]
        err = rng.uniform(0.2, 1.5, k)
        rv = 20 * np.sin(t / 7.3) + zero[s] + rng.normal(0, 1, k) * err
        srcs.append(dict(t=t, rv=rv, err=err))
    # a source may quote its uncertainties in another (equivalent) unit than its velocities
    err_in_ms = [bool(rng.random() < 0.3) for _ in srcs]
    if any(err_in_ms):
        ctx.count("e2e:rv_err in another unit than rv")
    ds = [RVData(sv["t"], sv["rv"] * u.km / u.s, ((sv["err"] * u.km / u.s).to(u.m / u.s) if ms else sv["err"] * u.km / u.s))
          for sv, ms in zip(srcs, err_in_ms)]
    data = ds if form == "list" else {k: d for k, d in zip(keys, ds)}
    inp = dict(form=form, keys=keys, layout=layout, poly_trend=p, n_offsets=q,
               sources=[dict(t=list(sv["t"]), rv=list(sv["rv"]), err=list(sv["err"]), unit="km/s") for sv in srcs])
    samples, phys = scen.make_library(rng, pr, 6, units="canonical")
    inp["prior_samples"] = {k: list(map(float, phys[k])) for k in ("P", "e", "omega", "M0", "s")}
    joker = pr.joker(rng=np.random.default_rng(0))
    ctx.count(f"e2e:form:{form}")
    ctx.count(f"e2e:layout:{layout}")
    ll = np.array(joker.marginal_ln_likelihood(data, samples, in_memory=True), dtype="f8")
    ll_paths = {"in-memory": ll}
    if g["index"] % 5 == 0:
        # the same call through the cache file on a real multi-process pool: the merged, labelled data travel to the
        # workers by pickling (helper.__reduce__), where they must still be the correctly labelled data
        import tempfile
        import schwimmbad
        with tempfile.TemporaryDirectory(prefix="verif_c08_") as td:
            with schwimmbad.MultiPool(2) as pool:
                jk2 = pr.joker(rng=np.random.default_rng(0), pool=pool, tempfile_path=td)
                ll_paths["cache file on MultiPool(2)"] = np.array(jk2.marginal_ln_likelihood(data, samples, n_batches=2), dtype="f8")
        ctx.count("e2e:multi-process")

    # ---- the same observations, sorted and labelled by the harness
    where = {}
    for s, sv in enumerate(srcs):
        for i in range(len(sv["t"])):
            where[(bits(sv["t"][i]), bits(sv["rv"][i]), bits(sv["err"][i]))] = s
    cat_t = np.concatenate([sv["t"] for sv in srcs])
    cat_rv = np.concatenate([sv["rv"] for sv in srcs])
    cat_err = np.concatenate([sv["err"] for sv in srcs])
    cat_src = np.concatenate([[s] * len(sv["t"]) for s, sv in enumerate(srcs)])
    uq = sorted(keys)
    n = len(cat_t)

    from thejoker.src.fast_likelihood import CJokerHelper
    from thejoker.likelihood_helpers import marginal_ln_likelihood_inmem

    def reference(order, labels_of_rows):
        """the kernel on the harness' own merge: the rows in the given order, indicator columns from the given labels
        (nothing of validate_prepare_data / _make_joker_helper is used)"""
        ad = RVData(Time(cat_t[order], format="mjd", scale="tcb"), cat_rv[order] * u.km / u.s, cat_err[order] * u.km / u.s)
        # RVData sorts by time; the kernel does not care about the order of the rows, so put them in the requested
        # order (that of the implementation's merge): a correct implementation then gives identical kernel inputs
        ad._t_bmjd = np.array(cat_t[order], dtype="f8")
        ad.rv = cat_rv[order] * u.km / u.s
        ad.rv_err = cat_err[order] * u.km / u.s
        lab = labels_of_rows(ad)
        Mc = np.zeros((n, nsurv))
        Mc[:, 0] = 1.0
        for r in range(n):
            for j in range(1, nsurv):
                if keys[lab[r]] == uq[j]:
                    Mc[r, j] = 1.0
        dt = ad._t_bmjd - ad._t_bmjd.min()
        Mt = np.vander(dt, N=p, increasing=True)[:, 1:]
        helper = CJokerHelper(ad, pr.prior, np.hstack([Mc, Mt]))
        packed, _ = samples.pack(units=helper.internal_units, names=helper.packed_order)
        return np.array(marginal_ln_likelihood_inmem(helper, packed), dtype="f8")

    order = np.argsort(cat_t, kind="stable")
    # hold the rows in the order of the implementation's own merge (whatever it is), so that a correct
    # implementation is compared on identical kernel inputs (the labels of the reference never come from the
    # implementation)
    try:
        from thejoker.data_helpers import validate_prepare_data
        ad_impl = validate_prepare_data(data, p, q)[0]
        pos = {(bits(a), bits(b), bits(c_)): k for k, (a, b, c_) in enumerate(zip(cat_t, cat_rv, cat_err))}
        o2 = [pos.get((bits(a), bits(b), bits(c_)), -1)
              for a, b, c_ in zip(ad_impl._t_bmjd, ad_impl.rv.value, ad_impl.rv_err.value)]
        if sorted(o2) == list(range(n)):
            order = np.array(o2)
            ctx.count("e2e:row-order-matched")
    except Exception:
        ctx.count("e2e:row-order-not-matched")

    def true_labels(ad):   # from the observations themselves
        return [where[(bits(a), bits(b), bits(c_))] for a, b, c_ in zip(ad._t_bmjd, ad.rv.value, ad.rv_err.value)]

    ll_ref = reference(order, true_labels)
    # the seeded mistake: rows in time order, labels left in concatenation order
    ll_cat = reference(np.argsort(cat_t, kind="stable"), lambda ad: [int(s) for s in cat_src])
    tol = 1e-5 * (1 + np.abs(ll_ref))
    sensitive = bool(np.any(np.abs(ll_cat - ll_ref) > 100 * tol))
    if sensitive:
        ctx.count("e2e:sensitive")
    ctx.evaluated(rel, (g["kind"], g["index"]) if sensitive else None,
                  sample=dict(form=form, keys=keys, layout=layout, p=p, q=q, sizes=sizes, ll=list(ll[:2])))
    if not np.all(np.isfinite(ll_ref)):
        ctx.count("e2e:nonfinite-reference")
        return
    for path_name, ll in ll_paths.items():
        bad = np.abs(ll - ll_ref) > tol
        if np.any(bad):
            k = int(np.argmax(np.abs(ll - ll_ref) / tol))
            report(ctx, rel, g, dict(inp, path=path_name), dict(ll=list(ll)),
                   dict(ll_labelled=list(ll_ref), ll_labels_in_concatenation_order=list(ll_cat)),
                   "the marginal likelihood of multi-survey data is that of the correctly labelled observations (same real "
                   f"kernel, rows sorted and labelled by the harness), path {path_name}: sample {k}: {ll[k]!r} vs {ll_ref[k]!r} "
                   f"(tolerance {tol[k]:.2e}); with labels left in concatenation order the kernel gives {ll_cat[k]!r}",
                   tags=dict(form=form, layout=layout, what="likelihood:" + path_name))


# ------------------------------------------------------------------------------------------------
# plotting: offsets removed from the data points must be those of each point's OWN survey


def _errorbar_points(ax, which):
    conts = [c for c in ax.containers if type(c).__name__ == "ErrorbarContainer"]
    c = conts[which]
    x = np.asarray(c.lines[0].get_xdata(), dtype="f8")
    y = np.asarray(c.lines[0].get_ydata(), dtype="f8")
    err = None
    if len(c.lines) > 2 and c.lines[2]:
        segs = c.lines[2][0].get_segments()
        err = np.array([(sg[1][1] - sg[0][1]) / 2.0 for sg in segs], dtype="f8")
    return x, y, err


def run_plot(ctx, g, rng):
    """plot_phase_fold / plot_rv_curves subtract per-survey offsets from the data points they draw: every point must
    lose the offset of the survey it came from (key -> column rule as in the design matrix), and only that"""
    import matplotlib
    matplotlib.use("Agg")
    import matplotlib.pyplot as plt
    import astropy.units as u
    from astropy.time import Time
    from thejoker import JokerSamples
    from thejoker.plot import plot_phase_fold, plot_rv_curves
    rel = "plot offsets=Data.merge labels"
    c = gen_sources(rng, False, mixed_units=False, nmax=6)
    if rng.random() < 0.45:      # integer keys that LOOK like column numbers: 1..n, 0..n-1 shifted, numpy integers
        c["form"] = "dict_int"
        base = int(rng.choice([1, 1, 1, 2, 0]))
        ks = [base + i for i in range(c["nsurv"])]
        ks = [ks[i] for i in rng.permutation(len(ks))]
        c["keys"] = [np.int64(k) for k in ks] if rng.random() < 0.4 else ks
    nsurv, q = c["nsurv"], c["nsurv"] - 1
    p = c["p"]
    du = u.Unit(c["srcs"][0]["unit"])
    f = FAC[c["srcs"][0]["unit"]]
    data = build_data(c)
    # key -> column rule: list = position; dict = sorted keys (smallest key is the reference)
    order = list(range(nsurv)) if c["form"] == "list" else [c["keys"].index(k) for k in key_sort(c["keys"])]
    col_of_src = {src: j for j, src in enumerate(order)}          # 0 = reference, j >= 1 -> dv0_j
    which = str(rng.choice(["phase_fold", "phase_fold", "rv_curves"]))
    nrows = 1 if which == "phase_fold" else int(rng.integers(2, 5))
    tmin = min(float(np.min(src_bmjd(c, s_))) for s_ in range(nsurv))
    smp = JokerSamples(t_ref=Time(tmin, format="mjd", scale="tcb"), poly_trend=p, n_offsets=q)
    smp["P"] = rng.uniform(3, 40, nrows) * u.day
    smp["e"] = rng.uniform(0, 0.6, nrows) * u.one
    smp["omega"] = rng.uniform(0, 6.28, nrows) * u.rad
    smp["M0"] = rng.uniform(0, 6.28, nrows) * u.rad
    smp["s"] = np.zeros(nrows) * du
    smp["K"] = rng.uniform(1, 5, nrows) * f * du
    vv = [rng.uniform(-3, 3, nrows) * f * (0.01 ** l) for l in range(p)]
    for l in range(p):
        smp[f"v{l}"] = vv[l] * du / u.day ** l
    ou = u.Unit(str(rng.choice(list(FAC))))
    offs = {}
    for j in range(1, q + 1):      # recognisable and large against the scatter of the velocities inside one survey
        offs[j] = (37.0 * j * (-1) ** j + rng.uniform(-1, 1, nrows)) * f      # in the data unit
        smp[f"dv0_{j}"] = (offs[j] * du).to(ou)
    t_all, rv_all, err_all, src_all = [], [], [], []
    for s_, sv in enumerate(c["srcs"]):
        tt = src_bmjd(c, s_)
        t_all += list(tt); rv_all += list(sv["R"] * f); err_all += list(sv["E"] * f); src_all += [s_] * len(tt)
    t_all, rv_all, err_all = np.array(t_all), np.array(rv_all), np.array(err_all)
    inp = dict(case_input(c), plot=which, sample_rows=nrows, offsets_unit=str(ou),
               offsets_in_data_unit={f"dv0_{j}": list(v) for j, v in offs.items()})
    ctx.count(f"plot:{which}"); ctx.count(f"plot:form:{c['form']}")
    if c["form"] == "dict_int" and sorted(int(k) for k in c["keys"]) == list(range(1, nsurv + 1)):
        ctx.count("plot:dict keys 1..n")
    fig, ax = plt.subplots()
    try:
        try:
            if which == "phase_fold":
                rt = bool(rng.random() < 0.5)
                inp["remove_trend"] = rt
                plot_phase_fold(smp, data=data, ax=ax, remove_trend=rt, residual=False, show_s_errorbar=False)
                x, y, err = _errorbar_points(ax, 0)
                t0 = smp.get_t0()
                Pd = float(smp["P"][0].to_value(u.day))
                want_x = ((Time(t_all, format="mjd", scale="tcb") - t0).tcb.jd / Pd) % 1
                trend = sum(vv[l][0] * (t_all - tmin) ** l for l in range(p)) if rt else 0.0
                own = np.array([0.0 if col_of_src[s_] == 0 else offs[col_of_src[s_]][0] for s_ in src_all])
                want_y, want_err = rv_all - trend - own, err_all
            else:
                plot_rv_curves(smp, data=data, ax=ax, rv_unit=du, apply_mean_v0_offset=True)
                x, y, err = _errorbar_points(ax, 0)
                want_x = t_all
                own = np.array([0.0 if col_of_src[s_] == 0 else float(np.mean(offs[col_of_src[s_]])) for s_ in src_all])
                var = np.array([0.0 if col_of_src[s_] == 0 else float(np.var(offs[col_of_src[s_]])) for s_ in src_all])
                want_y, want_err = rv_all - own, np.sqrt(err_all ** 2 + var)
        except Exception as e:   # noqa: BLE001
            ctx.evaluated(rel, None)
            report(ctx, rel, g, inp, f"{type(e).__name__}: {str(e)[:200]}", None,
                   "plotting valid multi-survey data with a sample must not raise", dict(plot=which, form=c["form"], what="exception"))
            return
    finally:
        plt.close(fig)
    ctx.evaluated(rel, (g["kind"], g["index"]))
    scale = float(np.max(np.abs(rv_all))) + 1.0
    got = sorted(zip(np.round(np.asarray(x, dtype="f8"), 7), y, err if err is not None else np.zeros(len(y))))
    want = sorted(zip(np.round(want_x, 7), want_y, want_err))
    why = None
    if len(got) != len(want):
        why = f"{len(got)} points drawn for {len(want)} observations"
    else:
        # ties in x (identical epochs): compare the y multiset inside each tie group
        i = 0
        while i < len(want) and why is None:
            j = i
            while j < len(want) and want[j][0] == want[i][0]:
                j += 1
            gy = sorted(v[1] for v in got[i:j]); wy = sorted(v[1] for v in want[i:j])
            ge = sorted(v[2] for v in got[i:j]); we = sorted(v[2] for v in want[i:j])
            if any(abs(got[k][0] - want[k][0]) > 2e-7 for k in range(i, j)):
                why = f"abscissa {got[i][0]!r} drawn where {want[i][0]!r} is expected"
            elif any(abs(a - b) > 1e-9 * scale for a, b in zip(gy, wy)):
                k = int(np.argmax([abs(a - b) for a, b in zip(gy, wy)]))
                why = (f"the point at x={want[i][0]!r} is drawn at y={gy[k]!r}; its velocity minus the offset of its OWN survey "
                       f"{'(and the trend) ' if which == 'phase_fold' and inp.get('remove_trend') else ''}is {wy[k]!r} "
                       f"(difference {gy[k] - wy[k]:.6g} {du})")
            elif err is not None and any(abs(a - b) > 1e-9 * scale for a, b in zip(ge, we)):
                why = f"error bar at x={want[i][0]!r}: {ge} vs {we}"
            i = j
    if why:
        report(ctx, rel, g, inp, dict(x=list(x), y=list(y)), dict(x=list(want_x), y=list(want_y)),
               "every plotted data point has the offset of its own survey removed (reference survey: none): " + why,
               dict(plot=which, form=c["form"], what="offset"))



def run_case(ctx, g):
    kind, index = g["kind"], g["index"]
    ctx.seed = g.get("seed", ctx.seed)
    rng = ctx.case_rng(kind, index)
    if kind in ("merge", "mergeL"):
        run_merge(ctx, g, rng)
    elif kind == "single":
        run_single(ctx, g, rng)
    elif kind == "refuse":
        run_refuse(ctx, g, rng)
    elif kind == "e2e":
        run_e2e(ctx, g, rng)
    elif kind == "plot":
        run_plot(ctx, g, rng)


def post(ctx):
    ctx.rule = RULE
    ctx.extra["exhaustive"] = False
    ctx.extra["tolerances"] = {
        "same units": "bit patterns (t, rv, err), equality (ids, constant block)",
        "mixed units": "4*2^-52 relative on rv / err",
        "trend columns": "16*2^-52 relative against exact rationals",
        "likelihood": "1e-5*(1+|ll|) between two runs of the same kernel on the same labelled rows (tie order matched)",
    }
    c = ctx.counters
    q = 1 if not ctx.thorough else 10
    ctx.require("merge cases where the sort moves rows across a source boundary", c["sort-crosses-source-boundary"], 150 * q)
    ctx.require("list input", c["form:list"], 60 * q)
    ctx.require("dict with integer keys", c["form:dict_int"], 60 * q)
    ctx.require("dict with string keys", c["form:dict_str"], 60 * q)
    for lay in ("interleaved", "disjoint", "disjoint_rev", "identical", "overlap", "alltied"):
        ctx.require(f"layout {lay}", c[f"layout:{lay}"], 20 * q)
    ctx.require("mixed units", c["units:mixed"], 50 * q)
    ctx.require("more than 16 merged rows", c["rows>16"], 40 * q)
    ctx.require("plot_phase_fold cases", c["plot:phase_fold"], 25 * q)
    ctx.require("plot_rv_curves cases", c["plot:rv_curves"], 10 * q)
    ctx.require("plots of dict data with string keys", c["plot:form:dict_str"], 3 * q)
    ctx.require("plots of dict data with integer keys 1..n", c["plot:dict keys 1..n"], 2 * q)
    ctx.require("single-source cases", c["single:default"] + c["single:explicit"] + c["single:disabled"], 20)
    ctx.require("refused inputs", sum(v for k, v in c.items() if k.startswith("refuse:")), 10)
    ctx.require("end-to-end likelihood cases sensitive to the labelling", c["e2e:sensitive"], 100 * q)
    ctx.require("end-to-end cases with a source whose rv_err unit differs from its rv unit", c["e2e:rv_err in another unit than rv"], 20 * q)
    ctx.require("end-to-end cases through a real multi-process pool", c["e2e:multi-process"], 10 * q)
