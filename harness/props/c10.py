"""C10 - seeded runs are reproducible; randomness is confined to the given generator; distinct streams per
batch and per call.

Tie (DESIGN 3/C10):
 (i)   every entry point x option combination is run twice with equal seeds (fresh TheJoker, fresh generator) under
       *different* numpy / Python global random states, in one interpreter, and - for a subset - in two fresh
       interpreters (different PYTHONHASHSEED): outputs must be bit-identical.  Includes prior_samples=int,
       in_memory, file / object input and MultiPool(k) with equal n_batches (vs itself and vs a serial pool).
 (ii)  numpy's global legacy state, numpy's global bit generator (identity and state) and Python's `random`
       state are hashed before / after every call: unchanged.
 (iii) a recording pool extracts every task's child generator: (entropy, spawn key) pairwise distinct across
       batches and successive calls and different from the parent's; the children's multivariate-normal draws
       are pairwise different.
 (iv)  the observed spawn-key trace equals the run of the Lean `Rng` model on the observed event list
       (`rng.callEvents`, `rng.spawnTrace`), including the parent's final n_children_spawned; for calls that do
       not shuffle, the parent's PCG64 state after the history equals the initial state advanced by exactly one
       step per uniform drawn (one uniform per likelihood per round) - the exact form of `parent_stream_advances`.

Oracles for the property's predicate are independent of the model: bitwise comparison of outputs, hash of
global state, set comparison of spawn keys, PCG64.advance."""
import copy
import json
import os
import random
import subprocess
import sys

import numpy as np

NEEDS_KERNEL = False

RULE = ("a comparison is non-trivial when the output depends on the seed (a run with a different seed gives a "
        "different table) and the call draws random numbers; distinct = distinct (entry, source, in_memory, "
        "sorted option names, pool)")


def plan(ctx):
    t = ctx.thorough
    cases = [("repeat", i) for i in range(150 if t else 22)]
    cases += [("intprior", i) for i in range(12 if t else 3)]
    cases += [("prior", i) for i in range(30 if t else 3)]
    cases += [("streams", i) for i in range(80 if t else 10)]
    cases += [("readbatch", i) for i in range(20 if t else 4)]
    cases += [("mpool", i) for i in range(12 if t else 2)]
    cases += [("fresh", i) for i in range(8 if t else 1)]
    cases += [("analysis", i) for i in range(12 if t else 3)]
    cases += [("seedfunnel", 0)]
    return cases


# ---------------------------------------------------------------------------------------------------------


def case_rng(seed, kind, index):
    import core
    return np.random.default_rng(np.random.SeedSequence([seed, core.crc("C10"), core.crc(kind), int(index)]))


def set_globals(k):
    np.random.seed(1000 + k)
    random.seed(2000 + k)


COMBOS = [(e, m) for e in ("rejection", "iterative", "rejection", "marginal")
          for m in (("object", False), ("file", False), ("object", True))]


def build(rng, kind, index=0):
    """problem + library + spec for the repeat-like kinds; deterministic in (rng, index).  Entry point, input
    form and the rarer options are stratified over the case index so that coverage does not depend on luck."""
    import histlib as hl
    pr = hl.small_problem(rng)
    if kind == "intprior":
        spec = hl.gen_spec(rng, 24, entry="rejection", source="int", in_memory=bool(index % 3 == 1))
        return pr, None, None, spec, 24
    N = int(rng.integers(24, 72))
    lib, phys, internal = hl.library(rng, pr, N)
    entry, (source, inmem) = COMBOS[index % len(COMBOS)]
    spec = hl.gen_spec(rng, N, entry=entry, source=source, in_memory=inmem)
    if entry != "marginal" and not inmem and index % 2 == 1:
        spec["opts"]["randomize_prior_order"] = True
    return pr, lib, phys, spec, N


def make_generator(seed, how="default_rng"):
    """equal (seed, how) -> generators in the same state; only `default_rng` also fixes the generator's private seed sequence"""
    if how == "default_rng":
        return np.random.default_rng(seed)
    if how == "jumped":                       # numpy's documented recipe for parallel streams
        return np.random.Generator(np.random.PCG64(seed).jumped())
    if how == "state-restored":               # a generator whose state was saved and restored
        bg = np.random.PCG64()
        bg.state = np.random.PCG64(seed).state
        return np.random.Generator(bg)
    raise ValueError(how)


def run_once(pr, lib, path, spec, N, seed, pool=None, global_k=0, watch=True, how="default_rng"):
    """one seeded run on a fresh TheJoker; returns (canonical output, list of changed global-state items)"""
    import histlib as hl
    import rec
    set_globals(global_k)
    w = rec.GlobalRngWatch()
    j = pr.joker(rng=make_generator(seed, how), pool=pool)
    out = hl.do_call(j, pr, spec, lib=lib, path=path, n_int=N)
    return out, (w.changed() if watch else [])


def spec_key(spec, pool="serial"):
    return (spec["entry"], spec["source"], spec["in_memory"], tuple(sorted(spec["opts"])), pool)


def repeat_case(ctx, g, kind):
    import histlib as hl
    rng = ctx.case_rng(kind, g["index"])
    pr, lib, phys, spec, N = build(rng, kind, g["index"])
    seed = hl.seed_of(rng)
    with hl.Scratch("c10") as sc:
        path = sc.write_library(lib) if spec["source"] == "file" else None
        a, ch_a = run_once(pr, lib, path, spec, N, seed, global_k=1)
        b, ch_b = run_once(pr, lib, path, spec, N, seed, global_k=2)
        c, _ = run_once(pr, lib, path, spec, N, seed + 1, global_k=1)
    inp = dict(spec=spec, N=N, seed=seed, problem=dict(p=pr.p, q=pr.q, K=pr.desc["K"]["kind"], s=pr.desc["s"]["kind"]))
    tags = dict(entry=spec["entry"], source=spec["source"], in_memory=spec["in_memory"])
    rel = "equal seed => bit-identical output (Rng.output_function_of_seed)"
    depends_on_seed = hl.out_diff(a, c) is not None
    draws = spec["entry"] != "marginal"
    ctx.evaluated(rel, spec_key(spec) if (depends_on_seed and draws) else None, sample=dict(inp, digest=hl.out_digest(a)[:16]))
    ctx.count(f"entry:{spec['entry']}")
    ctx.count(f"source:{spec['source']}")
    if spec["in_memory"]:
        ctx.count("in_memory")
    for o in spec["opts"]:
        if spec["opts"][o] not in (None, False):
            ctx.count(f"opt:{o}")
    if depends_on_seed:
        ctx.count("seed-dependent")
    d = hl.out_diff(a, b)
    if d is not None:
        ctx.violation(rel, g, inp, hl.out_brief(a), hl.out_brief(b),
                      "two runs with the same seed, inputs and options (fresh TheJoker, fresh Generator(seed)) must "
                      "return bit-identical tables; they differ at " + d, tags=tags)
    # generators in EQUAL STATE that were not built by default_rng(seed): the outputs must be equal as well
    if spec["entry"] != "marginal" and g["index"] % 2 == 0:
        how = ("jumped", "state-restored")[(g["index"] // 2) % 2]
        rel3 = "generators in equal state (however constructed) => bit-identical output"
        with hl.Scratch("c10") as sc:
            path = sc.write_library(lib) if spec["source"] == "file" else None
            try:
                a2, _ = run_once(pr, lib, path, spec, N, seed, global_k=1, watch=False, how=how)
                b2, _ = run_once(pr, lib, path, spec, N, seed, global_k=2, watch=False, how=how)
                err = None
            except Exception as e:   # noqa: BLE001
                err = f"{type(e).__name__}: {str(e)[:160]}"
        ctx.evaluated(rel3, (how, spec_key(spec)))
        ctx.count(f"generator construction: {how}")
        children = (not spec["in_memory"]) and spec["source"] in ("object", "file", "int")
        if err is not None:
            ctx.violation(rel3, g, dict(inp, generator=how), err, None, "a valid numpy Generator must be accepted", tags=dict(tags, generator=how))
        else:
            d2 = hl.out_diff(a2, b2)
            if d2 is not None:
                ctx.violation(rel3, g, dict(inp, generator=how), hl.out_brief(a2), hl.out_brief(b2),
                              f"two runs with generators in the same state ({how}) must return bit-identical tables; they differ at " + d2,
                              tags=dict(tags, generator=how, what="child streams from the generator's private seed sequence" if children else "other"))
    rel2 = "global numpy / Python random state untouched"
    ctx.evaluated(rel2, None)
    if ch_a or ch_b:
        ctx.violation(rel2, g, inp, dict(changed=sorted(set(ch_a + ch_b))), None,
                      "np.random.get_state(), the global bit generator (identity, state) and random.getstate() must "
                      "be the same before and after the call", tags=tags)


def prior_case(ctx, g):
    import histlib as hl
    import rec
    rng = ctx.case_rng("prior", g["index"])
    pr = hl.small_problem(rng)
    size = int(rng.integers(1, 40))
    kw = dict(generate_linear=bool(rng.random() < 0.5), return_logprobs=bool(rng.random() < 0.4))
    seed = hl.seed_of(rng)
    inp = dict(size=size, seed=seed, **kw)
    set_globals(1)
    w = rec.GlobalRngWatch()
    g1 = np.random.default_rng(seed)
    a1 = hl.table_arrays(pr.prior.sample(size=size, rng=g1, **kw))
    a2 = hl.table_arrays(pr.prior.sample(size=size, rng=g1, **kw))     # successive call, same generator
    ch = w.changed()
    set_globals(2)
    b1 = hl.table_arrays(pr.prior.sample(size=size, rng=np.random.default_rng(seed), **kw))
    rel = "prior.sample: equal seed => bit-identical draws"
    ctx.evaluated(rel, ("prior", kw["generate_linear"], kw["return_logprobs"]), sample=inp)
    ctx.count("entry:prior.sample")
    d = hl.arrays_diff(a1, b1)
    if d is not None:
        ctx.violation(rel, g, inp, hl.brief(a1), hl.brief(b1), "prior.sample(size, rng=Generator(seed)) twice must give "
                      "bit-identical samples: " + d, tags=dict(entry="prior.sample"))
    rel3 = "prior.sample: successive calls advance the given generator"
    ctx.evaluated(rel3, None)
    if hl.arrays_diff(a1, a2) is None:
        ctx.violation(rel3, g, inp, hl.brief(a1), hl.brief(a2), "two successive prior.sample calls on one generator must "
                      "not repeat the same draws", tags=dict(entry="prior.sample"))
    rel2 = "global numpy / Python random state untouched"
    ctx.evaluated(rel2, None)
    if ch:
        ctx.violation(rel2, g, inp, dict(changed=ch), None, "prior.sample must not touch global random state",
                      tags=dict(entry="prior.sample"))


def readbatch_case(ctx, g):
    import histlib as hl
    import rec
    from thejoker.utils import read_batch
    rng = ctx.case_rng("readbatch", g["index"])
    pr = hl.small_problem(rng, q=0, p=1)
    N = int(rng.integers(10, 60))
    lib, phys, internal = hl.library(rng, pr, N)
    size = int(rng.integers(1, N + 1))
    seed = hl.seed_of(rng)
    cols = ["P", "e", "omega", "M0", "s"]
    with hl.Scratch("c10") as sc:
        path = sc.write_library(lib)
        set_globals(1)
        w = rec.GlobalRngWatch()
        a = read_batch(path, cols, size, rng=np.random.default_rng(seed))
        ch = w.changed()
        set_globals(2)
        b = read_batch(path, cols, size, rng=np.random.default_rng(seed))
    inp = dict(N=N, size=size, seed=seed)
    rel = "read_batch(size, rng): equal seed => identical rows"
    ctx.evaluated(rel, ("read_batch", size < N), sample=inp)
    ctx.count("entry:read_batch")
    if a.tobytes() != b.tobytes() or ch:
        ctx.violation(rel, g, inp, a[:3], b[:3], "random batch reads with the same generator seed must return the "
                      f"same rows and leave global state alone (changed: {ch})", tags=dict(entry="read_batch"))


# ---------------------------------------------------------------------------------------------------------
# (iii) + (iv): spawn keys, streams, model trace


def pcg_state(gen):
    s = gen.bit_generator.state
    # (the buffered 32-bit half-word `has_uint32/uinteger` is left out: PCG64.advance resets it, and it does not
    # influence 64-bit draws)
    return (s["state"]["state"], s["state"]["inc"])


def streams_case(ctx, g):
    import histlib as hl
    import rec
    rng = ctx.case_rng("streams", g["index"])
    pr = hl.small_problem(rng)
    N = int(rng.integers(24, 64))
    lib, phys, internal = hl.library(rng, pr, N)
    seed = hl.seed_of(rng)
    # parent generator with a non-trivial seed-sequence position: sometimes itself a spawned child, sometimes
    # one that already spawned before
    ss = np.random.SeedSequence(seed)
    pre = int(rng.integers(0, 3))
    if rng.random() < 0.4:
        ss = ss.spawn(2)[1]
    if pre:
        ss.spawn(pre)
    parent = rec.RecGen(np.random.PCG64(ss))
    state0 = copy.deepcopy(parent.bit_generator.state)
    key0, nsp0, ent0 = rec.spawn_key(parent)
    pool = rec.RecPool(size=int(rng.integers(1, 5)))
    ncalls = int(rng.integers(2, 6))
    events, observed_keys, kid_draws, history, advance_checks = [], [], [], [], []
    total_uniform = 0
    with hl.Scratch("c10") as sc:
        path = sc.write_library(lib)
        j = pr.joker(rng=parent, pool=pool)
        for c in range(ncalls):
            entry = str(rng.choice(["rejection", "iterative", "marginal"], p=[0.5, 0.35, 0.15]))
            if c < 2:     # the first two calls always hand child generators to tasks; the second never shuffles
                entry = ("rejection", "iterative")[(g["index"] + c) % 2]
                spec = hl.gen_spec(rng, N, entry=entry, in_memory=False)
                if c == 1:
                    spec["opts"].pop("randomize_prior_order", None)
            else:
                spec = hl.gen_spec(rng, N, entry=entry)
            n_maps0, n_calls0 = len(pool.maps), len(parent.calls)
            state_before = copy.deepcopy(parent.bit_generator.state)
            out = hl.do_call(j, pr, spec, lib=lib, path=path)
            new_calls = parent.calls[n_calls0:]
            new_maps = pool.maps[n_maps0:]
            rounds = [int(np.size(cl["out"])) for cl in new_calls if cl["method"] == "uniform"]
            ch = [cl for cl in new_calls if cl["method"] == "choice"]
            mvn = [cl for cl in new_calls if cl["method"] == "multivariate_normal"]
            other = [cl["method"] for cl in new_calls if cl["method"] not in ("uniform", "choice", "multivariate_normal")]
            n_sh = sum(int(np.size(cl["out"])) for cl in ch)
            total_uniform += sum(rounds)
            if not (ch or mvn or other):
                # exact advance of the parent stream over this call (numpy's choice / multivariate_normal
                # consume a data-dependent number of raw variates, so only calls without them are checked)
                ref = np.random.PCG64()
                ref.state = state_before
                ref.advance(sum(rounds))
                advance_checks.append((c, sum(rounds), pcg_state(np.random.Generator(ref)) == pcg_state(parent)))
            full_maps = [m for m in new_maps if m["child_keys"]]
            n_tasks = sum(m["n_tasks"] for m in full_maps)
            for m in full_maps:
                observed_keys += [dict(key=list(k[0]), entropy=str(k[2]), nSpawned=k[1]) for k in m["child_keys"]]
                for kid in m["children"]:
                    d = kid.of("multivariate_normal")
                    if d:
                        kid_draws.append(np.array(d[0]["out"]).tobytes())
            history.append(dict(spec=spec, rounds=rounds, n_shuffle=n_sh, n_tasks=n_tasks, n_mvn=len(mvn), other=other))
            if entry == "marginal":
                ev = []
                if new_calls:
                    ev = [{"draw": int(np.size(cl["out"]))} for cl in new_calls]
            elif spec["in_memory"]:
                ev = ctx.model({"op": "rng.callEvents", "rounds": rounds, "inMemory": True, "nMvn": len(mvn),
                                "nShuffle": n_sh})["events"]
            else:
                ev = ctx.model({"op": "rng.callEvents", "rounds": rounds, "inMemory": False, "nShuffle": n_sh,
                                "nTasks": n_tasks})["events"]
            events += ev
            ctx.count(f"streams:{entry}{':inmem' if spec['in_memory'] else ''}")
    m = ctx.model({"op": "rng.spawnTrace", "entropy": str(ent0), "key": list(key0), "nSpawned": nsp0, "pos": 0,
                   "events": events})
    key1, nsp1, ent1 = rec.spawn_key(parent)
    inp = dict(N=N, seed=seed, parent=dict(key=list(key0), nSpawned=nsp0, entropy=str(ent0)), pool_size=pool.size,
               history=history)
    rel = "observed spawn keys are a run of Rng.run (spawned_keys_distinct)"
    multi = sum(1 for h in history if h["n_tasks"] > 0)
    ctx.evaluated(rel, (len(observed_keys), multi, nsp0, len(key0)) if (len(observed_keys) >= 2 and multi >= 2) else None,
                  sample=dict(parent=inp["parent"], observed=observed_keys[:4]))
    ctx.count("streams:children", len(observed_keys))
    if multi >= 2:
        ctx.count("streams:multi-call-histories")
    # --- the property's own predicate, independent of the model
    ids = [(k["entropy"], tuple(k["key"])) for k in observed_keys]
    why = None
    if len(set(ids)) != len(ids):
        dup = [i for i in ids if ids.count(i) > 1][0]
        why = f"spawn key {dup} handed to more than one task"
    elif (str(ent0), tuple(key0)) in ids:
        why = "a task received the parent's own seed sequence"
    elif len(set(kid_draws)) != len(kid_draws):
        why = "two tasks drew identical linear parameters (multivariate_normal output repeated)"
    model_keys = [dict(key=k, entropy=str(ent0), nSpawned=0) for k in m["childKeys"]]
    if why is not None:
        ctx.violation(rel, g, inp, observed_keys, model_keys, "different batches and successive calls must receive "
                      "different random streams: " + why, tags=dict(relation="spawn-keys"))
    elif observed_keys != model_keys or nsp1 != m["nSpawned"] or list(key1) != list(key0):
        ctx.mismatch(rel, g, inp, dict(keys=observed_keys, parent_nSpawned=nsp1), dict(keys=model_keys, parent_nSpawned=m["nSpawned"]),
                     "observed child seed sequences must equal the model's (parent key ++ [counter], parent entropy)")
    # --- exact advance of the parent stream, per call
    rel2 = "parent stream advances by one variate per likelihood per round (parent_stream_advances)"
    for (c, n_u, ok) in advance_checks:
        ctx.evaluated(rel2, (n_u,) if n_u else None)
        ctx.count("streams:advance-checked")
        if not ok:
            ctx.violation(rel2, g, inp, dict(call=c, uniforms=n_u), None,
                          "all randomness of a call must come from the given generator: after the call its PCG64 "
                          f"state must be the state before advanced by the {n_u} uniforms drawn (call #{c})",
                          tags=dict(relation="advance"))
    if m["pos"] != sum(sum(h["rounds"]) + h["n_shuffle"] + h["n_mvn"] for h in history if h["spec"]["entry"] != "marginal"):
        ctx.mismatch(rel2, g, inp, total_uniform, m["pos"], "model position must equal the number of logical draws")
    # every likelihood evaluated in a round gets its own uniform: sizes recorded must be positive for sampling calls
    for h in history:
        if h["spec"]["entry"] != "marginal" and not h["rounds"]:
            ctx.violation(rel2, g, inp, h, None, "a sampling call drew no uniforms from the given generator",
                          tags=dict(relation="no-uniform"))


# ---------------------------------------------------------------------------------------------------------
# multi-process pools


def mpool_case(ctx, g):
    import histlib as hl
    import rec
    rng = ctx.case_rng("mpool", g["index"])
    pr = hl.small_problem(rng, n=int(rng.integers(3, 6)))
    N = int(rng.integers(16, 33))
    lib, phys, internal = hl.library(rng, pr, N)
    entry = str(rng.choice(["rejection", "iterative"]))
    spec = hl.gen_spec(rng, N, entry=entry, source=str(rng.choice(["object", "file"])), in_memory=False)
    spec["opts"]["n_batches"] = int(rng.integers(2, 6))
    k = int(rng.integers(2, 4)) if not ctx.thorough else int(rng.integers(2, 9))
    seed = hl.seed_of(rng)
    inp = dict(spec=spec, N=N, seed=seed, processes=k)
    with hl.Scratch("c10") as sc:
        path = sc.write_library(lib) if spec["source"] == "file" else None
        outs = []
        for rep in range(2):
            pool = hl.multi_pool(k)
            try:
                out, ch = run_once(pr, lib, path, spec, N, seed, pool=pool, global_k=rep + 1)
            finally:
                pool.close()
            outs.append((out, ch))
        ser, ch_s = run_once(pr, lib, path, spec, N, seed, global_k=3)
        other, _ = run_once(pr, lib, path, spec, N, seed + 1, global_k=3)
    rel = "MultiPool(k), equal n_batches, equal seed => bit-identical output"
    ctx.evaluated(rel, spec_key(spec, f"multi{k}") if hl.out_diff(ser, other) is not None else None, sample=inp)
    ctx.count("pool:multi")
    tags = dict(entry=spec["entry"], source=spec["source"], pool="multi")
    d = hl.out_diff(outs[0][0], outs[1][0])
    if d is not None:
        ctx.violation(rel, g, inp, hl.out_brief(outs[0][0]), hl.out_brief(outs[1][0]),
                      "two multi-process runs with equal seed and batching differ: " + d, tags=tags)
    d = hl.out_diff(outs[0][0], ser)
    if d is not None:
        ctx.violation(rel, g, inp, hl.out_brief(outs[0][0]), hl.out_brief(ser),
                      "multi-process and serial run with equal seed and batching differ (streams are per task, "
                      "not per process): " + d, tags=tags)
    if outs[0][1] or outs[1][1] or ch_s:
        ctx.violation("global numpy / Python random state untouched", g, inp, dict(changed=outs[0][1] + outs[1][1] + ch_s),
                      None, "global random state changed in the parent process", tags=tags)


# ---------------------------------------------------------------------------------------------------------
# fresh interpreters


def fresh_digest(seed, index):
    """digest of one seeded run, a pure function of (seed, index) - executed in the parent and in children"""
    import histlib as hl
    rng = case_rng(seed, "fresh", index)
    pr, lib, phys, spec, N = build(rng, "repeat", index)
    s = hl.seed_of(rng)
    with hl.Scratch("c10") as sc:
        path = sc.write_library(lib) if spec["source"] == "file" else None
        out, ch = run_once(pr, lib, path, spec, N, s, global_k=1)
    return dict(digest=hl.out_digest(out), changed=ch, spec=spec, N=N, seed=s)


def fresh_case(ctx, g):
    import core
    here = fresh_digest(g["seed"], g["index"])
    outs = []
    for hs in ("1", "4242"):
        env = dict(os.environ, PYTHONHASHSEED=hs, VERIF_REPO=core.REPO)
        p = subprocess.run([sys.executable, os.path.abspath(__file__), "--child", str(g["seed"]), str(g["index"])],
                           stdout=subprocess.PIPE, stderr=subprocess.PIPE, text=True, env=env, timeout=600)
        line = [l for l in p.stdout.split("\n") if l.startswith("DIGEST ")]
        if p.returncode != 0 or not line:
            raise core.Infra(f"child interpreter failed: rc={p.returncode} {p.stderr[-800:]}")
        outs.append(json.loads(line[0][7:]))
    rel = "fresh interpreters (different hash seeds), equal seed => bit-identical output"
    ctx.evaluated(rel, spec_key(here["spec"], "fresh"), sample=dict(spec=here["spec"], digest=here["digest"][:16]))
    ctx.count("fresh-interpreter-runs", 2)
    digs = {here["digest"], outs[0]["digest"], outs[1]["digest"]}
    if len(digs) != 1:
        ctx.violation(rel, g, dict(spec=here["spec"], N=here["N"], seed=here["seed"]), [o["digest"] for o in outs], here["digest"],
                      "the same seeded call in two fresh interpreters and in this one must give bit-identical output",
                      tags=dict(entry=here["spec"]["entry"], source=here["spec"]["source"], pool="fresh"))


def run_case(ctx, g):
    import time
    t0 = time.time()
    try:
        _run_case(ctx, g)
    finally:
        ctx.extra.setdefault("wall_by_kind", {})
        ctx.extra["wall_by_kind"][g["kind"]] = round(ctx.extra["wall_by_kind"].get(g["kind"], 0) + time.time() - t0, 2)


def analysis_case(ctx, g):
    """the public analysis helpers (is_P_unimodal, is_P_Kmodal, MAP_sample, max_phase_gap, ...): no call may read or change
    numpy's / Python's global random state, and the result may not depend on it"""
    import astropy.units as u
    import thejoker as tj
    import rec
    from thejoker import samples_analysis as sa
    rng = ctx.case_rng("analysis", g["index"])
    n1, n2 = int(rng.integers(10, 50)), int(rng.integers(10, 50))
    P = np.concatenate([rng.normal(8.0, 0.002, n1), rng.normal(21.0, 0.004, n2)])
    s = tj.JokerSamples()
    s["P"] = P * u.day
    s["e"] = rng.uniform(0, 0.5, len(P)) * u.one
    s["omega"] = rng.uniform(0, 6, len(P)) * u.rad
    s["M0"] = rng.uniform(0, 6, len(P)) * u.rad
    s["s"] = np.zeros(len(P)) * u.km / u.s
    s["ln_prior"] = rng.normal(-5, 1, len(P))
    s["ln_likelihood"] = rng.normal(-20, 3, len(P))
    t = np.sort(rng.uniform(0, 300, 12)) + 58000.0
    data = tj.RVData(t, rng.normal(0, 5, 12) * u.km / u.s, np.ones(12) * 0.5 * u.km / u.s)
    calls = {
        "is_P_unimodal": lambda: bool(sa.is_P_unimodal(s, data)),
        "is_P_Kmodal": lambda: [np.asarray(getattr(x, "value", x)).tolist() for x in sa.is_P_Kmodal(s, data, n_clusters=2)],
        "MAP_sample": lambda: float(sa.MAP_sample(s)["P"].value[0]),
        "max_phase_gap": lambda: float(u.Quantity(sa.max_phase_gap(s[0], data)).value),
        "phase_coverage": lambda: float(sa.phase_coverage(s[0], data)),
    }
    rel = "global numpy / Python random state untouched"
    for name, fn in calls.items():
        outs, changed = [], []
        for k in (1, 2):
            set_globals(k)
            w = rec.GlobalRngWatch()
            try:
                outs.append(fn())
            except Exception as e:   # noqa: BLE001
                outs.append(f"raised {type(e).__name__}")
            changed += w.changed()
        ctx.evaluated(rel, ("analysis", name))
        ctx.count(f"analysis:{name}")
        if changed:
            ctx.violation(rel, g, dict(call=name, n_samples=len(P)), dict(changed=sorted(set(changed))), None,
                          f"{name} must not read or change numpy's / Python's global random state", tags=dict(entry=name, what="global-state"))
        elif repr(outs[0]) != repr(outs[1]):
            ctx.violation(rel, g, dict(call=name, n_samples=len(P)), dict(with_global_seed_1=outs[0], with_global_seed_2=outs[1]), None,
                          f"the result of {name} must not depend on the global random state", tags=dict(entry=name, what="depends-on-global"))


def seedfunnel_case(ctx, g):
    """successive prior.sample(rng=generator) calls: a concrete pair of calls on ONE generator that return the same draws
    (found by a birthday search over seeds in bug-hunt round 2; the call is a function of one 30-bit number taken from the
    generator)"""
    import astropy.units as u
    import pymc as pm
    import thejoker as tj
    import histlib as hl
    SEED, I, J = 1761918, 1, 24
    rel = "prior.sample: successive calls on one generator never return the same draws"
    with pm.Model():
        prior = tj.JokerPrior.default(P_min=2 * u.day, P_max=256 * u.day, sigma_K0=30 * u.km / u.s, sigma_v=100 * u.km / u.s)
    rng = np.random.default_rng(SEED)
    calls = [hl.table_arrays(prior.sample(size=16, generate_linear=True, rng=rng)) for _ in range(J + 1)]
    digests = [hl.digest(c) for c in calls]
    inp = dict(seed=SEED, calls=J + 1, size=16, generate_linear=True, prior="JokerPrior.default(P_min=2 d, P_max=256 d, sigma_K0=30 km/s, sigma_v=100 km/s)")
    ctx.evaluated(rel, ("seedfunnel", SEED), sample=dict(inp, distinct=len(set(digests))))
    ctx.count("entry:prior.sample:successive-calls", J + 1)
    if len(set(digests)) != len(digests):
        same = [(i, j) for i in range(len(digests)) for j in range(i + 1, len(digests)) if digests[i] == digests[j]]
        ctx.violation(rel, g, inp, dict(identical_calls=same, K_first=np.asarray(calls[same[0][0]]["K"][1])[:3].tolist(),
                                        K_second=np.asarray(calls[same[0][1]]["K"][1])[:3].tolist()), dict(distinct_calls=J + 1),
                      f"calls #{same[0][0]} and #{same[0][1]} on the same generator return bit-identical samples in every column "
                      "(nonlinear and linear): the draws are repeated across calls",
                      tags=dict(entry="prior.sample", what="successive prior.sample calls funnelled through one 30-bit seed"))


def _run_case(ctx, g):
    kind = g["kind"]
    ctx.seed = g.get("seed", ctx.seed)
    if kind == "analysis":
        return analysis_case(ctx, g)
    if kind in ("repeat", "intprior"):
        repeat_case(ctx, g, kind)
    elif kind == "prior":
        prior_case(ctx, g)
    elif kind == "readbatch":
        readbatch_case(ctx, g)
    elif kind == "streams":
        streams_case(ctx, g)
    elif kind == "mpool":
        mpool_case(ctx, g)
    elif kind == "fresh":
        fresh_case(ctx, g)
    elif kind == "seedfunnel":
        seedfunnel_case(ctx, g)


def post(ctx):
    ctx.rule = RULE
    c = ctx.counters
    ctx.extra["exhaustive"] = False
    ctx.assumptions = [
        "numpy: Generator(PCG64(seed sequence)) streams are determined by (entropy, spawn_key); SeedSequence.spawn "
        "appends n_children_spawned+i to the key (modelled in Rng.spawn, compared with the observed keys on every run)",
        "absence of hidden nondeterminism in the Python runtime / third-party libraries is sampled (equal-seed repeats "
        "under different global RNG states, fresh interpreters with different PYTHONHASHSEED), not proved: the property "
        "is partial (DESIGN 3/C10 residue)",
        "pymc's pm.draw(random_seed=Generator) is treated as an oracle",
    ]
    t = ctx.thorough
    ctx.require("rejection_sample repeats", c["entry:rejection"], 10)
    ctx.require("iterative_rejection_sample repeats", c["entry:iterative"], 4)
    ctx.require("prior_samples=int repeats", c["source:int"], 3)
    ctx.require("file-input repeats", c["source:file"], 4)
    ctx.require("object-input repeats", c["source:object"], 4)
    ctx.require("in_memory repeats", c["in_memory"], 5)
    ctx.require("randomize_prior_order repeats", c["opt:randomize_prior_order"], 3)
    ctx.require("seed-dependent outputs", c["seed-dependent"], 10)
    ctx.require("prior.sample cases", c["entry:prior.sample"], 3)
    ctx.require("child generators observed", c["streams:children"], 20)
    ctx.require("histories with >=2 spawning calls", c["streams:multi-call-histories"], 10)
    ctx.require("exact parent-advance checks", c["streams:advance-checked"], 10)
    ctx.require("multi-process cases", c["pool:multi"], 2)
    ctx.require("fresh-interpreter runs", c["fresh-interpreter-runs"], 2)


def _child_main(argv):
    here = os.path.dirname(os.path.dirname(os.path.abspath(__file__)))
    sys.path.insert(0, here)
    import warnings
    warnings.filterwarnings("ignore")
    import core
    import pyxtrans
    pyxtrans.install_twin(os.path.join(core.REPO, "thejoker", "src", "fast_likelihood.pyx"))
    sys.path.insert(0, core.REPO)
    sys.path.insert(0, os.path.join(here, "props"))
    r = fresh_digest(int(argv[0]), int(argv[1]))
    print("DIGEST " + json.dumps(dict(digest=r["digest"], changed=r["changed"])))


if __name__ == "__main__" and len(sys.argv) > 1 and sys.argv[1] == "--child":
    _child_main(sys.argv[2:])
