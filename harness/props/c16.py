"""C16 - work partitioning covers every prior sample exactly once, in order.

Tie: real `thejoker.utils.batch_tasks` and `thejoker.multiproc_helpers.run_worker` against the Lean functions
`Batch.batchTasks`, `Batch.batchTasksArr`, `Batch.runWorkerNSamples/NBatches` (exact equality), plus the
property's own predicate evaluated directly on the implementation's output (independent of the model)."""
import itertools
import os
import tempfile

import numpy as np

RULE = ("exhaustive grid n_tasks x n_batches x start (index and array form) + random large values + run_worker "
        "with a recording pool on real HDF5 files; a case is non-trivial when n_batches>1 and n_tasks%n_batches!=0 "
        "or n_batches>n_tasks or n_batches<=0 (distinct = distinct (n,nb,start,form))")


def plan(ctx):
    N = 64 if ctx.thorough else 40
    cases = [("grid", n) for n in range(1, N + 1)]
    cases += [("random", i) for i in range(400 if ctx.thorough else 60)]
    cases += [("runworker", i) for i in range(60 if ctx.thorough else 16)]
    cases += [("huge", i) for i in range(200 if ctx.thorough else 40)]
    return cases


def predicate(tasks, n, start, arr):
    """the property itself, on the implementation's output; returns None if it holds else a description"""
    if len(tasks) == 0:
        return "no batches"
    lo = start
    got = []
    for t in tasks:
        sl, tid = t[0], t[1]
        if arr is None:
            a, b = sl
            if a != lo:
                return f"batch starts at {a}, previous ended at {lo} (gap/overlap/order)"
            if not (a < b):
                return f"empty batch ({a},{b})"
            if tid != a:
                return f"task id {tid} != its start {a}"
            lo = b
        else:
            sl = list(sl)
            if len(sl) == 0:
                return "empty batch"
            if tid != lo:
                return f"task id {tid} != its start {lo}"
            got += sl
            lo += len(sl)
    if arr is None:
        if lo != start + n:
            return f"batches end at {lo}, expected {start + n}"
    else:
        want = list(arr[start:start + n])
        if got != want:
            return f"elements differ: got {got[:8]}.. want {want[:8]}.."
    return None


def one(ctx, g, n, nb, start, use_arr, rng=None):
    from thejoker.utils import batch_tasks
    arr = None
    if use_arr:
        arr = np.arange(1000, 1000 + n + start) if rng is None else rng.integers(0, 10**6, size=n + start)
    args = ("A", 7)
    tasks = batch_tasks(n, nb, arr=arr, args=args, start_idx=start)
    if arr is None:
        m = ctx.model({"op": "batch.tasks", "n": n, "nb": nb, "start": start})["tasks"]
        impl = [[int(t[0][0]), int(t[0][1])] for t in tasks]
        impl_ids = [int(t[1]) for t in tasks]
        model_ids = [p[0] for p in m]
    else:
        r = ctx.model({"op": "batch.arr", "arr": [int(v) for v in arr], "n": n, "nb": nb, "start": start})["tasks"]
        m = [p[0] for p in r]
        model_ids = [p[1] for p in r]
        impl = [[int(v) for v in t[0]] for t in tasks]
        impl_ids = [int(t[1]) for t in tasks]
    inp = dict(n_tasks=n, n_batches=nb, start_idx=start, arr=use_arr)
    nontriv = (nb > 1 and n % nb != 0) or nb > n or nb <= 0
    ctx.evaluated("batch_tasks=Batch.batchTasks", (n, nb, start, use_arr) if nontriv else None,
                  sample=dict(inp, impl=impl[:4]))
    ctx.count("form:arr" if use_arr else "form:index")
    ctx.count("nb<=0" if nb <= 0 else ("nb>n" if nb > n else ("nb|n" if n % nb == 0 else "remainder")))
    bad_args = [t for t in tasks if list(t[2:]) != list(args)]
    why = predicate(tasks, n, start, arr)
    if why is None and bad_args:
        why = "extra task arguments not passed through"
    if why is not None:
        ctx.violation("batch_tasks=Batch.batchTasks", g, inp, dict(tasks=impl, ids=impl_ids), dict(tasks=m, ids=model_ids),
                      "batches contiguous, non-empty, ordered, covering exactly the range / array; id = own start: " + why,
                      tags=dict(form="arr" if use_arr else "index"))
    elif impl != m or impl_ids != model_ids:
        ctx.mismatch("batch_tasks=Batch.batchTasks", g, inp, dict(tasks=impl, ids=impl_ids), dict(tasks=m, ids=model_ids),
                     "implementation output must equal the Lean model's")


class RecPool:
    def __init__(self, size):
        self.size = size
        self.tasks = None

    def map(self, worker, tasks):
        self.tasks = [tuple(t) for t in tasks]
        return [worker(t) for t in tasks]

    def close(self):
        pass


_files = {}


def sample_file(n):
    """a real prior-sample HDF5 file with n rows"""
    import astropy.units as u
    from thejoker.samples import JokerSamples
    if n not in _files:
        s = JokerSamples()
        s["P"] = np.arange(1, n + 1) * u.day
        s["e"] = np.zeros(n) * u.one
        s["omega"] = np.zeros(n) * u.rad
        s["M0"] = np.zeros(n) * u.rad
        s["s"] = np.zeros(n) * u.km / u.s
        d = tempfile.mkdtemp(prefix="verif_c16_")
        path = os.path.join(d, f"s{n}.hdf5")
        s.write(path, overwrite=True)
        _files[n] = path
    return _files[n]


def runworker_case(ctx, g, rng):
    from thejoker.multiproc_helpers import run_worker
    n_file = int(rng.integers(1, 60))
    mode = rng.choice(["file", "nprior", "idx", "both"], p=[0.3, 0.3, 0.3, 0.1])
    n_prior = int(rng.integers(1, n_file + 1)) if mode in ("nprior", "both") else None
    idx = rng.permutation(n_file)[: int(rng.integers(1, n_file + 1))] if mode in ("idx", "both") else None
    nb = None if rng.random() < 0.4 else int(rng.integers(-1, n_file + 4))
    pool = RecPool(int(rng.integers(0, 6)))
    path = sample_file(n_file)
    seen = []

    def worker(task):
        seen.append(task)
        return len(seen) - 1

    inp = dict(n_file=n_file, n_prior_samples=n_prior, samples_idx=None if idx is None else idx.tolist(),
               n_batches=nb, pool_size=pool.size)
    m = ctx.model({"op": "batch.runworker", "nFile": n_file, "nPrior": n_prior,
                   "idxLen": None if idx is None else len(idx), "nBatches": nb, "poolSize": pool.size})
    try:
        res = run_worker(worker, pool, path, task_args=("X",), n_batches=nb, n_prior_samples=n_prior, samples_idx=idx)
        impl = dict(n=len(pool.tasks), order=list(res))
    except ValueError as e:
        impl = dict(error="value")
        res = None
    ctx.evaluated("run_worker=Batch.runWorker*", (n_file, mode, nb, pool.size), sample=inp)
    ctx.count(f"runworker:{mode}")
    if "error" in m or "error" in impl:
        if ("error" in m) != ("error" in impl):
            ctx.violation("run_worker=Batch.runWorker*", g, inp, impl, m,
                          "run_worker must refuse n_prior_samples together with samples_idx and nothing else")
        return
    # property on the implementation: tasks cover the requested rows in order, results in task order
    if idx is None:
        n = m["nSamples"]
        why = predicate([[t[0], t[1]] for t in pool.tasks], n, 0, None)
        impl_tasks = [[int(t[0][0]), int(t[0][1])] for t in pool.tasks]
        model_tasks = m["tasks"]
    else:
        why = predicate([[t[0], t[1]] for t in pool.tasks], len(idx), 0, idx)
        impl_tasks = [[int(v) for v in t[0]] for t in pool.tasks]
        model_tasks = [[int(v) for v in idx[a:b]] for a, b in m["tasks"]]
    if why is None and list(res) != list(range(len(pool.tasks))):
        why = f"results not in task order: {list(res)}"
    if why is None and any(t[2:] != ("X",) for t in pool.tasks):
        why = "task args not passed through"
    if why is not None:
        ctx.violation("run_worker=Batch.runWorker*", g, inp, impl_tasks, model_tasks,
                      "run_worker's tasks must cover exactly the requested rows, in order; results in task order: " + why)
    elif impl_tasks != model_tasks:
        ctx.mismatch("run_worker=Batch.runWorker*", g, inp, impl_tasks, model_tasks,
                     "run_worker's task list must equal the model's")


def run_case(ctx, g):
    kind, index = g["kind"], g["index"]
    ctx.seed = g.get("seed", ctx.seed)
    rng = ctx.case_rng(kind, index)
    if kind == "grid":
        n = index
        for nb in range(-2, n + 7):
            for start in (0, 1, 3):
                for use_arr in (False, True):
                    one(ctx, g, n, nb, start, use_arr)
    elif kind == "random":
        big = rng.random() < 0.5
        n = int(rng.integers(1, 10**6)) if big else int(rng.integers(1, 3000))
        if big:   # many rows, few batches (the realistic shape) or more batches than rows
            nb = int(rng.choice([rng.integers(1, 64), n + 1, 2 * n, 0, -5]))
        else:
            nb = int(rng.choice([rng.integers(1, 64), rng.integers(1, n + 1), n, n + 1, n - 1 if n > 1 else 1, 0, -5]))
        start = int(rng.integers(0, 10**5))
        use_arr = bool(rng.random() < 0.3) and n < 5000
        one(ctx, g, n, nb, start, use_arr, rng=rng)
    elif kind == "huge":
        # counts beyond 32-bit (and around the 2^31 / 2^32 / 2^63 boundaries): Python ints do not wrap, a
        # vectorised rewrite with a fixed-width dtype would
        base = int(rng.choice([2**31, 2**32, 2**40, 2**53, 2**62]))
        n = base + int(rng.integers(-3, 1000)) if rng.random() < 0.7 else int(rng.integers(2**31, 2**34))
        nb = int(rng.choice([rng.integers(1, 64), 1, 2, 16, 33]))
        start = int(rng.choice([0, 1, 2**31 - 1, 2**32 + 5, rng.integers(0, 2**33)]))
        if rng.random() < 0.3:      # the sum crosses the boundary although both terms are below it
            n, start = 2**31 - int(rng.integers(1, 50)), int(rng.integers(40, 1000))
        ctx.count("huge")
        one(ctx, g, n, nb, start, False, rng=rng)
        if rng.random() < 0.3:
            # array form with a lazy sequence (a range object is sliceable and costs nothing)
            from thejoker.utils import batch_tasks
            arr = range(7, 7 + n)
            tasks = batch_tasks(n, nb, arr=arr, start_idx=0)
            m = ctx.model({"op": "batch.tasks", "n": n, "nb": nb, "start": 0})["tasks"]
            impl = [[t[0].start - 7, t[0].stop - 7] if len(t[0]) else [None, None] for t in tasks]
            ctx.evaluated("batch_tasks=Batch.batchTasks", (n, nb, 0, "range"))
            ok = impl == m and [int(t[1]) for t in tasks] == [p_[0] for p_ in m] and all(t[0].step == 1 for t in tasks)
            if not ok:
                ctx.violation("batch_tasks=Batch.batchTasks", g, dict(n_tasks=n, n_batches=nb, start_idx=0, arr="range(7, 7+n)"),
                              dict(tasks=impl[:6]), dict(tasks=m[:6]),
                              "array batches must be exactly the consecutive slices of the supplied sequence, each with its own start index",
                              tags=dict(form="arr"))
    elif kind == "runworker":
        runworker_case(ctx, g, rng)


def post(ctx):
    import shutil
    ctx.rule = RULE
    ctx.extra["exhaustive"] = False
    ctx.extra["exhaustive_note"] = "the grid part is exhaustive for n_tasks<=N, n_batches in -2..n+6, start in {0,1,3}, both forms"
    ctx.require("remainder cases", ctx.counters["remainder"], 100)
    ctx.require("n_batches>n_tasks cases", ctx.counters["nb>n"], 50)
    ctx.require("array-form cases", ctx.counters["form:arr"], 100)
    ctx.require("task counts beyond 2^31", ctx.counters["huge"], 20)
    ctx.require("run_worker with samples_idx", ctx.counters["runworker:idx"], 1)
    for p in _files.values():
        shutil.rmtree(os.path.dirname(p), ignore_errors=True)
