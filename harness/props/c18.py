"""C18 - only priors and data satisfying the sampler's assumptions are accepted.

Tie: a mutation generator over INPUTS.  Valid priors / data are generated from a declared description
(parameter name, unit string, kind of prior, container form) and broken in every way the property lists.  The
real `JokerPrior(...)`, `JokerPrior.default(...)`, `TheJoker(...)`, `marginal_ln_likelihood / rejection_sample /
setup_mcmc` run in-process; the same declared description goes to the Lean decision functions
`PriorV.validate`, `PriorV.defaultValidate`, `PriorV.validateData / samplerAccepts`, `PriorV.jokerInit`.

Compared: accept / reject, the exception class (value/type/notimpl/units; the model's `unspecified` matches any
exception), `par_names` of accepted priors.

The property's own predicate is decided by an oracle that does not use the Lean model (`wellformed_oracle`,
`data_oracle`: plain set logic over the declared description): a VIOLATION is reported only if the real code
ACCEPTS an input the oracle says is not admissible, or lists `par_names` in another order.  Any other
difference (class of the exception, a refused admissible input) is a model/implementation mismatch."""
import re

import numpy as np

NEEDS_KERNEL = False

RULE = ("exhaustive single mutations (omit / strip unit / every wrong dimension / every non-Normal kind, for every "
        "parameter) of 3+ base priors, random multi-mutations with container-form and shadowing variants, "
        "JokerPrior.default argument mutations, data-source/offset-count mutations through 4 entry points, "
        "TheJoker(...) argument mutations; non-trivial = the input is NOT admissible (a reject must happen) or "
        "was produced by a mutation that keeps it admissible; distinct = distinct declared description")

# unit pool with hand-written dimension vectors (length, time, angle, mass): independent of astropy's own logic
UNITS = {
    "day": (0, 1, 0, 0), "yr": (0, 1, 0, 0), "hour": (0, 1, 0, 0), "s": (0, 1, 0, 0),
    "": (0, 0, 0, 0), "percent": (0, 0, 0, 0),
    "rad": (0, 0, 1, 0), "deg": (0, 0, 1, 0), "arcmin": (0, 0, 1, 0),
    "km/s": (1, -1, 0, 0), "m/s": (1, -1, 0, 0), "cm/s": (1, -1, 0, 0), "au/yr": (1, -1, 0, 0),
    "km/s/day": (1, -2, 0, 0), "m/s2": (1, -2, 0, 0), "m/s/yr": (1, -2, 0, 0),
    "km/s/day2": (1, -3, 0, 0), "m/s3": (1, -3, 0, 0),
    "m/s4": (1, -4, 0, 0), "m/s5": (1, -5, 0, 0), "km/s/day4": (1, -5, 0, 0),
    "km": (1, 0, 0, 0), "kg": (0, 0, 0, 1), "1/day": (0, -1, 0, 0), "rad/s": (0, -1, 1, 0), "km2/s": (2, -1, 0, 0),
    "Msun": (0, 0, 0, 1), "deg2": (0, 0, 2, 0),
    # high-order trend terms and their "unnamed dimension" neighbours (astropy has no physical-type name beyond
    # length/time^6, so a check that compares type *names* cannot tell these apart)
    "km/s/day5": (1, -6, 0, 0), "m/s7": (1, -7, 0, 0), "km/s/day6": (1, -7, 0, 0), "km/s/day7": (1, -8, 0, 0),
    "m/s9": (1, -9, 0, 0), "km/s/day8": (1, -9, 0, 0), "km/s/day9": (1, -10, 0, 0),
    # logarithmic ("function") units: equivalent to a velocity / time for astropy's is_equivalent, but a Normal in dex or mag
    # is not a Normal in the quantity; for the validator they are of another dimension
    "dex(km / s)": (101, -101, 0, 0), "mag(km / s)": (102, -102, 0, 0), "dex(d)": (0, 103, 0, 0),
    "kg m/s/day6": (1, -7, 0, 1), "km2/s/day7": (2, -8, 0, 0), "km/day9": (1, -9, 0, 0), "rad/s8": (0, -8, 1, 0),
}
BY_DIM = {}
for _u, _d in UNITS.items():
    BY_DIM.setdefault(_d, []).append(_u)

OTHER_RV = ["uniform", "halfnormal", "studentt", "truncnormal", "lognormal", "beta", "uniformlog", "laplace", "mvnormal"]
KIND_OF = dict(normal="normal", fcm="fcm", normal_dep_sigma="normalDep", normal_dep_mu="normalDep", normal_dep_symbolic="normalDep", determ="unnamedOp", expr="unnamedOp", const="noOwner", pyfloat="noOwner",
               fake="notTensor", **{k: "otherRV" for k in OTHER_RV})
KIND_OF["uniformlog"] = "unnamedOp"     # thejoker's own UniformLogRV has no `_print_name`
# FixedCompanionMass: "fcm" is built on the prior's OWN P and e (the only dependence the kernel implements); on other
# variables ("fcm_foreign", or "fcm" when the description has no usable P / e) or with a random mean ("fcm_dep_mu") it is
# a dependent Normal like any other
KIND_OF["fcm_foreign"] = "normalDep"
KIND_OF["fcm_dep_mu"] = "normalDep"
REGISTERS = {"normal", "fcm", "fcm_foreign", "fcm_dep_mu", "determ", "normal_dep_sigma", "normal_dep_mu", "normal_dep_symbolic"} | set(OTHER_RV)     # kinds that enter model.named_vars
NOT_A_TENSOR = ("fake", "pyfloat")


def resolve_fcm(entries):
    """mark every FixedCompanionMass entry with what it is built on, from the description alone (dict semantics: the last
    entry called P / e counts)"""
    last = {}
    for e in entries:
        if e["name"] in ("P", "e") and not e.get("misnamed"):
            last[e["name"]] = e
    own = all(n in last and last[n]["dk"] not in NOT_A_TENSOR and not last[n]["dk"].startswith("fcm") for n in ("P", "e"))
    for e in entries:
        if e["dk"] in ("fcm", "fcm_dep_mu"):
            e["fcm_on"] = "own" if own else "foreign"
    # where the harness will create each variable (see make_var / build_vars): the first variable of a name goes into the
    # prior's model, a later one of the same name has to live in another pymc model (one model cannot hold two variables of
    # one name) - such a variable is NOT what `prior.model[name]` is
    taken = set()
    for e in [x for x in entries if not x["dk"].startswith("fcm")] + [x for x in entries if x["dk"].startswith("fcm")]:
        vn = e["name"] + "_alt" if e.get("misnamed") else e["name"]
        if e["dk"] in REGISTERS:
            e["registered"] = vn not in taken
            taken.add(vn)
        else:
            e["registered"] = True
    return entries


def kof(e):
    """Lean kind of a declared entry"""
    if e["dk"] == "fcm" and e.get("fcm_on") == "foreign":
        return "normalDep"
    return KIND_OF[e["dk"]]


def build_vars(entries, models, vname=lambda e: e["name"]):
    """the declared variables, in the order of `entries`; FixedCompanionMass entries are built last, on the P and e
    variables of the description when it has them"""
    built = [None] * len(entries)
    own = {}
    for i, e in enumerate(entries):
        if not e["dk"].startswith("fcm"):
            built[i] = attach_unit(make_var(vname(e), e["dk"], models), e["unit"], vname(e))
            if e["name"] in ("P", "e") and not e.get("misnamed"):
                own[e["name"]] = built[i]
    for i, e in enumerate(entries):
        if e["dk"].startswith("fcm"):
            use = own if (e.get("fcm_on") == "own" and e["dk"] != "fcm_foreign") else None
            try:
                built[i] = attach_unit(make_var(vname(e), e["dk"], models, own=use), e["unit"], vname(e))
            except Exception:
                # FixedCompanionMass itself refuses P / e variables whose declared units are not a time / a number (a
                # mutated description): the prior is then declared on stand-in variables; JokerPrior must refuse the
                # description at its unit check in any case
                if use is None:
                    raise
                built[i] = attach_unit(make_var(vname(e), e["dk"], models, own=None), e["unit"], vname(e))
    return built


_TREND = re.compile(r"v(0|[1-9][0-9]*)")
_OFFSET = re.compile(r"dv0_(0|[1-9][0-9]*)")


def canon_dim(name):
    """dimension the unit of a required parameter must have (None for names thejoker never asks for)"""
    if name == "P":
        return (0, 1, 0, 0)
    if name == "e":
        return (0, 0, 0, 0)
    if name in ("omega", "M0"):
        return (0, 0, 1, 0)
    if name in ("s", "K") or _OFFSET.fullmatch(name):
        return (1, -1, 0, 0)
    m = _TREND.fullmatch(name)
    if m:
        return (1, -1 - int(m.group(1)), 0, 0)
    return None


def expected_names(p, q):
    """the order the property demands: nonlinear, then K and the trend terms, then the offsets"""
    return ["P", "e", "omega", "M0", "s", "K"] + [f"v{i}" for i in range(max(p, 0))] + [f"dv0_{j}" for j in range(1, q + 1)]


# ------------------------------------------------------------------------------------------------
# declared description -> real objects


class Fake:
    """an object that is not a tensor (no `.owner`) but carries a name and a unit attribute"""

    def __init__(self, name):
        self.name = name


_aux = [0]


def make_var(name, dk, models, own=None):
    """create the prior variable `name` of detailed kind `dk` inside models[0] (or models[1] when the name is
    already taken there: pymc refuses two variables with one name in a model)"""
    import pymc as pm
    import pytensor.tensor as pt
    import astropy.units as u
    from thejoker.distributions import FixedCompanionMass, UniformLog
    model = models[0]
    if dk in REGISTERS and name in model.named_vars:
        model = models[1]
        if name in model.named_vars:
            models.append(pm.Model())
            model = models[-1]
    _aux[0] += 1
    aux = f"aux{_aux[0]}"
    with model:
        if dk == "normal":
            return pm.Normal(name, 0.5, 10.0)
        if dk == "normal_dep_sigma":      # a Normal whose width is a function of another random variable: not independent
            return pm.Normal(name, 0.0, 1.0 + pm.HalfNormal(aux, 3.0))
        if dk == "normal_dep_symbolic":   # the random parent is a pymc "symbolic" RV (Truncated): its RandomVariable sits in an inner graph
            return pm.Normal(name, 0.0, 1.0 + pm.Truncated(aux, pm.LogNormal.dist(0.0, 1.0), lower=0.1, upper=10.0))
        if dk == "normal_dep_mu":         # a Normal whose mean is another random variable (hyper-prior)
            return pm.Normal(name, pm.Normal(aux, 0.0, 2.0), 5.0)
        if dk in ("fcm", "fcm_foreign", "fcm_dep_mu"):
            if own is not None:
                Pv, ev = own["P"], own["e"]
            else:
                Pv, ev = pm.Uniform(aux + "P", 1.0, 10.0), pm.Uniform(aux + "e", 0.0, 0.5)
            kw_ = dict(mu=pm.Normal(aux + "mu", 0.0, 20.0)) if dk == "fcm_dep_mu" else {}
            return FixedCompanionMass(name, P=Pv, e=ev, sigma_K0=30 * u.km / u.s, P0=1 * u.yr, **kw_)
        if dk == "uniform":
            return pm.Uniform(name, 0.0, 6.0)
        if dk == "halfnormal":
            return pm.HalfNormal(name, 10.0)
        if dk == "studentt":
            return pm.StudentT(name, nu=3, mu=0.0, sigma=10.0)
        if dk == "truncnormal":
            return pm.TruncatedNormal(name, mu=0.0, sigma=10.0, lower=0.0)
        if dk == "lognormal":
            return pm.Lognormal(name, 0.0, 1.0)
        if dk == "beta":
            return pm.Beta(name, 1.0, 3.0)
        if dk == "uniformlog":
            return UniformLog(name, 1.0, 100.0)
        if dk == "laplace":
            return pm.Laplace(name, 0.0, 3.0)
        if dk == "mvnormal":
            return pm.MvNormal(name, mu=np.zeros(1), cov=np.eye(1))
        if dk == "determ":
            return pm.Deterministic(name, 2.0 * pm.Normal(aux, 0.0, 1.0))
        if dk == "expr":
            v = 2.0 * pm.Normal(aux, 0.0, 1.0)
            v.name = name
            return v
        if dk == "const":
            return pt.constant(3.0, name=name)
        if dk == "pyfloat":
            return 3.0
        if dk == "fake":
            return Fake(name)
    raise KeyError(dk)


def attach_unit(v, unit, name):
    import astropy.units as u
    import thejoker.units as xu
    if unit is None:
        return v
    un = {"dex(km / s)": u.dex(u.km / u.s), "mag(km / s)": u.mag(u.km / u.s), "dex(d)": u.dex(u.day)}.get(unit) or u.Unit(unit)
    if isinstance(v, Fake):
        setattr(v, xu.UNIT_ATTR_NAME, un)
        return v
    v = xu.with_unit(v, un)
    if getattr(v, "name", None) is None:
        v.name = name
    return v


def classify(e):
    """exception -> the small enum of classes"""
    import astropy.units as u
    if isinstance(e, u.UnitsError):
        return "units"
    if isinstance(e, NotImplementedError):
        return "notimpl"
    if isinstance(e, ValueError):
        return "value"
    if isinstance(e, TypeError):
        return "type"
    return "other:" + type(e).__name__


def agree(model_ans, impl):
    """model answer {ok:..}|{error:cls} vs impl ('ok', names) | ('error', cls)"""
    if "ok" in model_ans:
        return impl[0] == "ok"
    if impl[0] != "error":
        return False
    return model_ans["error"] == "unspecified" or model_ans["error"] == impl[1]


# ------------------------------------------------------------------------------------------------
# JokerPrior(...)


def base_spec(rng, p, q):
    def pick(dim):
        return str(rng.choice(BY_DIM[dim]))
    spec = dict(p=p, q=q, poly=p, model="ok", form=str(rng.choice(["dict", "dict", "list", "pairs", "none"])),
                offsets_arg="list", pars=[], offsets=[])
    spec["pars"].append(dict(name="P", unit=pick((0, 1, 0, 0)), dk=str(rng.choice(["uniformlog", "normal", "lognormal", "determ", "const"]))))
    spec["pars"].append(dict(name="e", unit=pick((0, 0, 0, 0)), dk=str(rng.choice(["beta", "uniform", "const"]))))
    for n in ("omega", "M0"):
        spec["pars"].append(dict(name=n, unit=pick((0, 0, 1, 0)), dk=str(rng.choice(["uniform", "determ", "normal"]))))
    spec["pars"].append(dict(name="s", unit=pick((1, -1, 0, 0)), dk=str(rng.choice(["lognormal", "const", "determ", "pyfloat"]))))
    spec["pars"].append(dict(name="K", unit=pick((1, -1, 0, 0)), dk=str(rng.choice(["normal", "fcm"]))))
    for i in range(max(p, 0)):
        spec["pars"].append(dict(name=f"v{i}", unit=pick((1, -1 - i, 0, 0)), dk="normal"))     # FixedCompanionMass is admissible for K only
    for j in range(1, q + 1):
        spec["offsets"].append(dict(name=f"dv0_{j}", unit=pick((1, -1, 0, 0)), dk="normal"))
    rng.shuffle(spec["pars"])
    return spec


def fix_form(spec):
    """container forms that cannot express the description fall back to a dict"""
    kinds = [e["dk"] for e in spec["pars"]]
    if spec["form"] == "none" and any(k not in REGISTERS for k in kinds):
        spec["form"] = "dict"
    if spec["form"] in ("list",) and any(k == "pyfloat" and e["unit"] is None for k, e in zip(kinds, spec["pars"])):
        spec["form"] = "dict"
    names = [e["name"] for e in spec["pars"]]
    if spec["form"] in ("dict",) and len(set(names)) != len(names):
        spec["form"] = "list"       # duplicates need an ordered container
    if spec["form"] == "none" and len(set(names)) != len(names):
        spec["form"] = "list"
    return spec


def effective_env(spec):
    """the dictionary JokerPrior ends up with, derived from the declaration: later entries replace earlier ones;
    offsets are entered under their own names after the parameters.  -> {name: (dim|None, kind)}, aux entries"""
    env = {}
    for e in spec["pars"] + (spec["offsets"] if spec["offsets_arg"] in ("list", "tuple") else []):
        env[e["name"]] = (None if e["unit"] is None else UNITS[e["unit"]], kof(e), not e.get("misnamed"), e.get("registered", True))
    return env


def wellformed_oracle(spec):
    """the property's predicate on the declared description (independent of the Lean model):
    returns (admissible, why_not)"""
    if spec["model"] != "ok":
        return False, "model is not a pymc Model"
    if spec["form"] == "bad":
        return False, "pars cannot be interpreted"
    try:
        p = int(spec["poly"])
    except Exception:
        return False, "poly_trend is not an integer"
    if spec["offsets_arg"] == "notiter":
        return False, "v0_offsets is not iterable"
    if spec["form"] == "single":
        env = {}
        if spec["pars"]:
            e = spec["pars"][0]
            env[e["name"]] = (None if e["unit"] is None else UNITS[e["unit"]], kof(e), not e.get("misnamed"), e.get("registered", True))
        for e in spec["offsets"]:
            env[e["name"]] = (None if e["unit"] is None else UNITS[e["unit"]], kof(e), not e.get("misnamed"), e.get("registered", True))
    else:
        env = effective_env(spec)
    q = len(spec["offsets"])
    need = expected_names(p, q)
    for n in need:
        if n not in env:
            return False, f"{n} missing"
        if env[n][0] is None:
            return False, f"{n} has no unit"
        if env[n][0] != canon_dim(n):
            return False, f"{n} has a unit of the wrong dimension"
        if len(env[n]) > 2 and not env[n][2]:
            return False, f"the variable given for {n} has another name in the pymc model (the likelihood helper would use model['{n}'])"
    for n in need[5:]:
        if not (env[n][1] == "normal" or (env[n][1] == "fcm" and n == "K")):
            return False, f"linear parameter {n} is not an independent Normal (FixedCompanionMass: K only)"
        if len(env[n]) > 3 and not env[n][3]:
            return False, f"the prior given for the linear parameter {n} is not the variable the prior's pymc model holds under that name"
    return True, None


def model_op(spec):
    def par(e):
        return dict(name=e["name"], unit=None if e["unit"] is None else list(UNITS[e["unit"]]), kind=kof(e),
                    named=not e.get("misnamed"), registered=e.get("registered", True))
    try:
        poly = int(spec["poly"])
    except Exception:
        poly = None
    pars = [par(e) for e in spec["pars"]]
    if spec["form"] == "single":
        pars = pars[:1]
    return {"op": "prior.validate", "modelOk": spec["model"] == "ok",
            "parsStatus": "invalid" if spec["form"] == "bad" else "ok",
            "polyTrend": poly, "offsetsIterable": spec["offsets_arg"] != "notiter",
            "pars": pars, "offsets": [par(e) for e in spec["offsets"]]}


def run_prior(spec):
    """build the declared objects and call the real JokerPrior"""
    import pymc as pm
    import thejoker as tj
    models = [pm.Model(), pm.Model()]
    def vname(e):
        # a variable stored under the key e["name"] but called something else in the pymc model
        return e["name"] + "_alt" if e.get("misnamed") else e["name"]
    allv = build_vars(spec["pars"] + spec["offsets"], models, vname)
    pars = [(e["name"], v) for e, v in zip(spec["pars"], allv)]
    offs = allv[len(spec["pars"]):]
    kw = {}
    form = spec["form"]
    if form == "dict":
        kw["pars"] = dict(pars)
    elif form == "list":
        kw["pars"] = [v for _, v in pars]
    elif form == "pairs":
        kw["pars"] = list(pars)
    elif form == "single":
        kw["pars"] = pars[0][1]
    elif form == "bad":
        kw["pars"] = 5
    kw["model"] = models[0] if spec["model"] == "ok" else 5
    if spec["offsets_arg"] == "list":
        kw["v0_offsets"] = offs
    elif spec["offsets_arg"] == "tuple":
        kw["v0_offsets"] = tuple(offs)
    elif spec["offsets_arg"] == "notiter":
        kw["v0_offsets"] = 5
    kw["poly_trend"] = spec["poly"]
    try:
        prior = tj.JokerPrior(**kw)
        return ("ok", list(prior.par_names))
    except Exception as e:  # noqa
        return ("error", classify(e), f"{type(e).__name__}: {str(e)[:120]}")


def judge_prior(ctx, g, spec, tag):
    rel = "JokerPrior()=PriorV.validate"
    spec = fix_form(spec)
    resolve_fcm(spec["pars"] + spec["offsets"])
    impl = run_prior(spec)
    m = ctx.model(model_op(spec))
    ok, why = wellformed_oracle(spec)
    key = repr(sorted((k, repr(v)) for k, v in spec.items()))
    ctx.evaluated(rel, key if (not ok or tag != "base") else None, sample=dict(spec=spec, impl=impl[:2], model=m))
    ctx.count(f"prior:{tag}")
    ctx.count("prior:admissible" if ok else "prior:inadmissible")
    if impl[0] == "error":
        ctx.count(f"prior:raised:{impl[1]}")
    tags = dict(entry="JokerPrior", mutation=tag)
    if impl[0] == "ok" and not ok:
        ctx.violation(rel, g, spec, impl, m, "JokerPrior must raise because " + why, tags=tags)
        return
    if impl[0] == "ok":
        want = expected_names(int(spec["poly"]), len(spec["offsets"]))
        if impl[1] != want:
            ctx.violation(rel, g, spec, impl, want, "accepted priors list parameters as nonlinear, linear, offsets", tags=tags)
            return
        if m.get("ok") != impl[1]:
            ctx.mismatch(rel, g, spec, impl, m, "par_names must equal the model's list", tags=tags)
        return
    if not agree(m, impl):
        ctx.mismatch(rel, g, spec, impl, m, "accept/reject and exception class must agree with the model "
                     f"(oracle: admissible={ok})", tags=tags)


DIM_POOL = sorted(set(UNITS.values()))
# JokerPrior.default's scalar arguments (P_min, P0, sigma_K0, sigma_v, ...) are not exercised with logarithmic units (its
# quantity_input validation accepts them; recorded in DESIGN 7.13 as not covered): physical dimensions only
PHYS_DIM_POOL = [d_ for d_ in DIM_POOL if max(abs(x_) for x_ in d_) < 50]
LIN_BAD_KINDS = OTHER_RV + ["normal_dep_sigma", "normal_dep_mu", "normal_dep_symbolic", "fcm_foreign", "fcm_dep_mu", "determ", "expr", "const", "pyfloat", "fake"]


def copy_spec(spec):
    import copy
    return copy.deepcopy(spec)


def single_mutations(spec, rng):
    """every single-step way of breaking (or harmlessly changing) the prior"""
    names = [e["name"] for e in spec["pars"]] + [e["name"] for e in spec["offsets"]]
    p, q = spec["p"], len(spec["offsets"])

    def entry(s, n):
        for e in s["pars"] + s["offsets"]:
            if e["name"] == n:
                return e
    out = []
    for n in names:
        s = copy_spec(spec)
        s["pars"] = [e for e in s["pars"] if e["name"] != n]
        if n.startswith("dv0_"):
            s["offsets"] = [e for e in s["offsets"] if e["name"] != n]     # also lowers q: stays admissible if last
        out.append((f"omit", s))
        s = copy_spec(spec)
        entry(s, n)["unit"] = None
        out.append(("nounit", s))
        for d in DIM_POOL:
            s = copy_spec(spec)
            entry(s, n)["unit"] = str(rng.choice(BY_DIM[d]))
            out.append(("dim" if d != canon_dim(n) else "unit-same-dim", s))
        if not n.startswith("dv0_") and entry(spec, n)["dk"] in REGISTERS:
            # the key and the name of the variable differ (a second prior in one pymc model needs other variable names)
            s = copy_spec(spec)
            entry(s, n)["misnamed"] = True
            s["form"] = str(rng.choice(["dict", "pairs"]))
            out.append(("misnamed", s))
        lin = n == "K" or bool(_TREND.fullmatch(n)) or bool(_OFFSET.fullmatch(n))
        for dk in LIN_BAD_KINDS + ["normal", "fcm"]:
            s = copy_spec(spec)
            entry(s, n)["dk"] = dk
            ok_kind = dk == "normal" or (dk == "fcm" and n == "K")
            out.append((("kind-linear-ok" if ok_kind else "kind-linear-bad") if lin else "kind-nonlinear", s))
    # offsets: wrong names, order
    for j in range(1, q + 1):
        for bad in (f"dv0_{j-1}" if j == 1 else f"dv0_{q+1}", f"dv_{j}", f"dv0_0{j}", f"v0_{j}", f"dv0_{q+1}"):
            s = copy_spec(spec)
            s["offsets"][j - 1]["name"] = bad
            out.append(("offset-name", s))
    if q >= 2:
        s = copy_spec(spec)
        s["offsets"] = s["offsets"][::-1]
        out.append(("offset-order", s))
    if q >= 1:
        s = copy_spec(spec)
        s["offsets_arg"] = "tuple"
        out.append(("offset-tuple", s))
        # offsets passed inside pars only (v0_offsets omitted): q becomes 0, stays admissible
        s = copy_spec(spec)
        s["pars"] += s["offsets"]
        s["offsets"] = []
        out.append(("offset-in-pars", s))
        # shadowing: a Uniform offset prior in pars, the Normal one in v0_offsets (wins) and the reverse
        s = copy_spec(spec)
        s["pars"].append(dict(name=s["offsets"][0]["name"], unit="km/s", dk="uniform"))
        out.append(("shadow-harmless", s))
        s = copy_spec(spec)
        s["pars"].append(dict(name=s["offsets"][0]["name"], unit="km/s", dk="normal"))
        s["offsets"][0]["dk"] = "uniform"
        out.append(("shadow-bad", s))
    # poly_trend against the parameters present
    for dp in (-1, 1, 2):
        s = copy_spec(spec)
        s["poly"] = p + dp
        out.append(("poly-shift", s))
    for bad in ("a", None, "2", 1.7, [1]):
        s = copy_spec(spec)
        s["poly"] = bad
        out.append(("poly-value", s))
    for key, val in (("model", "bad"), ("form", "bad"), ("form", "single"), ("offsets_arg", "notiter"),
                     ("form", "list"), ("form", "pairs"), ("form", "none"), ("form", "dict")):
        s = copy_spec(spec)
        s[key] = val
        out.append((f"{key}:{val}", s))
    # later duplicate replaces an earlier entry (list form)
    for n, dk, tag in (("K", "uniform", "dup-bad-last"), ("v0", "halfnormal", "dup-bad-last")):
        if n in names:
            s = copy_spec(spec)
            s["form"] = "list"
            s["pars"].append(dict(name=n, unit="km/s", dk=dk))
            out.append((tag, s))
            s = copy_spec(spec)
            s["form"] = "list"
            s["pars"].insert(0, dict(name=n, unit="km/s", dk=dk))
            out.append(("dup-bad-first", s))
    s = copy_spec(spec)
    s["pars"].append(dict(name="extra_par", unit=None, dk="uniform"))
    out.append(("extra-par", s))
    return out


BASES = [(1, 0), (2, 1), (8, 1), (3, 2), (0, 0), (1, 3), (4, 0), (2, 2), (1, 1), (9, 0)]


def grid_case(ctx, g, rng, index):
    p, q = BASES[index % len(BASES)]
    spec = base_spec(rng, p, q)
    judge_prior(ctx, g, copy_spec(spec), "base")
    # single mutations only discriminate when the base itself is admissible
    _sp = fix_form(copy_spec(spec))
    resolve_fcm(_sp["pars"] + _sp["offsets"])
    if wellformed_oracle(_sp)[0]:
        ctx.count("grid: base prior admissible")
    for tag, s in single_mutations(spec, rng):
        judge_prior(ctx, g, s, tag)


def random_case(ctx, g, rng):
    p = int(rng.choice([1, 1, 2, 3, 0, 5, 7, 8, 9]))
    q = int(rng.choice([0, 0, 1, 2, 4]))
    spec = base_spec(rng, p, q)
    k = int(rng.choice([0, 2, 2, 3]))
    tag = "base"
    for _ in range(k):
        muts = single_mutations(spec, rng)
        tag, spec = muts[int(rng.integers(0, len(muts)))]
        spec["p"] = p
        spec["q"] = len(spec["offsets"])
    judge_prior(ctx, g, spec, "multi" if k else "base")


# ------------------------------------------------------------------------------------------------
# JokerPrior.default(...)


def q_arg(a):
    """declared quantity argument -> python object; a = None | 'bare' | unit string"""
    import astropy.units as u
    if a is None:
        return None
    if a == "bare":
        return 3.5
    return 3.5 * u.Unit(a)


def q_json(a):
    if a is None:
        return None
    if a == "bare":
        return "bare"
    return list(UNITS[a])


def default_base(rng, p, q):
    def pick(dim):
        return str(rng.choice(BY_DIM[dim]))
    d = dict(model="ok", P_min=pick((0, 1, 0, 0)), P_max=pick((0, 1, 0, 0)), sigma_K0=pick((1, -1, 0, 0)),
             P0=pick((0, 1, 0, 0)), s=None, poly=p, offsets_arg="list", offsets=[], user=[])
    form = str(rng.choice(["list", "tuple", "dict", "scalar"] if p == 1 else ["list", "tuple", "dict"]))
    items = [pick((1, -1 - i, 0, 0)) for i in range(max(p, 0))]
    if form == "scalar":
        d["sigma_v"] = dict(form="scalar", unit=items[0])
    elif form == "dict":
        d["sigma_v"] = dict(form="dict", items=[[f"v{i}", it] for i, it in enumerate(items)])
    else:
        d["sigma_v"] = dict(form=form, items=items)
    r = rng.random()
    if r < 0.25:
        d["s"] = pick((1, -1, 0, 0))
    elif r < 0.4:
        d["s"] = dict(tensor=True, unit=pick((1, -1, 0, 0)), dk="lognormal")
    for j in range(1, q + 1):
        d["offsets"].append(dict(name=f"dv0_{j}", unit=pick((1, -1, 0, 0)), dk="normal"))
    return d


def default_mutations(d, rng):
    p = d["poly"] if isinstance(d["poly"], int) else 1
    out = []

    def mut(tag, **kw):
        s = copy_spec(d)
        s.update(kw)
        out.append((tag, s))
    for key, dim in (("P_min", (0, 1, 0, 0)), ("P_max", (0, 1, 0, 0)), ("sigma_K0", (1, -1, 0, 0)), ("P0", (0, 1, 0, 0))):
        mut(f"{key}:missing", **{key: None})
        mut(f"{key}:bare", **{key: "bare"})
        for dd in PHYS_DIM_POOL:
            if dd != dim:
                mut(f"{key}:dim", **{key: str(rng.choice(BY_DIM[dd]))})
    mut("s:bare", s="bare")
    for dd in PHYS_DIM_POOL:
        mut("s:dim" if dd != (1, -1, 0, 0) else "s:ok", s=str(rng.choice(BY_DIM[dd])))
    mut("s:tensor", s=dict(tensor=True, unit="km/s", dk="lognormal"))
    mut("s:tensor-nounit", s=dict(tensor=True, unit=None, dk="lognormal"))
    mut("s:tensor-dim", s=dict(tensor=True, unit="day", dk="lognormal"))
    # sigma_v
    mut("sigma_v:missing", sigma_v=None)
    mut("sigma_v:bare", sigma_v="bare")
    mut("sigma_v:array", sigma_v="array")
    mut("sigma_v:scalar", sigma_v=dict(form="scalar", unit="km/s"))
    mut("sigma_v:scalar-dim", sigma_v=dict(form="scalar", unit="day"))
    base_items = [str(rng.choice(BY_DIM[(1, -1 - i, 0, 0)])) for i in range(max(p, 0))]
    for form in ("list", "tuple"):
        mut("sigma_v:short", sigma_v=dict(form=form, items=base_items[:-1]))
        mut("sigma_v:long", sigma_v=dict(form=form, items=base_items + ["km/s"]))
        for i in range(len(base_items)):
            for dd in PHYS_DIM_POOL:
                it = list(base_items)
                it[i] = str(rng.choice(BY_DIM[dd]))
                mut("sigma_v:item-dim" if dd != (1, -1 - i, 0, 0) else "sigma_v:item-ok", sigma_v=dict(form=form, items=it))
            it = list(base_items)
            it[i] = "bare"
            mut("sigma_v:item-bare", sigma_v=dict(form=form, items=it))
    if p >= 1:
        mut("sigma_v:dict-missing", sigma_v=dict(form="dict", items=[[f"v{i}", it] for i, it in enumerate(base_items)][1:]))
        mut("sigma_v:dict-extra", sigma_v=dict(form="dict", items=[[f"v{i}", it] for i, it in enumerate(base_items)] + [["v9", "km/s"]]))
        mut("sigma_v:dict-rev", sigma_v=dict(form="dict", items=[[f"v{i}", it] for i, it in enumerate(base_items)][::-1]))
    for bad in ("a", None, p + 1, p - 1, 0):
        mut("poly", poly=bad)
    mut("model:bad", model="bad")
    mut("offsets:notiter", offsets_arg="notiter")
    mut("offsets:extra", offsets=d["offsets"] + [dict(name=f"dv0_{len(d['offsets'])+1}", unit="m/s", dk="normal")])
    mut("offsets:badname", offsets=d["offsets"] + [dict(name="dv0_9", unit="m/s", dk="normal")])
    mut("offsets:uniform", offsets=d["offsets"] + [dict(name=f"dv0_{len(d['offsets'])+1}", unit="m/s", dk="uniform")])
    mut("offsets:dim", offsets=d["offsets"] + [dict(name=f"dv0_{len(d['offsets'])+1}", unit="day", dk="normal")])
    # user-supplied parameters
    for n, unit, dk, tag in (("K", "m/s", "normal", "user-K-ok"), ("K", "m/s", "uniform", "user-K-bad"), ("K", "day", "normal", "user-K-dim"),
                             ("K", None, "normal", "user-K-nounit"), ("P", "yr", "normal", "user-P"), ("P", "km", "normal", "user-P-dim"),
                             ("e", "", "uniform", "user-e"), ("omega", "deg", "uniform", "user-omega"), ("M0", "km", "uniform", "user-M0-dim"),
                             ("s", "m/s", "lognormal", "user-s"), ("v0", "km/s", "normal", "user-v0"), ("v0", "km/s", "laplace", "user-v0-bad"),
                             ("v1", "km/s/day", "normal", "user-v1")):
        mut(tag, user=[dict(name=n, unit=unit, dk=dk)])
        if n in ("K", "P"):
            extra = {"K": dict(sigma_K0=None), "P": dict(P_min=None, P_max=None)}[n]
            mut(tag + "+nodefaultargs", user=[dict(name=n, unit=unit, dk=dk)], **extra)
    mut("user-v0+nosigma", user=[dict(name="v0", unit="km/s", dk="normal")], sigma_v=None)
    return out


def default_model_op(d):
    def par(e):
        return dict(name=e["name"], unit=None if e["unit"] is None else list(UNITS[e["unit"]]), kind=kof(e),
                    named=not e.get("misnamed"), registered=e.get("registered", True))
    sv = d["sigma_v"]
    if sv is None or sv in ("bare", "array"):
        svj = sv
    elif sv["form"] == "scalar":
        svj = dict(form="scalar", dim=list(UNITS[sv["unit"]]))
    elif sv["form"] in ("list", "tuple"):
        svj = dict(form="list", items=[q_json(i) for i in sv["items"]])
    else:
        svj = dict(form="dict", items=[dict(name=n, q=q_json(i)) for n, i in sv["items"]])
    s = d["s"]
    if isinstance(s, dict):
        sj = dict(unit=None if s["unit"] is None else list(UNITS[s["unit"]]), kind=KIND_OF[s["dk"]])
    else:
        sj = q_json(s)
    try:
        poly = int(d["poly"])
    except Exception:
        poly = None
    return {"op": "prior.default", "modelOk": d["model"] == "ok", "pMin": q_json(d["P_min"]), "pMax": q_json(d["P_max"]),
            "sigmaK0": q_json(d["sigma_K0"]), "p0": q_json(d["P0"]), "s": sj, "sigmaV": svj, "polyTrend": poly,
            "offsetsIterable": d["offsets_arg"] != "notiter", "offsets": [par(e) for e in d["offsets"]],
            "userPars": [par(e) for e in d["user"]]}


def default_oracle(d):
    """the property's predicate for JokerPrior.default: the prior that results from the declared arguments must be
    admissible; (admissible, why_not).  Independent of the Lean model: builds the resulting name->(dim,kind) table.
    Arguments that end up unused (e.g. a surplus sigma_v entry, P_min when the user supplies P) do not matter."""
    if d["model"] != "ok":
        return False, "model is not a pymc Model"
    try:
        p = int(d["poly"])
    except Exception:
        return False, "poly_trend is not an integer"
    if d["offsets_arg"] == "notiter":
        return False, "v0_offsets not iterable"
    env = {}
    user = {e["name"]: e for e in d["user"]}
    vel, tim = (1, -1, 0, 0), (0, 1, 0, 0)

    def isq(a, dim):
        return a is not None and a != "bare" and UNITS[a] == dim
    if "P" not in user:
        if not (isq(d["P_min"], tim) and isq(d["P_max"], tim)):
            return False, "period prior domain not given as two time quantities"
        env["P"] = (tim, "otherRV")
    env["e"] = ((0, 0, 0, 0), "otherRV")
    env["omega"] = ((0, 0, 1, 0), "unnamedOp")
    env["M0"] = ((0, 0, 1, 0), "unnamedOp")
    s = d["s"]
    if isinstance(s, dict):
        env["s"] = (None if s["unit"] is None else UNITS[s["unit"]], KIND_OF[s["dk"]])
    elif s is None:
        env["s"] = (vel, "unnamedOp")
    elif s == "bare":
        env["s"] = (None, "unnamedOp")
    else:
        env["s"] = (UNITS[s], "unnamedOp")
    if "K" not in user:
        if not (isq(d["sigma_K0"], vel) and isq(d["P0"], tim)):
            return False, "default K prior needs sigma_K0 [velocity] and P0 [time]"
        env["K"] = (vel, "fcm")
    sv = d["sigma_v"]
    svd = {}
    if sv is not None and sv not in ("bare", "array"):
        if sv["form"] == "scalar":
            svd = {"v0": sv["unit"]}
        elif sv["form"] == "dict":
            svd = {n: i for n, i in sv["items"]}
        else:
            svd = {f"v{i}": it for i, it in enumerate(sv["items"])}
    for i in range(max(p, 0)):
        n = f"v{i}"
        if n in user:
            continue
        if svd.get(n) in (None, "bare"):
            return False, f"no usable sigma_v for {n}"
        env[n] = (UNITS[svd[n]], "normal")
    for e in d["user"] + d["offsets"]:
        env[e["name"]] = (None if e["unit"] is None else UNITS[e["unit"]], kof(e), not e.get("misnamed"), e.get("registered", True))
    need = expected_names(p, len(d["offsets"]))
    for n in need:
        if n not in env:
            return False, f"{n} missing"
        if env[n][0] is None:
            return False, f"{n} has no unit"
        if env[n][0] != canon_dim(n):
            return False, f"{n} has a unit of the wrong dimension"
        if len(env[n]) > 2 and not env[n][2]:
            return False, f"the variable given for {n} has another name in the pymc model (the likelihood helper would use model['{n}'])"
    for n in need[5:]:
        if not (env[n][1] == "normal" or (env[n][1] == "fcm" and n == "K")):
            return False, f"linear parameter {n} is not an independent Normal (FixedCompanionMass: K only)"
        if len(env[n]) > 3 and not env[n][3]:
            return False, f"the prior given for the linear parameter {n} is not the variable the prior's pymc model holds under that name"
    return True, None


def run_default(d):
    import astropy.units as u
    import pymc as pm
    import thejoker as tj
    models = [pm.Model(), pm.Model()]
    allv = build_vars(d["user"] + d["offsets"], models)
    user = {e["name"]: v for e, v in zip(d["user"], allv)}
    offs = allv[len(d["user"]):]
    kw = dict(P_min=q_arg(d["P_min"]), P_max=q_arg(d["P_max"]), sigma_K0=q_arg(d["sigma_K0"]), P0=q_arg(d["P0"]),
              poly_trend=d["poly"], model=models[0] if d["model"] == "ok" else 5)
    s = d["s"]
    if isinstance(s, dict):
        kw["s"] = attach_unit(make_var("s", s["dk"], models), s["unit"], "s")
    else:
        kw["s"] = q_arg(s)
    sv = d["sigma_v"]
    if sv is None:
        kw["sigma_v"] = None
    elif sv == "bare":
        kw["sigma_v"] = 5.0
    elif sv == "array":
        kw["sigma_v"] = [1.0, 2.0] * u.km / u.s
    elif sv["form"] == "scalar":
        kw["sigma_v"] = q_arg(sv["unit"])
    elif sv["form"] == "list":
        kw["sigma_v"] = [q_arg(i) for i in sv["items"]]
    elif sv["form"] == "tuple":
        kw["sigma_v"] = tuple(q_arg(i) for i in sv["items"])
    else:
        kw["sigma_v"] = {n: q_arg(i) for n, i in sv["items"]}
    if d["offsets_arg"] == "notiter":
        kw["v0_offsets"] = 5
    elif offs:
        kw["v0_offsets"] = offs
    if user:
        kw["pars"] = user
    try:
        prior = tj.JokerPrior.default(**kw)
        return ("ok", list(prior.par_names))
    except Exception as e:  # noqa
        return ("error", classify(e), f"{type(e).__name__}: {str(e)[:120]}")


def judge_default(ctx, g, d, tag):
    rel = "JokerPrior.default()=PriorV.defaultValidate"
    resolve_fcm(d["user"] + d["offsets"])
    impl = run_default(d)
    m = ctx.model(default_model_op(d))
    ok, why = default_oracle(d)
    ctx.evaluated(rel, repr(sorted((k, repr(v)) for k, v in d.items())) if (not ok or tag != "base") else None,
                  sample=dict(args=d, impl=impl[:2], model=m))
    ctx.count(f"default:{tag.split(':')[0]}")
    ctx.count("default:admissible" if ok else "default:inadmissible")
    if impl[0] == "error":
        ctx.count(f"default:raised:{impl[1]}")
    tags = dict(entry="JokerPrior.default", mutation=tag)
    if impl[0] == "ok" and not ok:
        ctx.violation(rel, g, d, impl, m, "JokerPrior.default must raise because " + why, tags=tags)
        return
    if impl[0] == "ok":
        want = expected_names(int(d["poly"]), len(d["offsets"]))
        if impl[1] != want:
            ctx.violation(rel, g, d, impl, want, "accepted priors list parameters as nonlinear, linear, offsets", tags=tags)
        elif m.get("ok") != impl[1]:
            ctx.mismatch(rel, g, d, impl, m, "par_names must equal the model's list", tags=tags)
        return
    if not agree(m, impl):
        ctx.mismatch(rel, g, d, impl, m, f"accept/reject and exception class must agree with the model (oracle: admissible={ok})", tags=tags)


def default_case(ctx, g, rng, index):
    p, q = [(1, 0), (2, 1), (3, 0), (1, 2)][index % 4]
    d = default_base(rng, p, q)
    judge_default(ctx, g, copy_spec(d), "base")
    muts = default_mutations(d, rng)
    for tag, s in muts:
        judge_default(ctx, g, s, tag)
    # a few double mutations
    for _ in range(10):
        t1, s1 = muts[int(rng.integers(0, len(muts)))]
        m2 = default_mutations(s1, rng)
        t2, s2 = m2[int(rng.integers(0, len(m2)))]
        judge_default(ctx, g, s2, "multi")


# ------------------------------------------------------------------------------------------------
# data sources vs offsets, TheJoker(...)

_priors = {}


def get_prior(p, q):
    import astropy.units as u
    import pymc as pm
    import thejoker as tj
    import thejoker.units as xu
    if (p, q) not in _priors:
        with pm.Model() as model:
            offs = [xu.with_unit(pm.Normal(f"dv0_{j}", 0.0, 2.0), u.km / u.s) for j in range(1, q + 1)]
            sv = [3.0 * u.km / u.s / u.day ** i for i in range(max(p, 0))]
            prior = tj.JokerPrior.default(P_min=2 * u.day, P_max=200 * u.day, sigma_K0=30 * u.km / u.s,
                                          sigma_v=sv if p > 0 else None, poly_trend=p, v0_offsets=offs or None, model=model)
        _priors[(p, q)] = prior
    return _priors[(p, q)]


def make_samples(rng, p, q, n=6, linear=False):
    import astropy.units as u
    import thejoker as tj
    s = tj.JokerSamples(poly_trend=p, n_offsets=q)
    s["P"] = np.exp(rng.uniform(np.log(2), np.log(200), n)) * u.day
    s["e"] = rng.uniform(0, 0.8, n) * u.one
    s["omega"] = rng.uniform(0, 2 * np.pi, n) * u.rad
    s["M0"] = rng.uniform(0, 2 * np.pi, n) * u.rad
    s["s"] = np.zeros(n) * u.m / u.s
    if linear:      # setup_mcmc reads every prior parameter from the sample
        s["K"] = rng.normal(0, 5, n) * u.km / u.s
        for l in range(max(p, 0)):
            s[f"v{l}"] = rng.normal(0, 1, n) * u.km / u.s / u.day ** l
        for j in range(1, q + 1):
            s[f"dv0_{j}"] = rng.normal(0, 1, n) * u.km / u.s
    return s


def make_source(rng, kind):
    import astropy.units as u
    import thejoker as tj
    if kind == "notRV":
        return [5, None, np.arange(3.0), "abc", (np.arange(3.0), np.arange(3.0), np.ones(3)), dict(t=[1.0])][int(rng.integers(0, 6))]
    n = int(rng.integers(2, 6))
    t = 55000 + np.sort(rng.uniform(0, 300, n))
    rv = rng.normal(0, 5, n) * u.km / u.s
    if kind == "cov":
        err = np.diag(rng.uniform(0.1, 1.0, n)) * (u.km / u.s) ** 2
    else:
        err = rng.uniform(0.1, 1.0, n) * u.km / u.s
    return tj.RVData(t=t, rv=rv, rv_err=err)


def data_oracle(form, srcs, p, q):
    """property predicate: the sampler may run only if sources match the offsets and all have a supported form"""
    if form == "single":
        return (q == 0 and p >= 1), "single RVData with offset priors" if q else "poly_trend < 1"
    if form == "notIterable":
        return False, "data is not an RVData nor an iterable"
    if any(s != "rv" for s in srcs):
        return False, "a source has an unsupported form"
    if len(srcs) - 1 != q:
        return False, "number of sources - 1 != number of offset priors"
    return p >= 1, "poly_trend < 1"


def data_case(ctx, g, rng):
    import thejoker as tj
    rel = "sampler data checks=PriorV.validateData"
    q = int(rng.choice([0, 0, 1, 2, 3]))
    p = int(rng.choice([1, 1, 2, 0]))
    form = str(rng.choice(["single", "list", "list", "tuple", "dict", "generator", "notIterable"], p=[0.15, 0.3, 0.15, 0.1, 0.15, 0.05, 0.1]))
    srcs = []
    if form not in ("single", "notIterable"):
        k = max(0, q + 1 + int(rng.choice([0, 0, 0, -1, 1, -2, 2])))
        clean = rng.random() < 0.7
        srcs = ["rv" if clean else str(rng.choice(["rv", "rv", "rv", "cov", "notRV"])) for _ in range(k)]
    entry = str(rng.choice(["marginal_ln_likelihood", "marginal_ln_likelihood:inmem", "rejection_sample", "setup_mcmc", "helper"],
                           p=[0.3, 0.2, 0.25, 0.1, 0.15]))
    ok, why = data_oracle(form, srcs, p, q)
    if entry == "setup_mcmc" and ok and g["index"] % 4 != 0:
        entry = "helper"      # building the MCMC graph is slow: only every 4th admissible case really builds it (same rule in
        #                       both tiers, so that a replay does not depend on the tier)
    prior = get_prior(p, q)
    if entry == "setup_mcmc" and "obs" in prior.model.named_vars:
        # a model set up for MCMC belongs to the data it was set up for (setup_mcmc refuses other data): new prior
        _priors.pop((p, q))
        prior = get_prior(p, q)
    samples = make_samples(rng, p, q, linear=(entry == "setup_mcmc"))
    objs = [make_source(rng, s) for s in srcs]
    if form == "single":
        data = make_source(rng, "rv")
    elif form == "notIterable":
        data = [5, None, 2.5][int(rng.integers(0, 3))]
    elif form == "list":
        data = objs
    elif form == "tuple":
        data = tuple(objs)
    elif form == "generator":
        data = (o for o in objs)
    else:
        keys = [f"k{int(v)}" for v in rng.permutation(20)[: len(objs)]]
        data = dict(zip(keys, objs))
    joker = tj.TheJoker(prior, rng=np.random.default_rng(int(rng.integers(0, 2**31))))
    try:
        if entry == "marginal_ln_likelihood":
            joker.marginal_ln_likelihood(data, samples)
        elif entry == "marginal_ln_likelihood:inmem":
            joker.marginal_ln_likelihood(data, samples, in_memory=True)
        elif entry == "rejection_sample":
            joker.rejection_sample(data, samples)
        elif entry == "setup_mcmc":
            with prior.model:        # documented usage: inside the prior's model context
                joker.setup_mcmc(data, samples)
        else:
            joker._make_joker_helper(data)
        impl = ("ok", None)
    except Exception as e:  # noqa
        impl = ("error", classify(e), f"{type(e).__name__}: {str(e)[:120]}")
    m = ctx.model({"op": "prior.data", "form": "multi" if form in ("list", "tuple", "dict", "generator") else form,
                   "srcs": srcs, "q": q, "p": p})
    inp = dict(form=form, sources=srcs, n_offsets=q, poly_trend=p, entry=entry)
    ctx.evaluated(rel, (form, tuple(srcs), q, p, entry) if not ok else None, sample=dict(inp, impl=impl[:2], model=m))
    ctx.count("data:admissible" if ok else "data:inadmissible")
    ctx.count(f"data:entry:{entry.split(':')[0]}")
    if form not in ("single", "notIterable"):
        ctx.count("data:count-ok" if len(srcs) - 1 == q else "data:count-off")
        if "cov" in srcs:
            ctx.count("data:cov")
        if "notRV" in srcs:
            ctx.count("data:notRV")
    elif form == "single" and q:
        ctx.count("data:single-with-offsets")
    tags = dict(entry=entry, form=form)
    if impl[0] == "ok" and not ok:
        ctx.violation(rel, g, inp, impl, m, "the sampler must raise: " + why, tags=tags)
        return
    ms = m["sampler"]
    if not agree(ms, impl):
        # setup_mcmc does not build the kernel helper: with poly_trend < 1 it fails elsewhere (KeyError 'v0')
        if entry == "setup_mcmc" and "error" in ms and impl[0] == "error":
            return
        ctx.mismatch(rel, g, inp, impl, m, f"accept/reject and exception class must agree with the model (oracle: admissible={ok})", tags=tags)


def init_case(ctx, g, rng):
    import schwimmbad
    import thejoker as tj
    from rec import RecGen, RecPool
    rel = "TheJoker()=PriorV.jokerInit"

    class HalfPool:
        def map(self, *a):
            return []
    pools = [("none", None, True), ("serial", schwimmbad.SerialPool(), True), ("rec", RecPool(2), True),
             ("int", 5, False), ("halfpool", HalfPool(), False), ("str", "pool", False)]
    rngs = [("none", None, True), ("gen", np.random.default_rng(1), True), ("recgen", RecGen(2), True),
            ("int", 42, False), ("randomstate", np.random.RandomState(3), False), ("seedseq", np.random.SeedSequence(5), False)]
    import pymc as pm
    priors = [("prior", get_prior(1, 0), True), ("none", None, False), ("dict", {}, False), ("model", pm.Model(), False),
              ("str", "default", False)]
    for pn, pool, pok in pools:
        for rn, r, rok in rngs:
            for prn, pr, prok in priors:
                try:
                    tj.TheJoker(pr, pool=pool, rng=r)
                    impl = ("ok", None)
                except Exception as e:  # noqa
                    impl = ("error", classify(e), f"{type(e).__name__}: {str(e)[:100]}")
                m = ctx.model({"op": "prior.jokerInit", "poolOk": pok, "rngOk": rok, "priorOk": prok})
                ok = pok and rok and prok
                inp = dict(pool=pn, rng=rn, prior=prn)
                ctx.evaluated(rel, (pn, rn, prn) if not ok else None, sample=dict(inp, impl=impl[:2], model=m))
                ctx.count("init:cases")
                if impl[0] == "ok" and not ok:
                    ctx.violation(rel, g, inp, impl, m, "TheJoker must refuse a non-JokerPrior prior, a pool without map/close, "
                                  "a non-Generator rng", tags=dict(entry="TheJoker"))
                elif not agree(m, impl):
                    ctx.mismatch(rel, g, inp, impl, m, "accept/reject and exception class must agree with the model")


# ------------------------------------------------------------------------------------------------


def setup(ctx):
    import glob
    import os
    import core
    if not ctx.replay_mode:      # stale replay files of an earlier run with this seed would be confusing
        for f in glob.glob(os.path.join(core.VERIF, "replays", ctx.prop, f"{ctx.seed}-*.json")):
            os.remove(f)


def reuse_case(ctx, g, rng):
    """call history: the caller's OWN `pars` dictionary is handed to two constructions (a script building the priors of
    several configurations from one dictionary of nonlinear / linear priors).  The second construction is decided on what
    the caller put into the dictionary plus the offsets passed to THAT call - exactly as if the dictionary were fresh."""
    import pymc as pm
    import thejoker as tj
    rel = "JokerPrior(pars=<caller's dict>) a second time=PriorV.validate of what that call was given"
    p, q = int(rng.choice([1, 2])), int(rng.choice([1, 2]))
    spec = base_spec(rng, p, q)
    spec["form"] = "dict"
    for e in spec["pars"]:
        if e["name"] == "K":
            e["dk"] = "normal"
    resolve_fcm(spec["pars"] + spec["offsets"])
    models = [pm.Model(), pm.Model()]
    allv = build_vars(spec["pars"] + spec["offsets"], models)
    user = {e["name"]: v for e, v in zip(spec["pars"], allv)}
    declared = sorted(user)
    offs = allv[len(spec["pars"]):]
    try:
        tj.JokerPrior(pars=user, v0_offsets=offs, poly_trend=p, model=models[0])
        first = "ok"
    except Exception as e_:  # noqa: BLE001
        first = f"{type(e_).__name__}: {str(e_)[:120]}"
    variant = ["misnamed", "shifted", "same"][g["index"] % 3]     # by case index: coverage must not be luck
    spec2 = copy_spec(spec)
    if variant == "misnamed":
        spec2["offsets"] = [dict(spec["offsets"][0], name=f"dv0_{q + 1}")]
    elif variant == "shifted":
        spec2["offsets"] = [dict(e, name=f"dv0_{j + 2}") for j, e in enumerate(spec["offsets"])]
    new_offs = offs if variant == "same" else build_vars(spec2["offsets"], models)
    try:
        pr2 = tj.JokerPrior(pars=user, v0_offsets=new_offs, poly_trend=p, model=models[0])
        impl = ("ok", list(pr2.par_names))
    except Exception as e_:  # noqa: BLE001
        impl = ("error", classify(e_), f"{type(e_).__name__}: {str(e_)[:120]}")
    ok, why = wellformed_oracle(spec2)
    m = ctx.model(model_op(spec2))
    ctx.evaluated(rel, (g["index"], variant), sample=dict(first_call=first, second_call_offsets=[e["name"] for e in spec2["offsets"]], impl=impl[:2]))
    ctx.count("prior:dict-reuse:" + variant)
    inp = dict(first_call=dict(spec=spec, result=first), second_call=dict(spec=spec2), caller_dict_keys_before=declared,
               caller_dict_keys_after_first_call=sorted(user))
    tags = dict(entry="JokerPrior", mutation="dict-reuse:" + variant)
    if first != "ok":
        ctx.violation(rel, g, inp, first, "ok", "the first (admissible) construction must succeed", tags=tags)
    elif impl[0] == "ok" and not ok:
        ctx.violation(rel, g, inp, impl, m, "the second construction from the caller's dictionary must raise because " + why
                      + " (what an earlier construction was given must not count)", tags=tags)
    elif impl[0] == "error" and ok:
        ctx.violation(rel, g, inp, impl, m, "the second construction is admissible and must succeed as the first did", tags=tags)
    elif not agree(m, impl):
        ctx.mismatch(rel, g, inp, impl, m, "accept/reject and exception class must agree with the model", tags=tags)


def plan(ctx):
    cases = [("grid", i) for i in range(20 if ctx.thorough else 4)]
    cases += [("random", i) for i in range(4000 if ctx.thorough else 150)]
    cases += [("default", i) for i in range(12 if ctx.thorough else 2)]
    cases += [("data", i) for i in range(4000 if ctx.thorough else 220)]
    cases += [("init", 0)]
    cases += [("reuse", i) for i in range(60 if ctx.thorough else 9)]
    return cases


def run_case(ctx, g):
    kind, index = g["kind"], g["index"]
    ctx.seed = g.get("seed", ctx.seed)
    rng = ctx.case_rng(kind, index)
    if kind == "grid":
        grid_case(ctx, g, rng, index)
    elif kind == "random":
        random_case(ctx, g, rng)
    elif kind == "default":
        default_case(ctx, g, rng, index)
    elif kind == "data":
        data_case(ctx, g, rng)
    elif kind == "init":
        init_case(ctx, g, rng)
    elif kind == "reuse":
        reuse_case(ctx, g, rng)


def post(ctx):
    ctx.require("grid cases whose base prior is admissible (mutations discriminate)", ctx.counters["grid: base prior admissible"], 2)
    c = ctx.counters
    ctx.rule = RULE
    ctx.extra["exhaustive"] = False
    ctx.extra["exhaustive_note"] = ("grid cases enumerate every single mutation (each parameter x omit/no unit/each "
                                    "dimension in the pool/each prior kind) of their base prior")
    for tag, n in (("omit", 20), ("nounit", 20), ("dim", 150), ("kind-linear-bad", 60), ("kind-linear-ok", 6), ("kind-nonlinear", 50),
                   ("offset-name", 5), ("poly-shift", 6), ("poly-value", 10), ("multi", 50), ("shadow-bad", 1), ("dup-bad-last", 2),
                   ("dup-bad-first", 2), ("misnamed", 10)):
        ctx.require(f"prior mutation '{tag}'", c[f"prior:{tag}"], n)
    ctx.require("second construction from the caller's own dict with mis-named / shifted offsets",
                c["prior:dict-reuse:misnamed"] + c["prior:dict-reuse:shifted"], 3)
    ctx.require("admissible priors", c["prior:admissible"], 100)
    ctx.require("inadmissible priors", c["prior:inadmissible"], 300)
    ctx.require("default(): admissible", c["default:admissible"], 30)
    ctx.require("default(): inadmissible", c["default:inadmissible"], 200)
    for cls in ("value", "type", "units"):
        ctx.require(f"default(): raised {cls}", c[f"default:raised:{cls}"], 5)
    ctx.require("data: admissible", c["data:admissible"], 22)
    ctx.require("data: count off", c["data:count-off"], 30)
    ctx.require("data: covariance source", c["data:cov"], 5)
    ctx.require("data: non-RVData source", c["data:notRV"], 5)
    ctx.require("data: single RVData with offsets", c["data:single-with-offsets"], 5)
    for e in ("marginal_ln_likelihood", "rejection_sample", "setup_mcmc", "helper"):
        ctx.require(f"data entry {e}", c[f"data:entry:{e}"], 5)
    ctx.require("TheJoker() argument grid", c["init:cases"], 180)
