"""C15 - RVData preserves the observations it is given.

Tie (DESIGN 3/C15): real `thejoker.RVData` (construction, `ivar`, `copy()`, `__getitem__`) against the Lean
model `Data.init / Data.ivarStd / Data.copy / Data.getitem` executed at Float by the driver.

* Velocities and uncertainties are *recognisable* (`rv[i] = (3000+i)·f`, `err[i] = (0.25+(i+1)/64)·f`, covariance
  entries distinct per (i,j)), so the input position of every output row is read off the output and pairing is
  checked exactly (bit patterns).
* numpy's default sort is not stable: the model is nondeterministic on tied times.  The permutation the real
  code produced is read off its output and handed to the model, which accepts it only if it is a permutation of
  the kept positions that sorts the kept times (`Data.validPerm`); the theorems hold for every accepted one.
* On any difference the property's own predicate is decided by an oracle that does not use the model
  (multiset comparison of bit patterns, exact `Fraction` arithmetic for `ivar`, exact residual `C·ivar - 1`).

Tolerances (everything else is compared exactly, as bit patterns):
* `ivar` (1-D): |impl - 1/err²| <= 4·2^-52·|1/err²| against the exact rational (two roundings in `1/err**2`);
* `ivar` (covariance): max |C·ivar - 1| <= 1e-10, computed exactly in rationals; the generated covariances are
  diagonally dominant (cond < 10, n <= 40) so LAPACK's residual is <= ~n·eps·cond ~ 1e-13.
"""
import math
from fractions import Fraction

import numpy as np

NEEDS_KERNEL = False

RULE = ("random RVData inputs: n=0..40 (quick) / ..120 (thorough) epochs; time layouts random / tied / all tied / "
        "sorted / reversed / blocks; float BMJD, list, or astropy Time (tcb/utc, mjd/jd); independent rv / err units; "
        "NaN/+-inf placed in t, rv, err or (symmetrically) in a covariance; clean in {T,F}; t_ref default / explicit "
        "Time / False; then copy() and slices / masks / index arrays.  A case is non-trivial when the mask drops a "
        "row or the sorting permutation is not the identity (distinct = distinct (kind, index, operation))")

VEL = ["km/s", "m/s", "cm/s"]
FAC = {"km/s": 1.0, "m/s": 1000.0, "cm/s": 100000.0}
RV0 = 3000
NONFIN = [float("nan"), float("inf"), float("-inf")]


def bits(x):
    import core
    return core.bits(x)


def bl(a):
    return [bits(v) for v in np.asarray(a, dtype="f8").ravel()]


_SEEN = set()


def report(ctx, relation, g, inp, impl, model, predicate, tags):
    """one VIOLATION per distinct failure class (relation, what fails, reference-epoch kind, non-finite parent), so
    that the few lines a run prints show the different defects rather than one of them many times; every violating
    case is still counted"""
    ctx.count("violating-cases")
    key = (relation, tags.get("what"), tags.get("tref") if tags.get("what") == "tref" else None,
           bool(tags.get("parent_nonfinite")), tags.get("op"))
    ctx.count("violating:" + "/".join(str(k) for k in key[1:]))
    if key in _SEEN and not ctx.replay_mode:
        return
    _SEEN.add(key)
    ctx.violation(relation, g, inp, impl, model, predicate, tags=tags)


def setup(ctx):
    _SEEN.clear()
    import logging
    try:
        from thejoker.logging import logger
        logger.setLevel(logging.ERROR)
    except Exception:
        pass


def plan(ctx):
    """a case is a function of (kind, index, seed) only: the larger generators of the thorough tier have their own
    kinds (`stdL`, `covL`), so a replay does not depend on VERIF_TIER"""
    if ctx.thorough:
        return ([("std", i) for i in range(8000)] + [("stdL", i) for i in range(5000)] + [("cov", i) for i in range(3000)]
                + [("covL", i) for i in range(1500)] + [("bad", i) for i in range(120)] + [("table", i) for i in range(600)])
    return ([("std", i) for i in range(260)] + [("cov", i) for i in range(110)] + [("bad", i) for i in range(14)] + [("table", i) for i in range(40)])


# ------------------------------------------------------------------------------------------------
# generators


def gen_times(rng, n, style):
    base = float(rng.choice([50000.0, 55123.25, 58000.5, 59999.75]))
    span = float(10 ** rng.uniform(-1.0, 3.5))
    if style == "alltied":
        t = np.full(n, base + 1.5)
    elif style == "ties":
        pool = base + np.round(rng.uniform(0, span, max(1, n // 3)) * 64) / 64
        t = rng.choice(pool, n)
    else:
        t = base + rng.uniform(0, span, n)
        if rng.random() < 0.5:
            t = np.round(t * 64) / 64
        if style == "sorted":
            t = np.sort(t)
        elif style == "reversed":
            t = np.sort(t)[::-1].copy()
        elif style == "blocks":      # like concatenated surveys: a few sorted runs
            k = int(rng.integers(2, 5))
            cuts = np.sort(rng.integers(0, n + 1, k - 1))
            parts = np.split(t, cuts)
            t = np.concatenate([np.sort(p) for p in parts]) if n else t
    return np.asarray(t, dtype="f8")


def gen_case(rng, kind, thorough):
    """kind in {std, cov}; thorough = the larger size distribution (kinds stdL / covL)"""
    c = {"kind": kind}
    r = rng.random()
    if kind == "cov":
        n = int(rng.integers(1, 9)) if r < 0.7 else int(rng.integers(9, 31 if thorough else 21))
    else:
        if r < 0.03:
            n = 0
        elif r < 0.70:
            n = int(rng.integers(1, 15))
        elif r < 0.95 or not thorough:
            n = int(rng.integers(17, 41))
        else:
            n = int(rng.integers(41, 121))
    c["n"] = n
    c["style"] = str(rng.choice(["random", "ties", "ties", "alltied", "sorted", "reversed", "blocks"]))
    t = gen_times(rng, n, c["style"])
    c["tform"] = str(rng.choice(["float", "float", "float", "list", "time_tcb_mjd", "time_utc_mjd", "time_tcb_jd",
                                 "time_utc_jd"]))
    if n == 0 and c["tform"] != "list":
        c["tform"] = "float"
    c["uRv"] = str(rng.choice(VEL))
    c["uErr"] = c["uRv"] if rng.random() < 0.6 else str(rng.choice(VEL))
    c["clean"] = bool(rng.random() < 0.65)
    c["tref"] = str(rng.choice(["default", "default", "explicit_tcb", "explicit_utc", "disabled"]))
    if n == 0 and c["tref"] == "default" and rng.random() < 0.5:
        c["tref"] = "disabled"
    c["tref_val"] = float(rng.choice([50000.0, 54000.0, 58000.5])) + float(np.round(rng.uniform(0, 100) * 8) / 8)
    idx = np.arange(n)
    rv = (RV0 + idx) * FAC[c["uRv"]]
    fe = FAC[c["uErr"]]
    err = (0.25 + (idx + 1) / 64.0) * fe
    # non-finite placements
    c["nonfinite"] = {"t": [], "rv": [], "err": [], "cov": []}
    if n > 0 and rng.random() < 0.6:
        cols = ["rv", "err"] if kind == "std" else ["rv"]
        if c["tform"] in ("float", "list") and (c["clean"] or c["tref"] != "default"):
            cols.append("t")
        for col in cols:
            if rng.random() < 0.6:
                k = int(rng.integers(1, 3))
                for i in rng.choice(n, min(k, n), replace=False):
                    c["nonfinite"][col].append((int(i), int(rng.integers(0, 3))))
        # keep every row identifiable: never both rv and err non-finite in one row
        taken = {i for i, _ in c["nonfinite"]["rv"]}
        c["nonfinite"]["err"] = [(i, v) for (i, v) in c["nonfinite"]["err"] if i not in taken]
    t = t.copy()
    for i, v in c["nonfinite"]["t"]:
        t[i] = NONFIN[v]
    for i, v in c["nonfinite"]["rv"]:
        rv[i] = NONFIN[v]
    for i, v in c["nonfinite"]["err"]:
        err[i] = NONFIN[v]
    c["t"], c["rv"], c["err"] = t, rv, err
    if kind == "cov":
        fu = fe * fe
        C = np.zeros((n, n))
        for i in range(n):
            for j in range(i, n):
                C[i, j] = C[j, i] = (4.0 + i / 4.0) if i == j else (1 + i * n + j) / (64.0 * n * n)
        C = C * fu
        if n > 0 and rng.random() < 0.45:
            taken = {i for i, _ in c["nonfinite"]["rv"]}
            for _ in range(int(rng.integers(1, 3))):
                i, j = int(rng.integers(0, n)), int(rng.integers(0, n))
                if i == j and i in taken:
                    continue
                v = int(rng.integers(0, 3))
                C[i, j] = C[j, i] = NONFIN[v]
                c["nonfinite"]["cov"].append((i, j, v))
        c["cov"] = C
    return c


def declared_bmjd(c):
    """what the user's time argument means in BMJD, computed on an astropy object of the harness' own"""
    from astropy.time import Time
    tf = c["tform"]
    if tf in ("float", "list"):
        return np.asarray(c["t"], dtype="f8")
    scale = "tcb" if "tcb" in tf else "utc"
    if tf.endswith("jd") and not tf.endswith("mjd"):
        return np.asarray(Time(c["t"] + 2400000.5, format="jd", scale=scale).tcb.mjd, dtype="f8")
    return np.asarray(Time(c["t"], format="mjd", scale=scale).tcb.mjd, dtype="f8")


def time_argument(c):
    from astropy.time import Time
    tf = c["tform"]
    if tf == "float":
        return np.array(c["t"], dtype="f8")
    if tf == "list":
        return [float(x) for x in c["t"]]
    scale = "tcb" if "tcb" in tf else "utc"
    if tf.endswith("jd") and not tf.endswith("mjd"):
        return Time(c["t"] + 2400000.5, format="jd", scale=scale)
    return Time(c["t"], format="mjd", scale=scale)


def tref_argument(c):
    """(argument for RVData, model description)"""
    from astropy.time import Time
    k = c["tref"]
    if k == "default":
        return None, {"kind": "default"}
    if k == "disabled":
        return False, {"kind": "disabled"}
    if k == "notTime":
        return c["tref_val"], {"kind": "notTime"}
    scale = "tcb" if k.endswith("tcb") else "utc"
    T = Time(c["tref_val"], format="mjd", scale=scale)
    declared = float(Time(c["tref_val"], format="mjd", scale=scale).tcb.mjd)
    return T, {"kind": "explicit", "value": bits(declared)}


# ------------------------------------------------------------------------------------------------
# observation of the implementation


def state_of(d):
    """public state of an RVData as plain numbers"""
    s = {"t": np.array(d._t_bmjd, dtype="f8"), "rv": np.array(d.rv.value, dtype="f8"), "uRv": d.rv.unit,
         "uErr": d.rv_err.unit, "has_cov": bool(d._has_cov),
         "tref": None if d.t_ref is None else float(d.t_ref.tcb.mjd), "tref_bmjd": float(d._t_ref_bmjd),
         "len": len(d)}
    if d._has_cov:
        s["cov"] = np.array(d.rv_err.value, dtype="f8")
    else:
        s["err"] = np.array(d.rv_err.value, dtype="f8")
    return s


def unit_ok(unit, name, power=1):
    import astropy.units as u
    return unit == u.Unit(name) ** power


def decode_rows(c, s):
    """input position of every output row, read off the recognisable values; None if some row is unrecognisable"""
    f, fe = FAC[c["uRv"]], FAC[c["uErr"]]
    out = []
    for r in range(len(s["rv"])):
        v = s["rv"][r]
        i = None
        if math.isfinite(v):
            x = v / f - RV0
            if abs(x - round(x)) < 1e-6:
                i = int(round(x))
        else:
            if s["has_cov"]:
                dg = s["cov"][r][r] if r < len(s["cov"]) and r < len(s["cov"][r]) else float("nan")
                if math.isfinite(dg):
                    x = (dg / (fe * fe) - 4.0) * 4.0
                    if abs(x - round(x)) < 1e-6:
                        i = int(round(x))
            else:
                e = s["err"][r] if r < len(s["err"]) else float("nan")
                if math.isfinite(e):
                    x = (e / fe - 0.25) * 64 - 1
                    if abs(x - round(x)) < 1e-6:
                        i = int(round(x))
        if i is None or not (0 <= i < c["n"]):
            return None
        out.append(i)
    return out


def perm_from(orig):
    """rank of each output row's input position among the kept positions (None if a position repeats)"""
    if orig is None or len(set(orig)) != len(orig):
        return None
    rank = {o: k for k, o in enumerate(sorted(orig))}
    return [rank[o] for o in orig]


def np_sorted(t):
    """numpy's order: non-decreasing, NaN last"""
    for a, b in zip(t[:-1], t[1:]):
        if not (a <= b or (b != b)):
            return False
    return True


# ------------------------------------------------------------------------------------------------
# the property's own predicate (independent of the model)


def finite_row(c, t_decl, i):
    if not (math.isfinite(t_decl[i]) and math.isfinite(c["rv"][i])):
        return False
    if c["kind"] == "cov":
        return all(math.isfinite(c["cov"][k][i]) for k in range(c["n"]))
    return math.isfinite(c["err"][i])


def predicate_init(c, t_decl, s, tref_decl):
    """None if the property holds on the implementation's output, else (what, tags)"""
    n = c["n"]
    want = [i for i in range(n) if (not c["clean"]) or finite_row(c, t_decl, i)]
    orig = decode_rows(c, s)
    if orig is None:
        return "an output row is not one of the input observations", {"what": "rows"}
    if sorted(orig) != want:
        miss = sorted(set(want) - set(orig))
        extra = sorted(set(orig) - set(want))
        return (f"kept input positions {sorted(orig)} != finite input positions {want} (missing {miss}, extra {extra})",
                {"what": "rows"})
    # pairing, exact
    for r, i in enumerate(orig):
        if bits(s["t"][r]) != bits(t_decl[i]):
            return f"row {r}: time {s['t'][r]!r} is not the time of input observation {i} ({t_decl[i]!r})", {"what": "pairing"}
        if bits(s["rv"][r]) != bits(c["rv"][i]):
            return f"row {r}: velocity does not belong to input observation {i}", {"what": "pairing"}
        if c["kind"] == "std" and bits(s["err"][r]) != bits(c["err"][i]):
            return f"row {r}: uncertainty {s['err'][r]!r} is not that of input observation {i} ({c['err'][i]!r})", {"what": "pairing"}
    if c["kind"] == "cov":
        m = len(orig)
        if s["cov"].shape != (m, m):
            return f"covariance shape {s['cov'].shape} for {m} kept epochs", {"what": "pairing"}
        for a in range(m):
            for b in range(m):
                if bits(s["cov"][a][b]) != bits(c["cov"][orig[a]][orig[b]]):
                    return (f"cov'[{a}][{b}] is not cov[{orig[a]}][{orig[b]}] (rows and columns must follow the "
                            f"observations)"), {"what": "pairing-cov"}
    if not np_sorted(list(s["t"])):
        return "stored times are not in time order", {"what": "sorted"}
    if not unit_ok(s["uRv"], c["uRv"]):
        return f"rv unit {s['uRv']} != supplied {c['uRv']}", {"what": "units"}
    if not unit_ok(s["uErr"], c["uErr"], 2 if c["kind"] == "cov" else 1):
        return f"rv_err unit {s['uErr']} != supplied", {"what": "units"}
    # reference epoch
    k = tref_decl["kind"]
    if k == "disabled":
        if s["tref"] is not None or s["tref_bmjd"] != 0.0:
            return "t_ref=False must store no reference epoch", {"what": "tref"}
    elif k == "explicit":
        from core import unbits
        v = unbits(tref_decl["value"])
        if s["tref"] is None or bits(s["tref"]) != bits(v) or bits(s["tref_bmjd"]) != bits(v):
            return f"explicit reference epoch {v!r} stored as {s['tref']!r} / {s['tref_bmjd']!r}", {"what": "tref"}
    else:
        fin = [t_decl[i] for i in orig if math.isfinite(t_decl[i])]
        if fin and len(fin) == len(orig):
            mn = min(fin)
            if s["tref"] is None or bits(s["tref"]) != bits(mn) or bits(s["tref_bmjd"]) != bits(mn):
                return f"default reference epoch {s['tref']!r} is not the earliest kept time {mn!r}", {"what": "tref"}
    return None


def predicate_ivar(c, s, iv_value, iv_unit):
    import astropy.units as u
    if c["kind"] == "std":
        if iv_unit != 1 / u.Unit(c["uErr"]) ** 2:
            return f"ivar unit {iv_unit}", {"what": "ivar-unit"}
        for r, e in enumerate(s["err"]):
            if not (math.isfinite(e) and e != 0):
                continue
            ex = 1 / (Fraction(float(e)) ** 2)
            got = iv_value[r]
            if not math.isfinite(got) or abs(Fraction(float(got)) - ex) > ex * Fraction(4, 2 ** 52):
                return f"ivar[{r}] = {got!r} but 1/err^2 = {float(ex)!r}", {"what": "ivar"}
        return None
    if iv_unit != 1 / u.Unit(c["uErr"]) ** 2:
        return f"ivar unit {iv_unit}", {"what": "ivar-unit"}
    C = s["cov"]
    m = len(C)
    if not np.all(np.isfinite(C)) or m == 0:
        return None
    if np.shape(iv_value) != (m, m) or not np.all(np.isfinite(iv_value)):
        return "ivar of a finite covariance is not a finite matrix of the same shape", {"what": "ivar"}
    # scale-free exact residual: rows of C are O(4 f^2), ivar O(1/(4 f^2))
    Cf = [[Fraction(float(x)) for x in row] for row in C]
    If = [[Fraction(float(x)) for x in row] for row in iv_value]
    worst = Fraction(0)
    for a in range(m):
        for b in range(m):
            acc = sum(Cf[a][k] * If[k][b] for k in range(m)) - (1 if a == b else 0)
            worst = max(worst, abs(acc))
    if worst > Fraction(1, 10 ** 10):
        return f"max |cov . ivar - 1| = {float(worst):.3e}", {"what": "ivar"}
    return None


def predicate_rows(parent_rows, s, has_cov, parent_cov=None, parent_of_out=None):
    """multiset of output (t, rv, err) bit triples equals the expected one; sorted"""
    if bool(has_cov) != bool(s.get("has_cov")):
        return ("the parent stores a covariance matrix but the result does not (uncertainty shape "
                f"{np.shape(s.get('err', s.get('cov')))})" if has_cov else "the result stores a covariance matrix but the parent does not")
    got = sorted((bits(s["t"][r]), bits(s["rv"][r])) + (() if has_cov else (bits(s["err"][r]),)) for r in range(len(s["rv"])))
    if got != sorted(parent_rows):
        return f"{len(got)} observations returned, {len(parent_rows)} expected, or their (t, rv, err) values differ"
    if not np_sorted(list(s["t"])):
        return "times not in time order"
    if has_cov and parent_of_out is not None:
        m = len(parent_of_out)
        if s["cov"].shape != (m, m):
            return f"covariance shape {s['cov'].shape}"
        for a in range(m):
            for b in range(m):
                if bits(s["cov"][a][b]) != bits(parent_cov[parent_of_out[a]][parent_of_out[b]]):
                    return f"cov'[{a}][{b}] is not the parent's cov[{parent_of_out[a]}][{parent_of_out[b]}]"
    return None


# ------------------------------------------------------------------------------------------------
# model <-> implementation comparison


def model_state_diff(m, s, check_tref=True):
    """list of fields where the model's RVData differs from the implementation's (exact)"""
    diff = []
    if m["t"] != bl(s["t"]):
        diff.append("t")
    if m["rv"] != bl(s["rv"]):
        diff.append("rv")
    if s["has_cov"]:
        if "cov" not in m or m["cov"] != [bl(r) for r in s["cov"]]:
            diff.append("cov")
    else:
        if "err" not in m or m["err"] != bl(s["err"]):
            diff.append("err")
    if check_tref:
        mt = m.get("tref")
        if (mt is None) != (s["tref"] is None) or (mt is not None and mt != bits(s["tref"])):
            diff.append("tref")
        if mt is None and s["tref_bmjd"] != 0.0:
            diff.append("tref_bmjd")
        if mt is not None and mt != bits(s["tref_bmjd"]):
            diff.append("tref_bmjd")
    return diff


def case_input(c, t_decl, tref_decl):
    d = dict(n=c["n"], t_form=c["tform"], t=list(c["t"]), t_bmjd=list(t_decl), rv=list(c["rv"]), rv_unit=c["uRv"],
             err_unit=c["uErr"] + ("^2" if c["kind"] == "cov" else ""), clean=c["clean"], t_ref=c["tref"],
             t_ref_value=c["tref_val"] if c["tref"].startswith("explicit") else None, nonfinite=c["nonfinite"])
    if c["kind"] == "cov":
        d["cov"] = [list(r) for r in c["cov"]]
    else:
        d["err"] = list(c["err"])
    return d


def construct(c):
    from thejoker import RVData
    import astropy.units as u
    t_arg = time_argument(c)
    tref_arg, tref_decl = tref_argument(c)
    rv = np.array(c["rv"]) * u.Unit(c["uRv"])
    if c["kind"] == "cov":
        err = np.array(c["cov"]) * u.Unit(c["uErr"]) ** 2
    else:
        err = np.array(c["err"]) * u.Unit(c["uErr"])
    try:
        d = RVData(t_arg, rv, err, t_ref=tref_arg, clean=c["clean"])
        return d, None, tref_decl
    except ValueError as e:
        return None, ("value", repr(e)[:200]), tref_decl
    except TypeError as e:
        return None, ("type", repr(e)[:200]), tref_decl


def model_init(ctx, c, t_decl, tref_decl, perm):
    op = {"op": "data.rvdata", "t": bl(t_decl), "rv": bl(c["rv"]), "clean": c["clean"], "tref": tref_decl,
          "perm": perm, "uRv": c["uRv"], "uErr": c["uErr"]}
    if c["kind"] == "cov":
        op["cov"] = [bl(r) for r in c["cov"]]
    else:
        op["err"] = bl(c["err"])
    return ctx.model(op)


def stable_perm_of_kept(c, t_decl):
    kept = [i for i in range(c["n"]) if (not c["clean"]) or finite_row(c, t_decl, i)]
    order = sorted(range(len(kept)), key=lambda k: (math.isnan(t_decl[kept[k]]), t_decl[kept[k]] if not math.isnan(t_decl[kept[k]]) else 0.0, k))
    return order


# ------------------------------------------------------------------------------------------------


def run_std_or_cov(ctx, g, rng, kind):
    large = kind.endswith("L")
    kind = kind[:3]
    c = gen_case(rng, kind, large)
    t_decl = declared_bmjd(c)
    d, err, tref_decl = construct(c)
    inp = case_input(c, t_decl, tref_decl)
    rel = "RVData.__init__=Data.init"
    ctx.count(f"init:{kind}")
    ctx.count(f"style:{c['style']}")
    ctx.count(f"tform:{c['tform'].split('_')[0]}")
    ctx.count(f"clean:{c['clean']}")
    ctx.count(f"tref:{c['tref'].split('_')[0]}")
    for col in ("t", "rv", "err", "cov"):
        if c["nonfinite"][col]:
            ctx.count(f"nonfinite:{col}")
    if c["uRv"] != c["uErr"]:
        ctx.count("units:differ")
    tags = dict(op="init", kind=kind, clean=c["clean"], tref=c["tref"].split("_")[0])

    if err is not None:
        # the implementation refused: the model must refuse in the same way
        m = model_init(ctx, c, t_decl, tref_decl, stable_perm_of_kept(c, t_decl))
        ctx.evaluated(rel, None, sample=dict(inp, impl_error=err[0]))
        ctx.count("init:refused")
        if m.get("error") != err[0]:
            report(ctx, rel, g, inp, dict(error=err), m, "well-formed observations must be accepted: RVData raised "
                          f"{err[1]} on input the property covers", tags=dict(tags, what="exception"))
        return
    s = state_of(d)
    orig = decode_rows(c, s)
    perm = perm_from(orig)
    nontrivial = perm is not None and (perm != list(range(len(perm))) or len(perm) != c["n"])
    if perm is not None and perm != list(range(len(perm))):
        ctx.count("perm:non-identity")
    if perm is not None and len(perm) != c["n"]:
        ctx.count("mask:dropped")
    if len(set(t_decl[np.isfinite(t_decl)])) < int(np.isfinite(t_decl).sum()):
        ctx.count("ties:present")
    ctx.evaluated(rel, (g["kind"], g["index"], "init") if nontrivial else None,
                  sample=dict(inp, impl=dict(t=list(s["t"]), rv=list(s["rv"]), t_ref=s["tref"])))
    why = predicate_init(c, t_decl, s, tref_decl)
    m = model_init(ctx, c, t_decl, tref_decl, perm if perm is not None else [])
    impl_out = dict(t=list(s["t"]), rv=list(s["rv"]), err=list(s["err"]) if "err" in s else [list(r) for r in s["cov"]],
                    t_ref=s["tref"], t_ref_bmjd=s["tref_bmjd"], rv_unit=str(s["uRv"]), err_unit=str(s["uErr"]))
    if why is not None:
        report(ctx, rel, g, inp, impl_out, m, "RVData holds exactly the finite input observations (all when clean=False), "
                      "each time paired with its own velocity and uncertainty (covariance row and column), in time "
                      "order, in the units supplied; reference epoch as declared: " + why[0], tags=dict(tags, **why[1]))
        return
    if "ok" not in m:
        ctx.mismatch(rel, g, inp, impl_out, m, "the model must accept the implementation's (property-conforming) output")
        return
    diff = model_state_diff(m["ok"], s)
    if m["ok"]["uRv"] != c["uRv"] or m["ok"]["uErr"] != c["uErr"]:
        diff.append("units")
    if diff:
        ctx.mismatch(rel, g, inp, impl_out, m, f"model and implementation differ in {diff}")
        return
    # the `t` property exposes the same times
    if np.all(np.isfinite(s["t"])):
        tt = np.asarray(d.t.tcb.mjd, dtype="f8")
        if bl(tt) != bl(s["t"]):
            report(ctx, rel, g, inp, dict(t_property=list(tt)), m, "RVData.t must expose the stored observation times",
                          tags=dict(tags, what="t-property"))
            return

    # ---- ivar
    rel_iv = "RVData.ivar=Data.ivar"
    finite_unc = np.all(np.isfinite(s["err"])) and np.all(s["err"] != 0) if kind == "std" else np.all(np.isfinite(s["cov"]))
    if len(s["rv"]) > 0 and finite_unc:
        iv = d.ivar
        ivv = np.asarray(iv.value, dtype="f8")
        ctx.evaluated(rel_iv, (g["kind"], g["index"], "ivar") if nontrivial else None)
        ctx.count(f"ivar:{kind}")
        why = predicate_ivar(c, s, ivv, iv.unit)
        if why is not None:
            report(ctx, rel_iv, g, inp, dict(ivar=ivv.tolist(), unit=str(iv.unit)), m["ok"].get("ivar"),
                          "inverse variances are the reciprocal variances (the inverse of the stored covariance): " + why[0],
                          tags=dict(tags, op="ivar", **why[1]))
        elif kind == "std":
            from core import unbits
            mv = [unbits(b) for b in m["ok"]["ivar"]]
            if any(abs(a - b) > 4 * 2.0 ** -52 * abs(b) for a, b in zip(ivv, mv)) or len(mv) != len(ivv):
                ctx.mismatch(rel_iv, g, inp, ivv.tolist(), mv, "ivar differs from the model's 1/(err*err)")

    # ---- copy / slicing need the `t` property, which astropy cannot build from non-finite times
    if not np.all(np.isfinite(s["t"])):
        ctx.count("followups:skipped-nonfinite-time")
        return
    parent_nonfinite = not (np.all(np.isfinite(s["rv"])) and np.all(np.isfinite(s["err"] if kind == "std" else s["cov"])))
    do_copy(ctx, g, c, d, s, orig, m["ok"], inp, tags, parent_nonfinite, nontrivial)
    for k in range(2):
        do_getitem(ctx, g, rng, c, d, s, orig, m["ok"], inp, tags, parent_nonfinite, k)


def rows_of(s, positions):
    has_cov = s["has_cov"]
    return [(bits(s["t"][r]), bits(s["rv"][r])) + (() if has_cov else (bits(s["err"][r]),)) for r in positions]


def do_copy(ctx, g, c, d, s, orig, mstate, inp, tags, parent_nonfinite, nontrivial):
    import copy as _copy
    rel = "RVData.copy=Data.copy"
    use_copy_module = (g["index"] % 3 == 0)
    ctx.count("copy")
    ctx.count(f"copy:tref:{tags['tref']}")
    if parent_nonfinite:
        ctx.count("copy:parent-nonfinite")
    ctags = dict(tags, op="copy", parent_nonfinite=parent_nonfinite)
    ctx.evaluated(rel, (g["kind"], g["index"], "copy") if (nontrivial or tags["tref"] != "default") else None)
    try:
        d2 = _copy.copy(d) if use_copy_module else d.copy()
    except (ValueError, TypeError) as e:
        m2 = ctx.model({"op": "data.copy", "data": mstate, "perm": list(range(len(s["rv"])))})
        report(ctx, rel, g, dict(inp, then="copy()"), dict(error=repr(e)[:200]), m2, "copy() yields the same observations "
                      f"with the same pairing and units and the same reference epoch: it raised {e!r}"[:400],
                      tags=dict(ctags, what="exception"))
        return
    s2 = state_of(d2)
    impl_out = dict(t=list(s2["t"]), rv=list(s2["rv"]), t_ref=s2["tref"], t_ref_bmjd=s2["tref_bmjd"])
    # predicate: same observations, same units, same reference epoch
    orig2 = decode_rows(c, s2)
    parent_of_out = None
    if orig2 is not None and all(o in orig for o in orig2):
        parent_of_out = [orig.index(o) for o in orig2]
    why = predicate_rows(rows_of(s, range(len(s["rv"]))), s2, s["has_cov"], s.get("cov"), parent_of_out)
    what = "rows"
    if why is None and not (s2["uRv"] == s["uRv"] and s2["uErr"] == s["uErr"] and str(s2["uRv"]) == str(s["uRv"])):
        why, what = "units changed", "units"
    if why is None and ((s2["tref"] is None) != (s["tref"] is None) or bits(s2["tref_bmjd"]) != bits(s["tref_bmjd"])
                        or (s["tref"] is not None and bits(s2["tref"]) != bits(s["tref"]))):
        why, what = f"reference epoch {s['tref']!r} (bmjd {s['tref_bmjd']!r}) became {s2['tref']!r} (bmjd {s2['tref_bmjd']!r})", "tref"
    perm2 = None if parent_of_out is None else (parent_of_out if len(set(parent_of_out)) == len(parent_of_out) else None)
    m2 = ctx.model({"op": "data.copy", "data": mstate, "perm": perm2 if perm2 is not None else []})
    if why is not None:
        report(ctx, rel, g, dict(inp, then="copy()"), impl_out, m2, "copy() yields the same observations with the same "
                      "pairing and units and the same reference epoch: " + why, tags=dict(ctags, what=what))
        return
    if "ok" not in m2 or model_state_diff(m2["ok"], s2):
        ctx.mismatch(rel, g, dict(inp, then="copy()"), impl_out, m2, "copy differs from the model's copy")
        return
    # independence of the copy (a copy, not a view)
    if len(s["rv"]) and (np.shares_memory(d2._t_bmjd, d._t_bmjd) or np.shares_memory(d2.rv.value, d.rv.value)):
        ctx.count("copy:shares-memory")


def gen_selection(rng, n, k):
    """(python index object, positions it selects, label)"""
    r = rng.random()
    if n == 0 or r < 0.45:
        step = None if rng.random() < 0.5 else int(rng.choice([1, 2, 3, -1, -2]))
        a, b = sorted(int(x) for x in rng.integers(-1, n + 2, 2))
        if rng.random() < 0.9 and (step or 1) < 0:
            a, b = b, a          # mostly non-empty selections
        if rng.random() < 0.25:
            a = a - n if 0 <= a < n else a      # negative (from-the-end) bounds
        if rng.random() < 0.25:
            b = b - n if 0 < b <= n else b
        slc = slice(None if rng.random() < 0.2 else a, None if rng.random() < 0.2 else b, step)
        return slc, list(range(n))[slc], "slice-neg" if (step or 1) < 0 else "slice"
    if r < 0.7:
        mask = rng.random(n) < rng.uniform(0.2, 0.9)
        return mask, [int(i) for i in np.flatnonzero(mask)], "mask"
    m = int(rng.integers(1, n + 1))
    idx = rng.permutation(n)[:m]
    neg = rng.random(m) < 0.3
    idx2 = np.where(neg, idx - n, idx)
    return idx2, [int(i) for i in idx], "index-array"


def do_getitem(ctx, g, rng, c, d, s, orig, mstate, inp, tags, parent_nonfinite, k):
    rel = "RVData.__getitem__=Data.getitem"
    n = len(s["rv"])
    sel_obj, sel, label = gen_selection(rng, n, k)
    desc = repr(sel_obj) if isinstance(sel_obj, slice) else [int(x) if not isinstance(x, (bool, np.bool_)) else bool(x) for x in np.asarray(sel_obj).tolist()]
    ginp = dict(inp, then=f"data[{label}]", selection=desc, positions=sel)
    gtags = dict(tags, op="getitem", sel=label, parent_nonfinite=parent_nonfinite)
    ctx.count(f"getitem:{label}")
    if not sel:
        ctx.count("getitem:empty")
    try:
        d2 = d[sel_obj]
        err = None
    except ValueError as e:
        d2, err = None, ("value", repr(e)[:200])
    ctx.evaluated(rel, (g["kind"], g["index"], "getitem", k) if sel and sel != list(range(n)) else None)
    if not sel:
        # an empty selection has no earliest time: whether it raises (default reference epoch) or yields an empty
        # object (reference epoch carried over) is not determined by the property; it must not invent observations
        ctx.count("getitem:empty-raises" if err is not None else "getitem:empty-object")
        if err is None and len(d2) != 0:
            report(ctx, rel, g, ginp, dict(n=len(d2)), None, "an empty selection yields no observations",
                   tags=dict(gtags, what="rows"))
        return
    if err is not None:
        m2 = ctx.model({"op": "data.getitem", "data": mstate, "sel": sel, "perm": []})
        if m2.get("error") != "value" or sel:
            report(ctx, rel, g, ginp, dict(error=err), m2, "slicing must yield the observations at the selected positions; "
                          f"it raised {err[1]}", tags=dict(gtags, what="exception"))
        return
    s2 = state_of(d2)
    impl_out = dict(t=list(s2["t"]), rv=list(s2["rv"]), t_ref=s2["tref"])
    orig2 = decode_rows(c, s2)
    parent_of_out = None
    if orig2 is not None and all(o in orig for o in orig2):
        parent_of_out = [orig.index(o) for o in orig2]
    why = predicate_rows(rows_of(s, sel), s2, s["has_cov"], s.get("cov"), parent_of_out)
    what = "rows"
    if why is None and not (s2["uRv"] == s["uRv"] and s2["uErr"] == s["uErr"]):
        why, what = "units changed", "units"
    perm2 = []
    if parent_of_out is not None and sorted(parent_of_out) == sorted(sel):
        perm2 = [sel.index(p) for p in parent_of_out]
    m2 = ctx.model({"op": "data.getitem", "data": mstate, "sel": sel, "perm": perm2})
    if why is not None:
        report(ctx, rel, g, ginp, impl_out, m2, "slicing yields exactly the observations at the selected positions of the "
                      "time-sorted data with the same pairing (covariance restricted to the selection in rows and "
                      "columns) and units: " + why, tags=dict(gtags, what=what))
        return
    # the reference epoch of a slice is not determined by the property: not compared
    if s2["tref"] is not None and s["tref"] is not None and bits(s2["tref"]) == bits(s["tref"]):
        ctx.count("getitem:tref-same-as-parent")
    else:
        ctx.count("getitem:tref-differs-from-parent")
    if "ok" not in m2 or model_state_diff(m2["ok"], s2, check_tref=False):
        ctx.mismatch(rel, g, ginp, impl_out, m2, "slice differs from the model's slice")


def run_bad(ctx, g, rng):
    """inputs RVData must refuse (shape mismatch, t_ref that is not a Time): the Except branches of the model"""
    from thejoker import RVData
    import astropy.units as u
    rel = "RVData.__init__ refusals=Data.init errors"
    n = int(rng.integers(2, 8))
    which = str(rng.choice(["t-short", "rv-short", "err-short", "cov-rows", "cov-cols", "tref-float"]))
    t = 55000.0 + np.arange(n, dtype="f8")
    rv = (RV0 + np.arange(n)) * 1.0
    err = 0.25 + (np.arange(n) + 1) / 64.0
    cov = np.diag(4.0 + np.arange(n) / 4.0)
    op = {"op": "data.rvdata", "clean": True, "tref": {"kind": "default"}, "perm": list(range(n)), "uRv": "km/s", "uErr": "km/s"}
    unc = err
    if which == "t-short":
        t = t[:-1]
    elif which == "rv-short":
        rv = rv[:-1]
    elif which == "err-short":
        unc = err[:-1]
    elif which == "cov-rows":
        unc = cov[:-1]
    elif which == "cov-cols":
        unc = cov[:, :-1]
    tref = None
    if which == "tref-float":
        tref = 55000.0
        op["tref"] = {"kind": "notTime"}
    op["t"], op["rv"] = bl(t), bl(rv)
    if np.ndim(unc) == 2:
        op["cov"] = [bl(r) for r in unc]
        q = np.array(unc) * (u.km / u.s) ** 2
    else:
        op["err"] = bl(unc)
        q = np.array(unc) * u.km / u.s
    m = ctx.model(op)
    try:
        RVData(t, rv * u.km / u.s, q, t_ref=tref)
        impl = "accepted"
    except ValueError:
        impl = "value"
    except TypeError:
        impl = "type"
    ctx.evaluated(rel, (which, n))
    ctx.count(f"bad:{which}")
    if m.get("error") != impl:
        ctx.mismatch(rel, g, dict(which=which, n=n), impl, m, "inconsistent shapes -> ValueError, t_ref not a Time -> TypeError")


def run_table(ctx, g, rng):
    """RVData built from a table (`RVData.guess_from_table`): a short CALL HISTORY that hands the same `time_kwargs`
    dictionary to every call (as a script looping over the tables of several stars does), tables with jd / mjd / bjd /
    bmjd time columns, with and without units, with missing (masked) entries.  The object must hold exactly the table's
    complete rows - the same as `RVData(Time(times), rv, err)` built by hand from them."""
    import astropy.units as u
    import thejoker as tj
    from astropy.table import MaskedColumn, Table
    from astropy.time import Time
    REL = "RVData.guess_from_table(table)=RVData of the table's complete rows (times, velocities, errors paired)"
    shared = str(rng.choice(["none", "scale", "empty"]))
    kw_orig = None if shared == "none" else (dict(scale=str(rng.choice(["tdb", "utc", "tcb"]))) if shared == "scale" else {})
    kw = None if kw_orig is None else dict(kw_orig)
    history = []
    for call in range(int(rng.integers(2, 4))):
        n = int(rng.integers(3, 9))
        col = str(rng.choice(["jd", "mjd", "bjd", "bmjd", "JD", "MJD", "BMJD"]))
        low = col.lower()
        fmt = "mjd" if "mjd" in low else "jd"
        mjd = 55000.0 + np.round(rng.uniform(0, 300, n), 3)
        tvals = mjd + (2400000.5 if fmt == "jd" else 0.0)
        rv = np.round(rng.normal(0, 20, n), 3)
        err = np.round(rng.uniform(0.1, 2.0, n), 3)
        rvname = str(rng.choice(["rv", "vr", "radial_velocity", "vhelio", "RV"]))
        errname = str(rng.choice(["{}err", "{}_err", "{}_e", "e_{}"])).format(rvname)
        unit = str(rng.choice(["km/s", "m/s"]))
        with_units = bool(rng.random() < 0.5)
        m_rv = np.zeros(n, bool)
        m_err = np.zeros(n, bool)
        m_t = np.zeros(n, bool)
        masked = bool(rng.random() < 0.5)
        if masked:
            m_rv[int(rng.integers(0, n))] = True
            if n > 3:
                m_err[int(rng.choice([i for i in range(n) if not m_rv[i]]))] = True
            if n > 4 and rng.random() < 0.5:
                m_t[int(rng.choice([i for i in range(n) if not (m_rv[i] or m_err[i])]))] = True     # a missing epoch
        # route: the table parser, or the initializer handed the masked columns themselves (the tutorials' pattern
        # RVData(t=Time(tbl["bjd"], ...), rv=tbl["rv"], rv_err=tbl["rv_err"]) on a table with missing cells)
        route = "guess_from_table" if (not masked or rng.random() < 0.6) else "initializer"
        tbl = Table()
        tbl[col] = MaskedColumn(tvals, mask=m_t) if m_t.any() else tvals
        second = None
        if route == "guess_from_table" and rng.random() < 0.25:
            # the table carries the epochs a second time, in a generically named column and in the OTHER representation (JD
            # next to an mjd column and vice versa): whichever column the parser reads, it must read it as what it is
            second = str(rng.choice(["time", "t", "Time"]))
            other = mjd if fmt == "jd" else mjd + 2400000.5
            tbl[second] = MaskedColumn(other, mask=m_t) if m_t.any() else other
            ctx.count("table:epochs also in a generic time column")
        cu = unit if with_units else None
        tbl[rvname] = MaskedColumn(rv, mask=m_rv, unit=cu) if masked else rv * (u.Unit(unit) if with_units else 1)
        tbl[errname] = MaskedColumn(err, mask=m_err, unit=cu) if masked else err * (u.Unit(unit) if with_units else 1)
        scale = (kw_orig or {}).get("scale", "tcb" if low.startswith("b") else "utc")
        keep = ~(m_rv | m_err | m_t)
        desc = dict(call=call, route=route, missing_time=np.flatnonzero(m_t).tolist(), second_time_column=second, time_column=col, rv_column=rvname, err_column=errname, unit=unit, units_on_columns=with_units,
                    time_kwargs_given=kw_orig, same_dict_reused=kw_orig is not None, times=tvals.tolist(), rv=rv.tolist(), rv_err=err.tolist(),
                    missing_rv=np.flatnonzero(m_rv).tolist(), missing_err=np.flatnonzero(m_err).tolist())
        history.append(desc)
        ctx.count("table:call")
        ctx.count("table:masked" if masked else "table:complete")
        if m_t.any():
            ctx.count("table:missing epoch")
        if call > 0 and kw_orig is not None and history[call - 1]["time_column"].lower().lstrip("b") != low.lstrip("b"):
            ctx.count("table:format-changes-with-reused-kwargs")
        ref = tj.RVData(Time(tvals[keep], format=fmt, scale=scale), rv[keep] * u.Unit(unit), err[keep] * u.Unit(unit))
        try:
            if route == "guess_from_table":
                d = tj.RVData.guess_from_table(tbl, time_kwargs=kw, rv_unit=None if with_units else u.Unit(unit))
            else:
                from astropy.utils.masked import Masked
                d = tj.RVData(t=Time(np.ma.array(tvals, mask=m_t), format=fmt, scale=scale), rv=Masked(rv * u.Unit(unit), mask=m_rv),
                              rv_err=Masked(err * u.Unit(unit), mask=m_err))
                ctx.count("table:initializer handed masked Time / masked quantities")
            got = dict(t_bmjd=np.asarray(d._t_bmjd, float).tolist(), rv=np.asarray(d.rv.to_value(unit), float).tolist(),
                       rv_err=np.asarray(d.rv_err.to_value(unit), float).tolist())
        except Exception as e_:  # noqa: BLE001
            got = dict(error=f"{type(e_).__name__}: {str(e_)[:200]}")
        want = dict(t_bmjd=np.asarray(ref._t_bmjd, float).tolist(), rv=np.asarray(ref.rv.to_value(unit), float).tolist(),
                    rv_err=np.asarray(ref.rv_err.to_value(unit), float).tolist())
        ctx.evaluated(REL, (g["index"], call, masked, shared), sample=dict(history=history, got=got) if call == 1 else None)
        bad = None
        if "error" in got:
            bad = "the call raised " + got["error"]
        elif len(got["t_bmjd"]) != len(want["t_bmjd"]):
            bad = f"{len(got['t_bmjd'])} observations held, the table has {len(want['t_bmjd'])} complete rows"
        else:
            for k_ in ("t_bmjd", "rv", "rv_err"):
                a_, b_ = np.array(got[k_]), np.array(want[k_])
                if not np.all(np.abs(a_ - b_) <= 1e-9 * (1 + np.abs(b_))):
                    bad = f"{k_} differ: max gap {float(np.max(np.abs(a_ - b_))):.6g}"
                    break
        if bad:
            report(ctx, REL, g, dict(history=history), got, want,
                   "an RVData built from a table must hold exactly the table's complete rows (a missing entry is not an observation; "
                   "the result must not depend on earlier calls that were handed the same time_kwargs dictionary): " + bad,
                   dict(what="table", op="masked" if masked and "observations held" in bad else ("history" if call > 0 else "first-call")))
            return


def run_case(ctx, g):
    kind, index = g["kind"], g["index"]
    ctx.seed = g.get("seed", ctx.seed)
    rng = ctx.case_rng(kind, index)
    if kind in ("std", "cov", "stdL", "covL"):
        run_std_or_cov(ctx, g, rng, kind)
    elif kind == "bad":
        run_bad(ctx, g, rng)
    elif kind == "table":
        run_table(ctx, g, rng)


def post(ctx):
    ctx.rule = RULE
    ctx.extra["exhaustive"] = False
    ctx.extra["tolerances"] = {
        "ivar_1d": "4*2^-52 relative against the exact rational 1/err^2",
        "ivar_cov": "max |C.ivar - 1| <= 1e-10 in exact rationals (diagonally dominant C, cond < 10)",
        "everything else": "bit patterns",
    }
    ctx.extra["not_determined_by_property"] = (
        "reference epoch of a slice (counted, not compared); copy()/slicing of data holding non-finite *times* "
        "(astropy Time cannot represent them: RVData.t raises) are not exercised")
    c = ctx.counters
    q = 1 if not ctx.thorough else 20
    ctx.require("construction cases (1-D errors)", c["init:std"], 200 * q)
    ctx.require("tables with missing (masked) entries", c["table:masked"], 20 * q)
    ctx.require("tables with a missing epoch", c["table:missing epoch"], 4 * q)
    ctx.require("tables carrying the epochs also in a generic time column", c["table:epochs also in a generic time column"], 5 * q)
    ctx.require("initializer handed masked Time / masked quantities", c["table:initializer handed masked Time / masked quantities"], 5 * q)
    ctx.require("table calls re-using one time_kwargs dict while the time format changes", c["table:format-changes-with-reused-kwargs"], 5 * q)
    ctx.require("construction cases (covariance)", c["init:cov"], 80 * q)
    ctx.require("cases with tied times", c["ties:present"], 80 * q)
    ctx.require("cases where the sort permutation is not the identity", c["perm:non-identity"], 120 * q)
    ctx.require("cases where clean drops a row", c["mask:dropped"], 40 * q)
    ctx.require("clean=False cases", c["clean:False"], 60 * q)
    ctx.require("non-finite in t", c["nonfinite:t"], 10 * q)
    ctx.require("non-finite in rv", c["nonfinite:rv"], 40 * q)
    ctx.require("non-finite in err", c["nonfinite:err"], 25 * q)
    ctx.require("non-finite in covariance", c["nonfinite:cov"], 15 * q)
    ctx.require("Time inputs", c["tform:time"], 80 * q)
    ctx.require("explicit t_ref", c["tref:explicit"], 80 * q)
    ctx.require("t_ref=False", c["tref:disabled"], 40 * q)
    ctx.require("different rv / err units", c["units:differ"], 40 * q)
    ctx.require("copies with explicit t_ref", c["copy:tref:explicit"], 60 * q)
    ctx.require("copies with t_ref=False", c["copy:tref:disabled"], 25 * q)
    ctx.require("copies of data holding non-finite rows", c["copy:parent-nonfinite"], 8 * q)
    ctx.require("slices", c["getitem:slice"], 80 * q)
    ctx.require("negative-step slices", c["getitem:slice-neg"], 20 * q)
    ctx.require("boolean masks", c["getitem:mask"], 60 * q)
    ctx.require("index arrays", c["getitem:index-array"], 60 * q)
    ctx.require("ivar (1-D)", c["ivar:std"], 100 * q)
    ctx.require("ivar (covariance)", c["ivar:cov"], 40 * q)
    ctx.require("refused inputs", c["bad:t-short"] + c["bad:rv-short"] + c["bad:err-short"] + c["bad:cov-rows"]
                + c["bad:cov-cols"] + c["bad:tref-float"], 10)
