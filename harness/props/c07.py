"""C07 - physical results are invariant under the choice of units.

Metamorphic twins on the real code: one physical problem written down twice with independently chosen units for the
RV data, every prior scale (sigma_K0, max_K, custom K, sigma_v, offsets, jitter), the period prior and P0, and every
prior-sample column.  Relations:
  R1 ll.jacobian     ll(twin) - ll(base) = - n_epochs * ln(data-unit ratio)      (all call paths)
  R2 accept.same     equal seeds => the same accepted prior samples
  R3 post.physical   the (mean, cov) handed to the linear-parameter draw are physically equal (a*c, A*c^2),
                     returned nonlinear rows physically equal
  R4 units.conv      every conversion factor astropy applies equals the Lean `Units.conv` on exact rational scales"""
import copy
import tempfile
from fractions import Fraction as F

import numpy as np

import core
import kern
import oracle
import rec
import scen

NEEDS_KERNEL = True
R1, R2, R3, R4 = "ll.jacobian", "accept.same", "post.physical", "units.conv=Units.conv"
RULE = ("random canonical problems x independently re-expressed twins (data unit, each prior parameter's unit, P prior / P0 "
        "unit, each library column's unit); non-trivial iff the data-unit ratio != 1 or the P / P0 unit differs from day")
VEL = {"km/s": F(1000), "m/s": F(1), "cm/s": F(1, 100)}
TIM = {"day": F(1), "yr": F(36525, 100), "hour": F(1, 24)}


def plan(ctx):
    # "twinL": many epochs - det(2 pi B) (not its logarithm) leaves the double range in ONE of the two unit systems
    return ([("twin", i) for i in range(120 if ctx.thorough else 18)] + [("conv", 0)]
            + [("twinL", i) for i in range(12 if ctx.thorough else 4)])


def cv(value, old, new):
    return float((value * scen.U(old)).to_value(scen.U(new)))


ERR_UNIT_DIFFERS = [0]


def reexpress(pr, rng):
    """same physical problem, new units everywhere"""
    p2 = scen.Problem()
    p2.p, p2.q, p2.keys = pr.p, pr.q, pr.keys
    vu = lambda: str(rng.choice(scen.VEL_UNITS))
    tu = lambda: str(rng.choice(scen.TIME_UNITS))
    du2 = vu()
    for i, sv in enumerate(pr.surveys):
        un = du2 if i == 0 or rng.random() < 0.6 else vu()
        f = scen.U(sv["unit"]).to(scen.U(un))
        eun = un if rng.random() < 0.5 else vu()      # uncertainties possibly in another unit than the velocities
        fe = scen.U(sv.get("err_unit", sv["unit"])).to(scen.U(eun))
        if eun != un:
            ERR_UNIT_DIFFERS[0] += 1
        p2.surveys.append(dict(t=sv["t"].copy(), rv=sv["rv"] * f, err=sv["err"] * fe, unit=un, err_unit=eun))
    d = copy.deepcopy(pr.desc)
    Pu = tu()
    d["P"] = dict(unit=Pu, P_min=cv(d["P"]["P_min"], d["P"]["unit"], Pu), P_max=cv(d["P"]["P_max"], d["P"]["unit"], Pu))
    K = d["K"]
    Ku = vu()
    if K["kind"] == "fcm":
        P0u, mku = tu(), vu()
        K.update(sigma_K0=cv(K["sigma_K0"], K["unit"], Ku), mu=cv(K["mu"], K["unit"], Ku),
                 P0=cv(K["P0"], K["P0_unit"], P0u), P0_unit=P0u, max_K=cv(K["max_K"], K["max_K_unit"], mku), max_K_unit=mku, unit=Ku)
    else:
        K.update(mu=cv(K["mu"], K["unit"], Ku), sigma=cv(K["sigma"], K["unit"], Ku), unit=Ku)
    for l, v in enumerate(d["v"]):
        nu = vu()
        tt = str(rng.choice(["day", "yr"]))
        unit = nu if l == 0 else f"{nu} / {tt}{'' if l == 1 else str(l)}"
        v.update(sigma=cv(v["sigma"], v["unit"], unit), mu=cv(v["mu"], v["unit"], unit), unit=unit)
    for o in d["offsets"]:
        nu = vu()
        o.update(sigma=cv(o["sigma"], o["unit"], nu), mu=cv(o["mu"], o["unit"], nu), unit=nu)
    s = d["s"]
    nu = vu()
    if s["kind"] == "sampled":
        s.update(mu=s["mu"] + float(np.log(scen.U(s["unit"]).to(scen.U(nu)))), unit=nu)
    else:
        s.update(value=cv(s["value"], s["unit"], nu), unit=nu)
    p2.desc = d
    scen.build_objects(p2)
    return p2


def library_like(pr2, phys, du_old, rng, ln_prior, force_dex=False):
    import astropy.units as u
    import thejoker as tj
    cu = dict(P=scen.U(str(rng.choice(scen.TIME_UNITS))), omega=scen.U(str(rng.choice(["rad", "deg"]))),
              M0=scen.U(str(rng.choice(["rad", "deg"]))), s=scen.U(str(rng.choice(scen.VEL_UNITS))))
    lib = tj.JokerSamples(poly_trend=pr2.p, n_offsets=pr2.q)
    if force_dex:
        # a logarithmic unit (accepted by JokerSamples: dex(d) is "equivalent" to d): values convert by 10**x, not by a factor
        cu["P"] = u.dex(u.day)
    lib["P"] = (phys["P"] * u.day).to(cu["P"])
    lib["e"] = phys["e"] * u.one
    lib["omega"] = (phys["omega"] * u.rad).to(cu["omega"])
    lib["M0"] = (phys["M0"] * u.rad).to(cu["M0"])
    lib["s"] = (phys["s"] * du_old).to(cu["s"])
    lib["ln_prior"] = np.array(ln_prior, dtype="f8")        # the same recognisable values as the base library
    return lib, {k: str(v) for k, v in cu.items()}


def run_conv(ctx, g, rng):
    """R4: astropy's conversion factors vs the Lean model on exact rational scales"""
    for kind, table in (("vel", VEL), ("time", TIM)):
        for a in table:
            for b in table:
                for _ in range(3):
                    v = float(rng.normal(0, 100))
                    got = float((v * scen.U(a)).to_value(scen.U(b)))
                    m = core.rat(ctx.model({"op": "units.conv", "value": core.bits(v), "scale": str(table[a]), "target": str(table[b])})["value"])
                    ctx.evaluated(R4, (a, b) if a != b else None, sample=dict(value=v, frm=a, to=b, astropy=got, model=float(m)))
                    if abs(got - float(m)) > 4e-16 * abs(float(m)) * 2 + 1e-300:
                        ctx.violation(R4, g, dict(value=v, frm=a, to=b), got, float(m),
                                      "unit conversion must be value * scale(from) / scale(to)")


def run_twin_large(ctx, g, rng):
    """the same many-epoch problem in km/s and in m/s: ln-likelihoods differ by -n ln(1000) exactly (both finite)"""
    import astropy.units as u
    import pymc as pm
    import thejoker as tj
    regime = ("km/s-class errors", "m/s-class errors")[g["index"] % 2]
    n = int(rng.integers(50, 90)) if g["index"] % 2 == 0 else int(rng.integers(90, 150))
    t = np.sort(rng.uniform(0, 700, n)) + 58000.0
    err = rng.uniform(0.8, 2.5, n) if g["index"] % 2 == 0 else rng.uniform(0.002, 0.006, n)      # km/s
    P0, e0 = float(rng.uniform(5, 80)), float(rng.uniform(0, 0.5))
    y = 20.0 * scen.kepler_column(t, P0, e0, 1.0, 2.0, float(t.min())) + 7.0 + rng.normal(0, 1, n) * err    # km/s
    with pm.Model():
        prior = tj.JokerPrior.default(P_min=2 * u.day, P_max=500 * u.day, sigma_K0=30 * u.km / u.s, sigma_v=100 * u.km / u.s)
    N = 5
    smp = tj.JokerSamples()
    smp["P"] = np.concatenate([[P0], rng.uniform(3, 300, N - 1)]) * u.day
    smp["e"] = np.concatenate([[e0], rng.uniform(0, 0.8, N - 1)]) * u.one
    smp["omega"] = np.concatenate([[1.0], rng.uniform(0, 6.28, N - 1)]) * u.rad
    smp["M0"] = np.concatenate([[2.0], rng.uniform(0, 6.28, N - 1)]) * u.rad
    smp["s"] = np.zeros(N) * u.km / u.s
    jk = tj.TheJoker(prior, rng=np.random.default_rng(1))
    inp = dict(n_epochs=n, regime=regime, median_err_kms=float(np.median(err)))
    ctx.count(f"twinL:{regime}")
    ctx.evaluated(R1, (g["kind"], g["index"]))
    out = {}
    for name, un in (("km/s", u.km / u.s), ("m/s", u.m / u.s)):
        d = tj.RVData(t, (y * u.km / u.s).to(un), (err * u.km / u.s).to(un))
        try:
            out[name] = np.asarray(jk.marginal_ln_likelihood(d, smp, in_memory=True), dtype=float)
        except Exception as e:   # noqa: BLE001
            ctx.violation(R1, g, dict(inp, data_unit=name), f"{type(e).__name__}: {str(e)[:160]}", None,
                          "the same physical problem must be evaluable in every unit system", tags=dict(kind="twinL", regime=regime))
            return
    a, b = out["km/s"], out["m/s"]
    expect = a - n * np.log(1000.0)
    dev = np.abs(b - expect)
    tol = 1e-7 * (1 + np.abs(a))
    if not (np.all(np.isfinite(a)) and np.all(np.isfinite(b)) and np.all(dev <= tol)):
        i = int(np.argmax(np.where(np.isfinite(dev), dev, np.inf)))
        ctx.violation(R1, g, dict(inp, row=i), dict(ll_kms=float(a[i]), ll_ms=float(b[i])), dict(expected_ms=float(expect[i]), tol=float(tol[i])),
                      "re-expressing the problem in other units changes ln-likelihood only by -n*ln(data unit ratio)",
                      tags=dict(kind="twinL", regime=regime))


def run_case(ctx, g):
    import astropy.units as u
    ctx.seed = g.get("seed", ctx.seed)
    rng = ctx.case_rng(g["kind"], g["index"])
    if g["kind"] == "conv":
        return run_conv(ctx, g, rng)
    if g["kind"] == "twinL":
        return run_twin_large(ctx, g, rng)
    pr = scen.make_problem(rng, n=int(rng.integers(2, 11)), units="canonical")
    N = 40
    lib, phys = scen.make_library(rng, pr, N, units="canonical")
    pr2 = reexpress(pr, rng)
    # every fourth twin library has its period column in dex(d) (a function of the case index: coverage must not be luck)
    force_dex = g["index"] % 4 == 1
    lib2, lib2_units = library_like(pr2, phys, pr.data_unit, rng, np.asarray(lib["ln_prior"]), force_dex=force_dex)
    n = len(pr.merged()[0])
    cfac = float(pr.data_unit.to(pr2.data_unit))          # values in twin = values in base * cfac
    nontriv = (g["index"],) if (cfac != 1.0 or pr2.desc["P"]["unit"] != "day" or pr2.desc["K"].get("P0_unit", "day") != "day") else None
    if any(sv.get("err_unit", sv["unit"]) != sv["unit"] for sv in pr2.surveys):
        ctx.count("twin with rv_err in another unit than rv")
        if pr2.q > 0:
            ctx.count("multi-survey twin with rv_err in another unit than rv")
    ctx.count(f"data_unit_ratio={cfac:g}"); ctx.count("P_unit=" + pr2.desc["P"]["unit"])

    ctx.count("K=" + pr.desc["K"]["kind"]); ctx.count(f"q={pr.q}"); ctx.count(f"p={pr.p}")
    inp = dict(base=dict(desc=pr.desc, surveys=[dict(unit=s["unit"], t=s["t"], rv=s["rv"], err=s["err"]) for s in pr.surveys]),
               twin=dict(desc=pr2.desc, surveys=[dict(unit=s["unit"]) for s in pr2.surveys], lib_units=lib2_units),
               p=pr.p, q=pr.q, n=n, data_form=str(pr.keys))
    tags = dict(p=pr.p, q=pr.q, K=pr.desc["K"]["kind"], data_ratio=cfac, P_unit=pr2.desc["P"]["unit"], P0_unit=pr2.desc["K"].get("P0_unit"))
    seed = int(rng.integers(0, 2**31))
    path = str(rng.choice(["mem", "file"]))
    if force_dex:
        path = "file" if (g["index"] // 4) % 2 == 0 else "mem"
    ctx.count("path=" + path)
    if "dex" in lib2_units["P"]:
        ctx.count("twin library with P in a logarithmic unit, path=" + path)
    res = []
    for P_, L_ in ((pr, lib), (pr2, lib2)):
        gen = rec.RecGen(seed)
        pool = rec.RecPool(size=1)
        with tempfile.TemporaryDirectory(prefix="verif_c07_") as td:
            jk = P_.joker(rng=gen, pool=pool, tempfile_path=td)
            ll = np.array(jk.marginal_ln_likelihood(P_.data, L_, in_memory=(path == "mem")))
            out, lls = jk.rejection_sample(P_.data, L_, in_memory=(path == "mem"), return_all_logprobs=True, return_logprobs=True)
        mvn = gen.of("multivariate_normal")
        for m in pool.maps:
            for ch in m["children"]:
                mvn += ch.of("multivariate_normal")
        uu = gen.of("uniform")[0]["out"]
        res.append(dict(ll=ll, out=out, lls=np.array(lls), mvn=mvn, uu=uu))
    a, b = res
    # tolerance from the forward-error budget of the base problem (worst row)
    c = kern.canon(pr)
    tol = np.zeros(N)
    tol_stable = np.zeros(N)      # what two backward-stable evaluations could differ by
    for i in range(N):
        th = kern.theta_of(phys, i)
        M = kern.design(pr, c, th)
        var = [float(v) for v in kern.var_exact(c, th["s"])]
        lam = [float(v) for v in kern.lam_exact(pr, c, th)]
        rr = c["y"] - M @ c["mu"]
        tF, well, cA, cB = kern.budget(M, var, lam, 0.0, a["ll"][i], n, th["e"], r=rr)
        tol[i] = 4 * tF + 1e-9 * (1 + abs(a["ll"][i])) + 1e-13 * np.sqrt(cB) * float(np.sum(rr ** 2 / np.array(var)))
        tol_stable[i] = min(tol[i], 400 * 2.220446049250313e-16 * cB * (abs(2 * float(a["ll"][i])) + 3 * n)
                            + 1e-9 * (1 + abs(a["ll"][i])))
    # ---- R1 ----
    expect = a["ll"] - n * np.log(cfac)
    dev = np.abs(b["ll"] - expect)
    mg = ctx.extra.setdefault("margins", dict(max_jacobian_dev_over_tol=0.0))
    mg["max_jacobian_dev_over_tol"] = max(mg["max_jacobian_dev_over_tol"], float(np.max(dev / tol)))
    ctx.evaluated(R1, nontriv, sample=dict(n=n, data_unit_ratio=cfac, ll_base=a["ll"][:3], ll_twin=b["ll"][:3], expected_shift=-n * np.log(cfac)))
    soft = np.where((dev > tol_stable) & (dev <= tol))[0]
    if len(soft):
        # twins differ by more than two backward-stable evaluations would, within the error bound of the kernel's
        # Woodbury route: the known numerical instability (known_findings.json, C07-woodbury-cancellation)
        i = int(soft[0])
        ctx.count("twin deviation beyond backward-stable evaluation but within the Woodbury route's error bound", len(soft))
        ctx.violation(R1, g, dict(inp, row=i, theta=kern.theta_of(phys, i)), dict(ll_base=a["ll"][i], ll_twin=b["ll"][i]),
                      dict(expected_twin=expect[i], tol_backward_stable=tol_stable[i], budget_of_the_woodbury_route=tol[i]),
                      "re-expressing the problem in other units changes ln-likelihood only by -n*ln(data unit ratio)",
                      tags=dict(tags, what="woodbury-cancellation"))
    bad = np.where(~(dev <= tol))[0]
    if len(bad):
        i = int(bad[0])
        ctx.violation(R1, g, dict(inp, row=i, theta=kern.theta_of(phys, i)), dict(ll_base=a["ll"][i], ll_twin=b["ll"][i]),
                      dict(expected_twin=expect[i], tol=tol[i]),
                      "re-expressing the problem in other units changes ln-likelihood only by -n*ln(data unit ratio)", tags=tags)
        return
    # ---- R2 ----
    ia = np.atleast_1d(a["out"]["ln_prior"]).astype(float)
    ib = np.atleast_1d(b["out"]["ln_prior"]).astype(float)
    ctx.evaluated(R2, nontriv)
    if not np.array_equal(ia, ib):
        # borderline decisions exp(ll-max) vs u are re-examined before blaming the code
        da = np.exp(a["lls"] - a["lls"].max()) - a["uu"]
        db = np.exp(b["lls"] - b["lls"].max()) - b["uu"]
        flipped = np.where((da > 0) != (db > 0))[0]
        if len(flipped) and np.all(np.minimum(np.abs(da[flipped]), np.abs(db[flipped])) < 1e-7):
            ctx.count("borderline_acceptance_flip")
        else:
            ctx.violation(R2, g, inp, dict(accepted_base=ia, accepted_twin=ib), None,
                          "equal seeds must accept the same prior samples whatever the units", tags=tags)
            return
    # ---- R3 ----
    ctx.evaluated(R3, nontriv)
    import astropy.units as u
    for nm, un in (("P", u.day), ("e", u.one), ("omega", u.rad), ("M0", u.rad), ("s", u.km / u.s)):
        va, vb = np.atleast_1d(a["out"][nm].to_value(un)), np.atleast_1d(b["out"][nm].to_value(un))
        if va.shape != vb.shape or not np.allclose(va, vb, rtol=1e-12, atol=1e-300):
            ctx.violation(R3, g, inp, {nm: vb}, {nm: va}, f"returned nonlinear column {nm} must be physically equal", tags=tags)
            return
    if len(a["mvn"]) != len(b["mvn"]):
        ctx.violation(R3, g, inp, len(b["mvn"]), len(a["mvn"]), "same number of linear-parameter draws", tags=tags)
        return
    # physical scaling of each linear parameter: velocities scale by cfac (per day^l unchanged: internal time unit is day)
    for ca, cb in zip(a["mvn"][:4], b["mvn"][:4]):
        ma, Aa = np.array(ca["args"][0]), np.array(ca["args"][1])
        mb, Ab = np.array(cb["args"][0]), np.array(cb["args"][1])
        sd = np.sqrt(np.diag(Aa))
        cA = float(np.linalg.cond(Aa))
        epsc = 200 * 2.2e-16 * cA + 1e-9
        em = np.max(np.abs(mb / cfac - ma) / (np.abs(ma) + sd))
        ec = np.max(np.abs(Ab / cfac ** 2 - Aa) / np.outer(sd, sd))
        if not (em <= epsc and ec <= epsc):
            ctx.violation(R3, g, inp, dict(mean_twin=mb, cov_twin=Ab), dict(mean_base=ma, cov_base=Aa, ratio=cfac, tol=epsc),
                          "posterior parameters of the linear draw must be physically equal (a*c, A*c^2)", tags=tags)
            return


def post(ctx):
    ctx.rule = RULE
    c = ctx.counters
    if not ctx.replay_mode:
        ctx.require("data unit changed", sum(v for k, v in c.items() if k.startswith("data_unit_ratio=") and k != "data_unit_ratio=1"), 5)
        ctx.require("P prior not in days", c["P_unit=yr"] + c["P_unit=hour"], 5)
        ctx.require("default-K problems", c["K=fcm"], 5)
        ctx.require("twin libraries with the period column in dex(d), read through the cache file",
                    c["twin library with P in a logarithmic unit, path=file"], 2)
        ctx.require("twins whose uncertainties are quoted in another unit than the velocities", c["twin with rv_err in another unit than rv"], 4)
        ctx.require("... of which multi-survey", c["multi-survey twin with rv_err in another unit than rv"], 2)
