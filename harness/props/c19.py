"""C19 - time-sampling diagnostics equal their definitions.

Tie: the real `thejoker.samples_analysis.{MAP_sample, max_phase_gap, phase_coverage, periods_spanned}` and
`RVData.phase` run in-process on generated observation patterns; the same *declared* numbers (BMJD doubles, the
period with its unit, n_bins, the two log-probability columns) go to the Lean model (`Diag.*`, executed at exact
rationals; `MAP` also at Float).  Outputs are compared under a stated forward-error budget; on any difference the
property's own predicate is decided by an independent oracle in exact rational arithmetic (`fractions`).

Tolerances (eps = 2^-53, unit round-off of binary64):
* phase: the code forms q = (t - t_ref)/P with at most 4 roundings (TimeDelta -> double, division, unit scale
  factor and its product) and reduces it with an exact fmod (+1 rounding for q < 0), so the circular distance to
  the exact phase is <= 8 eps max(1,|q|)  (factor 2 of margin).
* max_phase_gap: the largest empty arc is 2-Lipschitz in the phases (circular sup-norm) and the code adds one
  subtraction and possibly one `+ 1`: |impl - exact| <= 2 max_i tol_phase_i + 4 eps.
* phase_coverage: an integer decision per observation; exact unless an exact phase lies within
  tol_phase_i + 2^-51 of a bin edge (numpy's float edges k*(1/n) are within 2^-52 of k/n), in which case the count
  only has to be one that is reachable by moving those observations to the neighbouring bin.
* periods_spanned: the code reads `t.jd` (one double near 2.45e6, ulp 2^-31 d): |T_impl - T| <= 2^-31 + 4 eps T,
  then one division: tolerance (2^-31 + 4 eps T)/P + 4 eps T/P.
* MAP_sample: the row must maximise the exact sum up to the rounding of the two float sums being compared,
  2^-52 max(|S_idx|, |S_max|).
"""
import math
from fractions import Fraction

import numpy as np

import core

EPS = 2.0 ** -53
UNIT_DAYS = {"day": Fraction(1), "yr": Fraction(1461, 4), "hour": Fraction(1, 24), "min": Fraction(1, 1440)}
PATTERNS = ["uniform", "wrapdom", "wrapdom_tref", "interior", "edges", "dups", "single", "lattice", "sparse"]

RULE = ("random observation patterns (uniform, phase-clustered so that the wrap-around arc is the largest, clusters "
        "straddling phase 0, exact bin-edge phases, duplicates, single epoch, integer-period lattices, explicit "
        "reference epochs before/after the data) x periods from 1e-3 to 30 baselines in day/yr/hour/min x n_bins 1..50; "
        "shuffled and time-reversed twins; sample tables with ties, -inf and prior-dominated maxima.  A gap case is "
        "non-trivial when the wrap-around arc exceeds every interior arc by > 1e-6 (a formula without it differs), a "
        "coverage case when 0 < occupied < n_bins, a MAP case when argmax(ln_prior+ln_likelihood) differs from "
        "argmax(ln_likelihood) or there is a tie (distinct = distinct generated inputs)")


def F(x):
    return Fraction(float(x))


def plan(ctx):
    k = 30 if ctx.thorough else 1
    cases = [("gap", i) for i in range(700 * k)]
    cases += [("sym", i) for i in range(200 * k)]
    cases += [("map", i) for i in range(300 * k)]
    if ctx.thorough:      # larger sizes live in their own kinds so that a replay never depends on the tier
        cases += [("gap_big", i) for i in range(1500)]
        cases += [("map_big", i) for i in range(400)]
    return cases


# ------------------------------------------------------------------------------------------------
# generators


def dyadic(x, k):
    return np.round(np.asarray(x, dtype=float) * 2.0 ** k) / 2.0 ** k


def gen_pattern(rng, pattern=None, force_dyadic=False, nmax=61):
    """one observation pattern: declared BMJD doubles (in the order given to RVData), period value + unit, n_bins,
    optional explicit reference epoch"""
    if pattern is None:
        pattern = str(rng.choice(PATTERNS, p=[0.18, 0.2, 0.1, 0.12, 0.16, 0.06, 0.04, 0.07, 0.07]))
    t0 = float(rng.choice([50000.0, 55123.25, 58000.5, 59999.75]))
    unit = str(rng.choice(["day", "yr", "hour", "min"], p=[0.55, 0.15, 0.15, 0.15]))
    ud = float(UNIT_DAYS[unit])
    n = int(rng.integers(2, nmax))
    tref = None
    nb = int(rng.choice([1, 2, 3, 4, 5, 7, 8, 10, 16, 25, 50, int(rng.integers(1, 51))]))
    if pattern == "uniform":
        base = float(10 ** rng.uniform(0.3, 3.5))
        Pd = base * float(10 ** rng.uniform(-3.0, 1.5))
        t = t0 + rng.uniform(0, base, n)
    elif pattern in ("wrapdom", "wrapdom_tref", "interior"):
        Pd = float(10 ** rng.uniform(-1.0, 2.5))
        ncyc = int(rng.choice([1, 3, 20, 400]))
        k = rng.integers(0, ncyc, n).astype(float)
        if pattern == "interior":      # two clusters hugging phase 0 from both sides: largest arc is interior
            w = rng.uniform(0.02, 0.2)
            ph = np.where(rng.random(n) < 0.5, rng.uniform(0, w, n), rng.uniform(1 - w, 1, n))
        else:                          # one cluster of width w < 1/2: the arc through 1 -> 0 is the largest
            w = rng.uniform(0.01, 0.45)
            ph = rng.uniform(0, w, n)
        k[0], ph[0] = 0.0, 0.0         # the earliest epoch (default t_ref) sits at phase 0
        t = t0 + (k + ph) * Pd
        if pattern == "wrapdom_tref":  # explicit reference epoch: the cluster moves anywhere on the circle
            tref = t0 + float(rng.uniform(-3, 3)) * Pd
    elif pattern == "edges":           # dyadic periods / times: phases are exact multiples of 1/64
        Pd = float(rng.choice([0.25, 0.5, 1.0, 2.0, 4.0]))
        t = t0 + rng.integers(0, 64 * 40, n) / 64.0 * min(Pd, 1.0)
        nb = int(rng.choice([1, 2, 4, 8, 16, 32, 64, 2, 4, 8, 5, 10, 3]))
        unit, ud = "day", 1.0
    elif pattern == "dups":
        base = float(10 ** rng.uniform(0.3, 3.0))
        Pd = base * float(10 ** rng.uniform(-2.0, 1.0))
        m = max(1, n // 3)
        t = t0 + rng.choice(rng.uniform(0, base, m), n)
    elif pattern == "single":
        n = 1
        Pd = float(10 ** rng.uniform(-1, 3))
        t = t0 + rng.uniform(0, 100, 1)
    elif pattern == "lattice":         # all epochs (nearly) a whole number of periods apart: phases ~ 0 or ~ 1
        Pd = float(rng.choice([0.1, 0.3, 1.7, 3.3, 12.1]))
        t = t0 + rng.integers(0, 300, n) * Pd
    else:                              # sparse: 2-4 epochs
        n = int(rng.integers(2, 5))
        base = float(10 ** rng.uniform(0.3, 3.5))
        Pd = base * float(10 ** rng.uniform(-1.5, 1.5))
        t = t0 + rng.uniform(0, base, n)
    if tref is None and pattern not in ("wrapdom",) and rng.random() < 0.25:
        span = float(np.ptp(t)) + Pd
        tref = float(t.min() + rng.uniform(-1.5, 2.5) * span)
    if force_dyadic or rng.random() < 0.4:
        t = dyadic(t, 10)
        if tref is not None:
            tref = float(dyadic(tref, 10))
    t = np.asarray(t, dtype=float)
    P = Pd / ud
    if force_dyadic:
        P = float(dyadic(P, 12)) or 2.0 ** -12
    t = t[rng.permutation(len(t))]
    as_time = bool(rng.random() < 0.5)
    # RVData(t_ref=False): "disable subtracting the reference time" - phases are then relative to BMJD 0
    disabled = tref is None and bool(rng.random() < 0.15)
    # single-precision inputs (a FITS 'E' column of epochs; prior.sample(dtype=float32) periods): the declared numbers are the
    # float32 values themselves, the diagnostics are still those of these numbers
    narrow = (not as_time) and bool(rng.random() < 0.25)
    if narrow:
        t = np.asarray(np.asarray(t, dtype=np.float32), dtype=float)
        P = float(np.float32(P))
    return dict(pattern=pattern, t=[float(v) for v in t], P=float(P), unit=unit, n_bins=nb, narrow=narrow,
                t_ref=0.0 if disabled else (None if tref is None else float(tref)), t_ref_disabled=disabled, as_time=as_time)


# ------------------------------------------------------------------------------------------------
# exact oracle (independent of the Lean model): fractions only


def exact_phases(ts, tref, Pd):
    out = []
    for t in ts:
        q = (t - tref) / Pd
        out.append((q - math.floor(q), q))
    return out


def exact_arcs(phis):
    s = sorted(phis)
    interior = [b - a for a, b in zip(s[:-1], s[1:])]
    wrap = s[0] + 1 - s[-1]
    return interior, wrap


def exact_bins(phis, n):
    """bin of each exact phase in [0,1): [k/n,(k+1)/n)"""
    return [min(int(math.floor(p * n)), n - 1) for p in phis]


def circ_dist(a, b):
    d = abs(a - b)
    return min(d, abs(1 - d))


def reachable_counts(phis, tols, n):
    """set of occupied-bin counts that are consistent with the exact phases when every phase may move by its
    tolerance across a bin edge (incl. the 0/1 seam)"""
    certain = set()
    amb = []
    for p, tol in zip(phis, tols):
        k = min(int(math.floor(p * n)), n - 1)
        cands = {k}
        lo_edge = Fraction(k, n)
        hi_edge = Fraction(k + 1, n)
        if p - lo_edge <= tol:
            cands.add((k - 1) % n)
        if hi_edge - p <= tol:
            cands.add((k + 1) % n)
        if len(cands) == 1:
            certain.add(k)
        else:
            amb.append(sorted(cands))
    namb = len(amb)
    amb = [c for c in amb if not all(b in certain for b in c)]   # the others cannot change the count
    import itertools
    mult = {}
    for c in amb:
        mult[tuple(c)] = mult.get(tuple(c), 0) + 1
    # observations sharing a candidate set may end up in different bins: any non-empty subset of the candidates
    # of size <= their number can be the set of bins they occupy
    options = []
    for c, k in mult.items():
        opts = []
        for r in range(1, min(k, len(c)) + 1):
            opts += [set(x) for x in itertools.combinations(c, r)]
        options.append(opts)
    total = 1
    for o in options:
        total *= len(o)
    if total <= 20000:
        res = set()
        for choice in itertools.product(*options) if options else [()]:
            occ = set(certain)
            for ch in choice:
                occ |= ch
            res.add(len(occ))
        return res, namb
    allc = set(certain)
    for c in mult:
        allc |= set(c)
    return set(range(len(certain), len(allc) + 1)), namb


# ------------------------------------------------------------------------------------------------
# running the real code


def build(case, t=None):
    import astropy.units as u
    from astropy.time import Time
    from thejoker import JokerSamples, RVData
    t = np.array(case["t"] if t is None else t, dtype=float)
    n = len(t)
    rv = (np.arange(n) * 1.25 - 3.0) * u.km / u.s
    err = (0.5 + 0.01 * np.arange(n)) * u.km / u.s
    # (times the harness derives from a float32 pattern - reversed, shifted - are in general not float32 numbers: they are handed
    # over in single precision only when that is exact)
    if case.get("narrow") and np.array_equal(t.astype(np.float32).astype(float), t):
        t = t.astype(np.float32)
    tt = Time(t, format="mjd", scale="tcb") if case["as_time"] else t
    kw = {}
    if case.get("t_ref_disabled"):
        kw["t_ref"] = False
    elif case["t_ref"] is not None:
        kw["t_ref"] = Time(case["t_ref"], format="mjd", scale="tcb")
    if case.get("nosort"):
        kw["sort"] = False          # the observations stay in the order given (a public option of RVData)
    data = RVData(tt, rv=rv, rv_err=err, **kw)
    s = JokerSamples()
    s["P"] = np.array([case["P"]], dtype=np.float32 if case.get("narrow") else float) * u.Unit(case["unit"])
    return data, s


def to_float(x):
    import astropy.units as u
    v = u.Quantity(x).to_value(u.one)
    v = np.asarray(v, dtype=float)
    if v.size != 1:
        raise ValueError(f"expected a scalar, got shape {v.shape}")
    return float(v.reshape(-1)[0])


def in_time_order(case, t, ph):
    """RVData(sort=False) keeps the observations - hence their phases - in the order given: bring them into time order (stable;
    equal epochs have equal phases) so that they line up with the sorted epochs of the oracle"""
    if not case.get("nosort"):
        return ph
    tt = np.array(case["t"] if t is None else t, dtype=float)
    if len(ph) != len(tt):
        return ph
    return np.asarray(ph)[np.argsort(tt, kind="stable")]


def impl_diag(case, t=None):
    from thejoker.samples_analysis import max_phase_gap, periods_spanned, phase_coverage
    import astropy.units as u
    data, s = build(case, t)
    ph = np.asarray(u.Quantity(data.phase(s["P"])).to_value(u.one), dtype=float).reshape(-1)
    ph = in_time_order(case, t, ph)
    return dict(phase=[float(v) for v in ph], gap=to_float(max_phase_gap(s, data)),
                cov=float(phase_coverage(s, data, n_bins=case["n_bins"])), per=to_float(periods_spanned(s, data)))


def exact_case(case, t=None):
    ts = sorted(F(v) for v in (case["t"] if t is None else t))
    tref = F(case["t_ref"]) if case["t_ref"] is not None else ts[0]
    Pd = F(case["P"]) * UNIT_DAYS[case["unit"]]
    pq = exact_phases(ts, tref, Pd)
    phis = [p for p, _ in pq]
    tolp = [Fraction(8 * EPS) * max(1, abs(q)) for _, q in pq]
    interior, wrap = exact_arcs(phis)
    G = max(interior + [wrap])
    T = ts[-1] - ts[0]
    return dict(ts=ts, tref=tref, Pd=Pd, phis=phis, tolp=tolp, interior=interior, wrap=wrap, G=G, T=T,
                tol_gap=2 * max(tolp) + Fraction(4 * EPS),
                tol_per=(Fraction(2.0 ** -31) + Fraction(4 * EPS) * T) / Pd + Fraction(4 * EPS) * T / Pd)


def model_ops(ctx, case, ex):
    base = {"t": [core.bits(float(v)) for v in ex["ts"]], "tref": core.bits(float(ex["tref"])),
            "P": core.bits(case["P"]), "Pscale": str(UNIT_DAYS[case["unit"]])}
    m1 = ctx.model(dict(base, op="diag.gap"))
    m2 = ctx.model(dict(base, op="diag.phase"))
    m3 = ctx.model(dict(base, op="diag.coverage", n=case["n_bins"]))
    m4 = ctx.model(dict(op="diag.periods", t=base["t"], P=base["P"], Pscale=base["Pscale"]))
    return m1, m2, m3, m4


def check_pattern(ctx, g, case, tagx=""):
    """all four diagnostics of one declared pattern against model and oracle; returns (impl, exact)"""
    ex = exact_case(case)
    impl = impl_diag(case)
    m_gap, m_ph, m_cov, m_per = model_ops(ctx, case, ex)
    n = len(ex["ts"])
    nb = case["n_bins"]
    inp = dict(case)
    ctx.count(f"pattern:{case['pattern']}")
    if case.get("nosort"):
        ctx.count("data kept in the order given (RVData(sort=False))")
        if any(a > b for a, b in zip(case["t"], case["t"][1:])):
            ctx.count("... and that order is not the time order")
    ctx.count(f"unit:{case['unit']}")
    if case.get("t_ref_disabled"):
        ctx.count("t_ref disabled (t_ref=False)")
        if case.get("narrow"):
            ctx.count("t_ref disabled and float32 epochs / period")
    if case["t_ref"] is not None:
        ctx.count("explicit_t_ref")
        if any(q < 0 for q in [(t - ex["tref"]) for t in ex["ts"]]):
            ctx.count("negative_dt")
    # the model is the exact definition: it must agree with the oracle exactly (otherwise the harness is broken)
    mphis = [Fraction(s) for s in m_ph["phase"]]
    if mphis != ex["phis"] or Fraction(m_gap["def"]) != ex["G"] or Fraction(m_gap["code"]) != ex["G"] \
            or Fraction(m_gap["head"]) != ex["G"]:
        raise core.Infra(f"Lean model and fraction oracle disagree on {case}")
    # --- R1 RVData.phase
    rel = "RVData.phase=Diag.phase"
    ctx.evaluated(rel, (tagx, g["kind"], g["index"]) if n > 1 else None)
    bad = None
    if len(impl["phase"]) != n:
        bad = f"{len(impl['phase'])} phases for {n} observations"
    else:
        for i, (a, p, tol) in enumerate(zip(impl["phase"], ex["phis"], ex["tolp"])):
            if not (0.0 <= a <= 1.0) or circ_dist(F(a), p) > tol:
                bad = (f"observation {i} (t={float(ex['ts'][i])!r}): phase {a!r}, definition frac((t-t_ref)/P) = "
                       f"{float(p)!r}, allowed circular deviation {float(tol):.3g}")
                break
    if bad:
        ctx.violation(rel, g, inp, impl["phase"], [float(p) for p in ex["phis"]],
                      "phase = ((t - t_ref)/P) mod 1 in [0,1): " + bad, tags=dict(fn="phase", pattern=case["pattern"]))
    # --- R2 max_phase_gap
    rel = "max_phase_gap=Diag.circGap"
    wrapdom = n >= 2 and ex["wrap"] > max(ex["interior"]) + Fraction(1, 10 ** 6)
    intdom = n >= 2 and max(ex["interior"]) > ex["wrap"] + Fraction(1, 10 ** 6)
    ctx.count("gap_cases")
    if wrapdom:
        ctx.count("gap:wrap_arc_largest")
    if intdom:
        ctx.count("gap:interior_arc_largest")
    ctx.evaluated(rel, (tagx, g["kind"], g["index"]) if wrapdom else None,
                  sample=dict(inp, impl_gap=impl["gap"], exact_gap=float(ex["G"])))
    if abs(F(impl["gap"]) - ex["G"]) > ex["tol_gap"]:
        ctx.violation(rel, g, inp, impl["gap"], dict(circGap=float(ex["G"]), exact=str(ex["G"]),
                                                     pinned_formula=None if m_gap["pinned"] is None else float(Fraction(m_gap["pinned"]))),
                      f"max_phase_gap must be the largest empty arc on the phase circle incl. the arc through phase 1->0: "
                      f"exact value {float(ex['G'])!r} (interior max {float(max(ex['interior'])) if ex['interior'] else None!r}, "
                      f"wrap arc {float(ex['wrap'])!r}), implementation {impl['gap']!r}, tolerance {float(ex['tol_gap']):.3g}",
                      tags=dict(fn="max_phase_gap", wrap_arc_largest=bool(wrapdom), pattern=case["pattern"]))
    # --- R3 phase_coverage
    rel = "phase_coverage=Diag.phaseCoverage"
    occ_exact = len(set(exact_bins(ex["phis"], nb)))
    if int(m_cov["occupied"]) != occ_exact or Fraction(m_cov["value"]) != Fraction(occ_exact, nb):
        raise core.Infra(f"Lean model and fraction oracle disagree on coverage for {case}")
    on_edge = any((p * nb).denominator == 1 and 0 < p for p in ex["phis"])
    if on_edge:
        ctx.count("coverage:phase_exactly_on_edge")
    ctx.count(f"nbins:{'1' if nb == 1 else 'small' if nb <= 8 else 'large'}")
    ctx.evaluated(rel, (tagx, g["kind"], g["index"]) if 0 < occ_exact < nb else None)
    cnt = impl["cov"] * nb
    if abs(cnt - round(cnt)) > 1e-9 * max(1, nb) or round(cnt) != occ_exact:
        tols = [tp + Fraction(2.0 ** -51) for tp in ex["tolp"]]
        reach, namb = reachable_counts(ex["phis"], tols, nb)
        if abs(cnt - round(cnt)) <= 1e-9 * max(1, nb) and round(cnt) in reach:
            ctx.count("coverage:edge_redecided")
        else:
            ctx.violation(rel, g, inp, impl["cov"], dict(occupied=occ_exact, n_bins=nb, value=occ_exact / nb,
                                                         reachable=sorted(reach), phases_near_edge=namb),
                          f"phase_coverage must be (#bins [k/n,(k+1)/n) holding an observation)/n_bins = {occ_exact}/{nb}"
                          f" (counts reachable by round-off at bin edges: {sorted(reach)}), implementation {impl['cov']!r}",
                          tags=dict(fn="phase_coverage", pattern=case["pattern"]))
    # --- R4 periods_spanned
    rel = "periods_spanned=Diag.periodsSpanned"
    want = ex["T"] / ex["Pd"]
    if Fraction(m_per["value"]) != want:
        raise core.Infra(f"Lean model and fraction oracle disagree on periods_spanned for {case}")
    ctx.evaluated(rel, (tagx, g["kind"], g["index"]) if n > 1 and case["unit"] != "day" else None)
    if abs(F(impl["per"]) - want) > ex["tol_per"]:
        ctx.violation(rel, g, inp, impl["per"], dict(value=float(want), exact=str(want)),
                      f"periods_spanned must be (max t - min t)/P = {float(want)!r}; implementation {impl['per']!r}, "
                      f"tolerance {float(ex['tol_per']):.3g}", tags=dict(fn="periods_spanned", unit=case["unit"]))
    return impl, ex


def phase_other_epoch(ctx, g, case, rng):
    """RVData.phase(P, t_ref=other)"""
    import astropy.units as u
    from astropy.time import Time
    data, s = build(case)
    ts = sorted(F(v) for v in case["t"])
    span = float(ts[-1] - ts[0]) + 1.0
    other = float(dyadic(float(ts[0]) + rng.uniform(-2, 3) * span, 10))
    Pd = F(case["P"]) * UNIT_DAYS[case["unit"]]
    got = np.asarray(u.Quantity(data.phase(s["P"], t_ref=Time(other, format="mjd", scale="tcb"))).to_value(u.one)).reshape(-1)
    got = in_time_order(case, None, got)
    pq = exact_phases(ts, F(other), Pd)
    m = ctx.model({"op": "diag.phase", "t": [core.bits(float(v)) for v in ts], "tref": core.bits(other),
                   "P": core.bits(case["P"]), "Pscale": str(UNIT_DAYS[case["unit"]])})
    if [Fraction(x) for x in m["phase"]] != [p for p, _ in pq]:
        raise core.Infra("Lean model and fraction oracle disagree on phase(t_ref=...)")
    rel = "RVData.phase(t_ref)=Diag.phase"
    ctx.evaluated(rel, (g["kind"], g["index"]))
    if any(q < 0 for _, q in pq):
        ctx.count("negative_dt")
    for i, (a, (p, q)) in enumerate(zip(got, pq)):
        tol = Fraction(8 * EPS) * max(1, abs(q))
        if len(got) != len(pq) or not (0.0 <= a <= 1.0) or circ_dist(F(a), p) > tol:
            ctx.violation(rel, g, dict(case, other_t_ref=other), [float(v) for v in got], [float(p) for p, _ in pq],
                          f"phase relative to the epoch passed in: observation {i} has {float(a)!r}, definition {float(p)!r}",
                          tags=dict(fn="phase", other_epoch=True))
            break


def sym_case(ctx, g, rng):
    case = gen_pattern(rng, force_dyadic=True)
    case["t_ref_disabled"] = False
    case["t_ref"] = None            # default epoch = earliest observation (changes under reversal: covered by the theorem)
    case["nosort"] = g["index"] % 2 == 1   # every other twin pair is handed over unsorted (shuffled / reversed order is then seen by the code)
    impl, ex = check_pattern(ctx, g, case, tagx="base")
    t = np.array(case["t"])
    # shuffled twin
    perm = rng.permutation(len(t))
    impl_s = impl_diag(case, t[perm])
    rel = "order-independence"
    ctx.evaluated(rel, (g["kind"], g["index"]) if len(t) > 2 else None)
    ctx.count("sym:shuffled")
    for key, tol in (("gap", 2 * ex["tol_gap"]), ("per", 2 * ex["tol_per"]), ("cov", Fraction(0))):
        if abs(F(impl_s[key]) - F(impl[key])) > tol:
            ctx.violation(rel, g, dict(case, perm=[int(v) for v in perm]), {key: impl_s[key]}, {key: impl[key]},
                          f"{key} must not depend on the order in which the observations are given: "
                          f"{impl[key]!r} vs {impl_s[key]!r} after shuffling", tags=dict(fn=key, sym="shuffle"))
    # time-reversed twin: t -> (tmin + tmax) - t  (exact for these dyadic times)
    tr = (t.min() + t.max()) - t
    if any(F(a) != F(t.min()) + F(t.max()) - F(b) for a, b in zip(tr, t)):
        raise core.Infra("time reversal not exact")
    case_r = dict(case, t=[float(v) for v in tr])
    ex_r = exact_case(case_r)
    if ex_r["G"] != ex["G"]:
        raise core.Infra("exact largest arc changed under time reversal (contradicts Diag.circGap_time_reversal)")
    mr = ctx.model({"op": "diag.gap", "t": [core.bits(float(v)) for v in ex_r["ts"]], "tref": core.bits(float(ex_r["tref"])),
                    "P": core.bits(case["P"]), "Pscale": str(UNIT_DAYS[case["unit"]])})
    if Fraction(mr["def"]) != ex["G"]:
        raise core.Infra("Lean model not invariant under time reversal")
    impl_r = impl_diag(case_r)
    rel = "time-reversal-invariance"
    wrapdom = len(t) >= 2 and ex["wrap"] > max(ex["interior"]) + Fraction(1, 10 ** 6)
    wrapdom_r = len(t) >= 2 and ex_r["wrap"] > max(ex_r["interior"]) + Fraction(1, 10 ** 6)
    ctx.evaluated(rel, (g["kind"], g["index"]) if wrapdom != wrapdom_r or wrapdom else None)
    ctx.count("sym:reversed")
    if wrapdom != wrapdom_r:
        ctx.count("sym:reversal_moves_largest_arc_to_seam")
    if abs(F(impl_r["gap"]) - F(impl["gap"])) > ex["tol_gap"] + ex_r["tol_gap"]:
        ctx.violation(rel, g, dict(case, reversed_t=case_r["t"]), dict(gap_reversed=impl_r["gap"]), dict(gap=impl["gap"], exact=float(ex["G"])),
                      f"max_phase_gap must not change under time reversal of the observing pattern: {impl['gap']!r} for t, "
                      f"{impl_r['gap']!r} for (tmin+tmax)-t; exact largest arc of both patterns {float(ex['G'])!r}",
                      tags=dict(fn="max_phase_gap", sym="reverse"))
    if abs(F(impl_r["per"]) - F(impl["per"])) > ex["tol_per"] + ex_r["tol_per"]:
        ctx.violation(rel, g, dict(case, reversed_t=case_r["t"]), dict(per_reversed=impl_r["per"]), dict(per=impl["per"]),
                      "periods_spanned must not change under time reversal", tags=dict(fn="periods_spanned", sym="reverse"))


# ------------------------------------------------------------------------------------------------
# MAP_sample


def gen_table(rng, nmax=201):
    n = int(rng.choice([1, 2, 3, int(rng.integers(1, 12)), int(rng.integers(1, nmax))]))
    kind = str(rng.choice(["generic", "prior_decides", "ties", "neginf", "big"], p=[0.25, 0.3, 0.2, 0.15, 0.1]))
    ll = rng.normal(-50, 20, n)
    lp = rng.normal(-10, 3, n)
    if kind == "prior_decides" and n >= 2:
        # likelihood nearly flat at its top, prior picks a different row
        ll = -30 + rng.uniform(0, 0.5, n)
        lp = rng.normal(-10, 5, n)
    elif kind == "ties" and n >= 2:
        vals = rng.integers(-6, 0, n).astype(float)
        ll = vals
        lp = rng.integers(-3, 0, n).astype(float)
    elif kind == "neginf":
        ll = np.where(rng.random(n) < 0.4, -np.inf, ll)
        lp = np.where(rng.random(n) < 0.2, -np.inf, lp)
        if rng.random() < 0.2:
            ll[:] = -np.inf
    elif kind == "big":
        ll = rng.normal(-1e6, 10, n)
        lp = rng.normal(3e5, 1e5, n)
    extra = bool(rng.random() < 0.5)
    return dict(kind=kind, n=n, lp=[float(v) for v in lp], ll=[float(v) for v in ll], with_linear=extra,
                t_ref=None if rng.random() < 0.3 else 55000.0 + float(rng.integers(0, 3000)) / 4.0,
                poly_trend=int(rng.integers(1, 4)) if extra else 1, seedcols=int(rng.integers(0, 2 ** 31)))


def build_table(tb):
    import astropy.units as u
    from astropy.time import Time
    from thejoker import JokerSamples
    r = np.random.default_rng(tb["seedcols"])
    n = tb["n"]
    kw = dict(poly_trend=tb["poly_trend"])
    if tb["t_ref"] is not None:
        kw["t_ref"] = Time(tb["t_ref"], format="mjd", scale="tcb")
    s = JokerSamples(**kw)
    s["P"] = 10 ** r.uniform(0, 3, n) * u.day
    s["e"] = r.uniform(0, 0.9, n) * u.one
    s["omega"] = r.uniform(0, 2 * np.pi, n) * u.rad
    s["M0"] = r.uniform(0, 2 * np.pi, n) * u.rad
    s["s"] = np.zeros(n) * u.km / u.s
    if tb["with_linear"]:
        s["K"] = r.normal(0, 10, n) * u.km / u.s
        s["v0"] = r.normal(0, 30, n) * u.km / u.s
        for i in range(1, tb["poly_trend"]):
            s[f"v{i}"] = r.normal(0, 1, n) * u.km / u.s / u.day ** i
    s["ln_prior"] = np.array(tb["lp"])
    s["ln_likelihood"] = np.array(tb["ll"])
    return s


def xsum(a, b):
    if a == -math.inf or b == -math.inf:
        return -math.inf
    return F(a) + F(b)


def row_of(s, i=None):
    out = {}
    for k in s.tbl.colnames:
        col = s.tbl[k]
        v = np.atleast_1d(col.value if hasattr(col, "unit") else np.asarray(col))
        out[k] = (str(getattr(col, "unit", "")), core.bits(v[0] if i is None else v[i]))
    return out


def map_case(ctx, g, rng, nmax=201):
    from thejoker.samples_analysis import MAP_sample
    tb = gen_table(rng, nmax)
    s = build_table(tb)
    n = tb["n"]
    row, idx = MAP_sample(s, return_index=True)
    row2 = MAP_sample(s)
    idx = int(idx)
    m = ctx.model({"op": "diag.map", "lp": core.bits_list(tb["lp"]), "ll": core.bits_list(tb["ll"])})
    S = [xsum(a, b) for a, b in zip(tb["lp"], tb["ll"])]
    Smax = max(S)
    amax_ll = int(np.argmax(tb["ll"]))
    maximisers = [i for i, v in enumerate(S) if v == Smax]
    tie = len(maximisers) > 1
    ctx.count(f"map:{tb['kind']}")
    if tie:
        ctx.count("map:tie")
    if maximisers[0] != amax_ll:
        ctx.count("map:prior_decides")
    if any(v == -math.inf for v in tb["ll"]):
        ctx.count("map:neginf")
    if n == 1:
        ctx.count("map:single_row")
    rel = "MAP_sample=Diag.mapIndex"
    ctx.evaluated(rel, (g["kind"], g["index"]) if (tie or maximisers[0] != amax_ll) else None,
                  sample=dict(n=n, kind=tb["kind"], impl_idx=idx, model_idx=m["idx"]))
    inp = dict(tb)
    why = None
    if not (0 <= idx < n):
        why = f"index {idx} out of range"
    else:
        if Smax != -math.inf:
            Si = S[idx]
            tol = Fraction(2.0 ** -52) * max(abs(Smax), abs(Si) if Si != -math.inf else 0)
            if Si == -math.inf or Smax - Si > tol:
                why = (f"row {idx} has ln_prior+ln_likelihood = {float(Si) if Si != -math.inf else Si!r} but row "
                       f"{maximisers[0]} has {float(Smax)!r}")
        if why is None:
            want = row_of(s, idx)
            for nm, r_ in (("(sample, index) form", row), ("plain form", row2)):
                if len(r_) != 1 or row_of(r_) != want:
                    why = f"{nm}: returned row is not row {idx} of the table: {row_of(r_)} vs {want}"
                    break
        if why is None:
            for nm, r_ in (("(sample, index) form", row), ("plain form", row2)):
                if (r_.poly_trend, r_.n_offsets) != (s.poly_trend, s.n_offsets) or \
                        (r_.t_ref is None) != (s.t_ref is None) or (s.t_ref is not None and r_.t_ref != s.t_ref):
                    why = f"{nm}: metadata of the returned row differs from the table's"
    if why is not None:
        ctx.violation(rel, g, inp, dict(idx=idx), dict(idx=m["idx"], idxExact=m["idxExact"]),
                      "MAP_sample must return the row maximising ln_prior + ln_likelihood: " + why,
                      tags=dict(fn="MAP_sample", kind=tb["kind"]))
    elif m["idx"] != idx:
        ctx.mismatch(rel, g, inp, dict(idx=idx), dict(idx=m["idx"]),
                     "index returned differs from the model's first maximiser (the property's predicate holds)",
                     tags=dict(fn="MAP_sample"))


# ------------------------------------------------------------------------------------------------


def run_case(ctx, g):
    kind, index = g["kind"], g["index"]
    ctx.seed = g.get("seed", ctx.seed)
    rng = ctx.case_rng(kind, index)
    if kind == "gap":
        case = gen_pattern(rng)
        case["nosort"] = index % 4 == 3        # by case index, not by coin: the coverage target below holds for every seed
        check_pattern(ctx, g, case)
        if rng.random() < 0.35:
            phase_other_epoch(ctx, g, case, rng)
    elif kind == "sym":
        sym_case(ctx, g, rng)
    elif kind == "map":
        map_case(ctx, g, rng)
    elif kind == "gap_big":
        case = gen_pattern(rng, nmax=400)
        case["nosort"] = index % 4 == 3
        check_pattern(ctx, g, case)
    elif kind == "map_big":
        map_case(ctx, g, rng, nmax=20000)
    else:
        raise core.Infra(f"unknown case kind {kind}")


def post(ctx):
    ctx.rule = RULE
    c = ctx.counters
    ng = max(1, c["gap_cases"])
    ctx.extra["wrap_arc_largest_fraction"] = round(c["gap:wrap_arc_largest"] / ng, 3)
    ctx.require("gap cases whose largest arc is the wrap-around arc (>=30%)", c["gap:wrap_arc_largest"], int(0.30 * ng))
    ctx.require("gap cases whose largest arc is interior (>=20%)", c["gap:interior_arc_largest"], int(0.20 * ng))
    ctx.require("phase exactly on a bin edge", c["coverage:phase_exactly_on_edge"], 15)
    ctx.require("explicit reference epoch", c["explicit_t_ref"], 30)
    ctx.require("data without a reference epoch (t_ref=False)", c["t_ref disabled (t_ref=False)"], 10)
    ctx.require("... with float32 epochs and period", c["t_ref disabled and float32 epochs / period"], 2)
    ctx.require("observations before the reference epoch (negative dt)", c["negative_dt"], 20)
    for u_ in ("day", "yr", "hour", "min"):
        ctx.require(f"period unit {u_}", c[f"unit:{u_}"], 15)
    ctx.require("n_bins = 1", c["nbins:1"], 5)
    ctx.require("n_bins > 8", c["nbins:large"], 30)
    for p in PATTERNS:
        ctx.require(f"pattern {p}", c[f"pattern:{p}"], 8)
    ctx.require("data kept in the order given, that order not being the time order (RVData(sort=False))",
                c["... and that order is not the time order"], 100)
    ctx.require("shuffled twins", c["sym:shuffled"], 50)
    ctx.require("time-reversed twins", c["sym:reversed"], 50)
    ctx.require("reversal moves the largest arc onto / off the 0-1 seam", c["sym:reversal_moves_largest_arc_to_seam"], 10)
    ctx.require("MAP ties", c["map:tie"], 10)
    ctx.require("MAP decided by the prior", c["map:prior_decides"], 20)
    ctx.require("MAP with -inf likelihoods", c["map:neginf"], 10)
    ctx.require("MAP single-row table", c["map:single_row"], 3)
