"""C09 - prior draws and reported ln_prior follow the declared densities.

Tie (DESIGN 3/C09):
 (i)   `pm.logp` of the exported classes (UniformLog, FixedCompanionMass, Kipping13*) at points inside and outside
       the support, evaluated through graphs built by the real classes, vs the Lean model (`Prior.logUniformLogp`,
       `sigmaK`, `normalLogp`, `betaLogp` at Float) and vs a 50-digit `decimal` oracle;
 (ii)  `UniformLogRV.rng_fn(rng, a, b, size)` with a recording generator: exactly one `uniform(size=size)` call on
       the given generator, draw == exp(u (ln b - ln a) + ln a) for the recorded u, a <= draw <= b; `pm.draw`
       support + DKW band (support evidence only);
 (iii) `prior.sample(return_logprobs=True, generate_linear in {False, True})`: `ln_prior - ln density(row)` must be
       the same constant on all rows, the density being the declared joint density evaluated by the oracle
       from the *declared* numbers (units as declared), rows inside the supports, DKW bands of every column.

Tolerances (stated): log-densities are sums of a handful of double-precision logs / squares of magnitude <= 1e3,
rounding <= 1e-12; compared with abs. 1e-9 (1+|value|) as the design prescribes.  Draws: numpy's exp/log differ
from the C library by an ulp or two and the argument of exp is < 40 in magnitude, so rel. 1e-13.  A decision at a
support boundary is never blamed on the code: points are kept 1e-9 (relative) away from a and b.

Verdicts: `ctx.violation` only when the value produced by the real code disagrees with the decimal oracle (the
property's own predicate); a disagreement with the Lean model alone is a `ctx.mismatch`.

pytensor functions are compiled with mode FAST_COMPILE (no numba compilation): same graphs, same values."""
import math
from decimal import Decimal, getcontext

import numpy as np

NEEDS_KERNEL = False
getcontext().prec = 50
PI = Decimal("3.14159265358979323846264338327950288419716939937510")
LN2PI = (2 * PI).ln()

RULE = ("random (a,b) over 8 decades with points inside/outside/near the support; random FixedCompanionMass "
        "configurations (units, clip binding or not, non-zero mean); the three Kipping classes; priors from the "
        "scenario engine (p, q, units, K kind, sampled/constant jitter, means, cap) sampled with and without linear "
        "parameters; non-trivial = value where a wrong formula is visible: |ln x - x| > 1e-3 for UniformLog points, "
        "points outside the support, clip-binding sigma, rows whose K term depends on (P,e); distinct = distinct inputs")

_fns = {}
_seen = set()


def violate(ctx, rel, g, inp, impl, model, predicate, tags=None):
    tags = tags or {}
    """report the first violation of each (relation, where) pair only: one defect, one VIOLATION line"""
    key = (rel, tags.get("where"), tags.get("generate_linear"))
    ctx.count(f"violations:{rel}:{tags.get('where')}")
    if key in _seen:
        return
    _seen.add(key)
    ctx.violation(rel, g, inp, impl, model, predicate, tags=tags)


def fast():
    import pytensor
    return pytensor.config.change_flags(mode="FAST_COMPILE")


def D(x):
    return Decimal(float(x))


def close(a, b, tol):
    if a is None or b is None:
        return a is None and b is None
    return abs(a - b) <= tol


def fin(x):
    """canonical log-density: None for -inf, float otherwise (nan stays nan)"""
    x = float(x)
    if x == float("-inf"):
        return None
    return x


# ------------------------------------------------------------------------------------------------
# (i)/(ii) UniformLog


def ulog_fn():
    import pymc as pm
    import pytensor
    import pytensor.tensor as pt
    from thejoker.distributions import UniformLog
    if "ulog" not in _fns:
        a, b, x = pt.dscalar("a"), pt.dscalar("b"), pt.dvector("x")
        with fast():
            _fns["ulog"] = pytensor.function([a, b, x], pm.logp(UniformLog.dist(a, b), x))
    return _fns["ulog"]


def ulog_oracle(a, b, x):
    if not (a <= x <= b):
        return None
    return float(-D(x).ln() - (D(b).ln() - D(a).ln()).ln())


def ulog_case(ctx, g, rng):
    from core import bits, bits_list, unbits
    from rec import GlobalRngWatch, RecGen
    from thejoker.distributions import UniformLogRV
    a = float(10 ** rng.uniform(-3, 3))
    b = a * float(10 ** rng.choice([rng.uniform(0.01, 0.3), rng.uniform(0.3, 5)]))
    inside = np.exp(rng.uniform(np.log(a), np.log(b), 12))
    near = np.array([a * (1 + 1e-9), b * (1 - 1e-9), math.sqrt(a * b)])
    outside = np.array([a * (1 - 1e-9), b * (1 + 1e-9), a / 2, 2 * b, a * 1e-3, b * 1e3, a * rng.uniform(0.01, 0.99), b * rng.uniform(1.01, 50)])
    xs = np.concatenate([inside, near, outside])
    inp = dict(a=a, b=b)
    # --- logp
    rel = "UniformLog.logp=Prior.logUniformLogp"
    impl = [fin(v) for v in ulog_fn()(a, b, xs)]
    us = rng.uniform(0, 1, 4)
    m = ctx.model({"op": "prior.uniformlog", "a": bits(a), "b": bits(b), "xs": bits_list(xs), "us": bits_list(us)})
    model = [None if v is None else fin(unbits(v)) for v in m["logp"]]
    for i, x in enumerate(xs):
        want = ulog_oracle(a, b, float(x))
        visible = want is None or abs(math.log(x) - x) > 1e-3
        ctx.evaluated(rel, (a, b, float(x)) if visible else None, sample=dict(inp, x=float(x), impl=impl[i], model=model[i], oracle=want))
        ctx.count("ulog:inside" if want is not None else "ulog:outside")
        tol = 1e-9 * (1 + abs(want or 0.0))
        if not (impl[i] == impl[i]) or not close(impl[i], want, tol):
            violate(ctx, rel, g, dict(inp, x=float(x)), impl[i], dict(model=model[i], oracle=want),
                          "logp(x) = -ln x - ln ln(b/a) on [a,b], -inf outside (50-digit oracle, abs tol 1e-9(1+|v|))",
                          tags=dict(dist="UniformLog", where="inside" if want is not None else "outside"))
            continue
        if not close(model[i], impl[i], tol):
            ctx.mismatch(rel, g, dict(inp, x=float(x)), impl[i], model[i], "model and implementation differ")
    # --- rng_fn with a recording generator
    rel = "UniformLogRV.rng_fn=Prior.logUniformDraw"
    size = [(7,), (3, 4), None, (1,)][int(rng.integers(0, 4))]
    gen = RecGen(int(rng.integers(0, 2**31)))
    watch = GlobalRngWatch()
    out = UniformLogRV.rng_fn(gen, a, b, size)
    changed = watch.changed()
    calls = gen.calls
    # one uniform draw per output element, from the given generator: how `size` is spelled (None or () for a scalar) is free
    want_n = 1 if size is None else int(np.prod(size))
    ok_calls = (len(calls) == 1 and calls[0]["method"] in ("uniform", "random")
                and int(np.size(calls[0]["out"])) == want_n)
    u_rec = np.atleast_1d(calls[0]["out"]).ravel() if calls else np.array([])
    out_flat = np.atleast_1d(out).ravel()
    m = ctx.model({"op": "prior.uniformlog", "a": bits(a), "b": bits(b), "xs": [], "us": bits_list(u_rec)})
    mdraw = [unbits(v) for v in m["draw"]]
    ctx.evaluated(rel, (a, b, str(size)), sample=dict(inp, size=size, u=u_rec[:3].tolist(), draw=out_flat[:3].tolist(), model=mdraw[:3]))
    ctx.count("ulog:rng_fn")
    why = None
    if changed:
        why = f"global random state touched: {changed}"
    elif not ok_calls:
        why = f"expected exactly one uniform draw of {want_n} variate(s) on the given generator, got {[(c['method'], c['kwargs']) for c in calls]}"
    elif np.shape(out) != (() if size is None else size):
        why = f"shape {np.shape(out)} for size {size}"
    else:
        for uu, dv in zip(u_rec, out_flat):
            want = float((D(uu) * (D(b).ln() - D(a).ln()) + D(a).ln()).exp())
            if abs(dv - want) > 1e-13 * want:
                why = f"draw {dv!r} != exp(u(ln b-ln a)+ln a) = {want!r} for recorded u={uu!r}"
                break
            if not (a * (1 - 1e-13) <= dv <= b * (1 + 1e-13)):
                why = f"draw {dv!r} outside [{a!r}, {b!r}]"
                break
    if why:
        violate(ctx, rel, g, dict(inp, size=size), dict(draw=out_flat[:8].tolist(), u=u_rec[:8].tolist()), mdraw[:8],
                      "inverse-CDF sampling from the given generator: " + why, tags=dict(dist="UniformLog", where="rng_fn"))
        return
    if len(mdraw) != len(out_flat) or any(abs(x - y) > 1e-13 * abs(y) for x, y in zip(mdraw, out_flat)):
        ctx.mismatch(rel, g, dict(inp, size=size), out_flat[:8].tolist(), mdraw[:8], "model and implementation differ")


def dkw_eps(n):
    return math.sqrt(math.log(2e9) / (2 * n))


def ks_dev(sample, cdf):
    x = np.sort(np.asarray(sample, dtype=float))
    n = len(x)
    F = cdf(x)
    return float(max(np.max(np.arange(1, n + 1) / n - F), np.max(F - np.arange(0, n) / n)))


def ulog_draw_case(ctx, g, rng):
    """pm.draw of UniformLog: support + DKW band (support evidence)"""
    import pymc as pm
    from thejoker.distributions import UniformLog
    rel = "pm.draw(UniformLog) follows F(x)=(ln x-ln a)/(ln b-ln a)"
    a = float(10 ** rng.uniform(-2, 2))
    b = a * float(10 ** rng.uniform(0.1, 4))
    # the bounds as a user may write them: arbitrary floats, "nice" floats (2., 1000.), Python / numpy integers
    form = ["int", "float", "nice float", "numpy int64", "numpy float32", "float"][g["index"] % 6]
    if form != "float":
        ai = int(rng.choice([1, 2, 5, 10, 30]))
        bi = ai + int(rng.choice([1, 2, 5, 45, 990, 20000]))
        a, b = float(ai), float(bi)
    arg = {"float": (a, b), "nice float": (a, b), "int": (int(a), int(b)) if form == "int" else None,
           "numpy int64": (np.int64(a), np.int64(b)), "numpy float32": (np.float32(a), np.float32(b))}[form]
    ctx.count(f"ulog:bounds given as {form}")
    n = 4000
    devs = []
    inp = dict(a=a, b=b, n=n, bounds_given_as=form)
    for rep in range(2):
        with fast():
            x = np.asarray(pm.draw(UniformLog.dist(*arg), draws=n, random_seed=int(rng.integers(0, 2**31))), dtype="f8")
        if x.min() < a * (1 - 1e-13) or x.max() > b * (1 + 1e-13):
            violate(ctx, rel, g, inp, dict(min=float(x.min()), max=float(x.max())), None,
                          "draws must lie inside [a, b]", tags=dict(dist="UniformLog", where="draw-support"))
            return
        if len(np.unique(x)) < 0.98 * n:
            violate(ctx, rel, g, inp, dict(distinct_values=int(len(np.unique(x))), draws=n), None,
                          "draws of a continuous density are (almost surely) pairwise distinct; repeated values mean the draw "
                          "was computed on a coarse grid", tags=dict(dist="UniformLog", where="draw-grid"))
            return
        devs.append(ks_dev(x, lambda t: (np.log(t) - math.log(a)) / (math.log(b) - math.log(a))))
    # array-valued bounds (a vector of periods with one declaration): the components are independent draws
    if g["index"] % 2 == 0:
        with fast():
            xv = np.asarray(pm.draw(UniformLog.dist(np.array([a, a, a]), b), draws=400, random_seed=int(rng.integers(0, 2**31))), dtype="f8")
        ctx.count("ulog:array-valued bounds")
        if xv.shape == (400, 3):
            qv = (np.log(xv) - math.log(a)) / (math.log(b) - math.log(a))
            cc = float(np.corrcoef(qv[:, 0], qv[:, 1])[0, 1])
            if abs(cc) > 0.5:
                violate(ctx, rel, g, dict(inp, array_bounds=True), dict(correlation_of_components=cc, first_draw=xv[0].tolist()), None,
                        "the components of a vector-valued UniformLog are independent draws (its logp treats them as independent); "
                        "they are (nearly) identical", tags=dict(dist="UniformLog", where="draw-array"))
                return
        else:
            violate(ctx, rel, g, dict(inp, array_bounds=True), dict(shape=list(xv.shape)), None,
                    "a vector-valued UniformLog draws one value per component", tags=dict(dist="UniformLog", where="draw-array-shape"))
            return
    eps = dkw_eps(n)
    ctx.evaluated(rel, (a, b), sample=dict(a=a, b=b, n=n, ks=devs, dkw_eps=eps, bounds_given_as=form))
    ctx.count("ulog:pm.draw")
    if min(devs) > 5 * eps:
        violate(ctx, rel, g, dict(a=a, b=b, n=n), dict(ks=devs), dict(dkw_eps=eps),
                      "empirical CDF of two independent draws deviates > 5x the DKW band (false-alarm < 1e-9)",
                      tags=dict(dist="UniformLog", where="draw-distribution"))
    elif max(devs) > eps:
        ctx.notes.append(f"UniformLog draw KS deviation {devs} above DKW eps {eps} (support evidence only)")


# ------------------------------------------------------------------------------------------------
# (i) FixedCompanionMass


def fcm_sigma_oracle(s0, P0, maxK, P, e):
    raw = D(s0) * (-(D(P) / D(P0)).ln() / 3).exp() / (1 - D(e) * D(e)).sqrt()
    return float(min(max(raw, Decimal(0)), D(maxK))), bool(raw >= D(maxK))


def normal_oracle(mu, sigma, x):
    return float(-(D(x) - D(mu)) ** 2 / (2 * D(sigma) ** 2) - D(sigma).ln() - LN2PI / 2)


def fcm_case(ctx, g, rng):
    import astropy.units as u
    import pymc as pm
    import pytensor
    import pytensor.tensor as pt
    import thejoker.units as xu
    from core import bits, bits_list, unbits
    from thejoker.distributions import FixedCompanionMass
    rel = "FixedCompanionMass sigma(P,e), logp=Prior.sigmaK, normalLogp"
    vel = ["km/s", "m/s", "cm/s"]
    tim = ["day", "yr", "hour"]
    Ku, mKu, P0u = str(rng.choice(vel)), str(rng.choice(vel)), str(rng.choice(tim))
    Pu = str(rng.choice(tim + ["none"]))
    s0_kms = float(10 ** rng.uniform(0, 2))
    s0 = float((s0_kms * u.km / u.s).to_value(u.Unit(Ku)))
    P0_d = float(10 ** rng.uniform(0.5, 3))
    P0 = float((P0_d * u.day).to_value(u.Unit(P0u)))
    cap = rng.random() < 0.6
    maxK_kms = s0_kms * float(10 ** rng.uniform(-0.7, 0.5)) if cap else 500.0
    maxK = float((maxK_kms * u.km / u.s).to_value(u.Unit(mKu)))
    mu = float(rng.normal(0, 5)) if rng.random() < 0.5 else 0.0
    default_cap = (not cap) and rng.random() < 0.5
    n = 10
    P_d = 10 ** rng.uniform(-0.5, 4, n)
    e = np.where(rng.random(n) < 0.2, 0.0, rng.uniform(0, 0.97, n))
    Pv = pt.dvector("P")
    ev, kv = pt.dvector("e"), pt.dvector("k")
    if Pu == "none":
        P_arg = Pv
        P_vals = (P_d * u.day).to_value(u.Unit(P0u))      # a unit-less P is read in the unit of P0
        P0_model = P0
    else:
        P_arg = xu.with_unit(Pv, u.Unit(Pu))
        P_vals = (P_d * u.day).to_value(u.Unit(Pu))
        P0_model = float((P0 * u.Unit(P0u)).to_value(u.Unit(Pu)))     # P0 must be brought to the unit of P
    kw = dict(P=P_arg, e=ev, sigma_K0=s0 * u.Unit(Ku), P0=P0 * u.Unit(P0u), mu=mu)
    if not default_cap:
        kw["max_K"] = maxK * u.Unit(mKu)
        maxK_model = float((maxK * u.Unit(mKu)).to_value(u.Unit(Ku)))
    else:
        maxK_model = float((500 * u.km / u.s).to_value(u.Unit(Ku)))
    inp = dict(sigma_K0=s0, K_unit=Ku, P0=P0, P0_unit=P0u, P_unit=Pu, max_K=None if default_cap else maxK, max_K_unit=mKu, mu=mu,
               P=P_vals.tolist(), e=e.tolist())
    s0_decl = s0
    if g["index"] % 4 == 3:
        # the documented K_unit argument: sigma_K0 (and max_K) are brought to that unit first
        K2 = str(rng.choice([v for v in vel if v != Ku]))
        kw["K_unit"] = u.Unit(K2)
        s0 = float((s0_decl * u.Unit(Ku)).to_value(u.Unit(K2)))
        maxK_model = float((maxK_model * u.Unit(Ku)).to_value(u.Unit(K2)))
        inp["K_unit_argument"] = K2
        ctx.count("fcm:K_unit argument")
    try:
        dist = FixedCompanionMass.dist(**kw)
    except Exception as e_:   # noqa: BLE001
        ctx.evaluated(rel, None)
        violate(ctx, rel, g, inp, f"{type(e_).__name__}: {str(e_)[:160]}", None,
                "FixedCompanionMass.dist must accept its documented arguments", tags=dict(dist="FixedCompanionMass", where="dist-raises"))
        return
    k = rng.normal(mu, s0, n)
    with fast():
        f = pytensor.function([Pv, ev, kv], [dist.owner.inputs[-1], dist.owner.inputs[-2], pm.logp(dist, kv)])
    sig, mu_impl, lp = f(P_vals, e, k)
    m = ctx.model({"op": "prior.sigmaK", "s0": bits(s0), "P0": bits(P0_model), "maxK": bits(maxK_model),
                   "P": bits_list(P_vals), "e": bits_list(e)})
    msig = [unbits(v) for v in m["sigma"]]
    for i in range(n):
        want, binding = fcm_sigma_oracle(s0, P0_model, maxK_model, P_vals[i], e[i])
        ctx.evaluated(rel, (s0, P0_model, maxK_model, float(P_vals[i]), float(e[i])) if (binding or Pu not in ("none", P0u)) else None,
                      sample=dict(inp, i=i, sigma_impl=float(sig[i]), sigma_model=msig[i], sigma_oracle=want))
        ctx.count("fcm:clip-binding" if binding else "fcm:clip-free")
        ctx.count(f"fcm:P-unit:{'none' if Pu == 'none' else ('same' if Pu == P0u else 'other')}")
        if abs(sig[i] - want) > 1e-12 * want:
            violate(ctx, rel, g, dict(inp, i=i), dict(sigma=float(sig[i])), dict(model=msig[i], oracle=want),
                          "sigma_K = clip(sigma_K0 (P/P0)^(-1/3) / sqrt(1-e^2), 0, max_K) with P0 in the unit of P and max_K "
                          "in the unit of sigma_K0 (rel 1e-12)", tags=dict(dist="FixedCompanionMass", where="sigma"))
            return
        if abs(msig[i] - sig[i]) > 1e-12 * abs(sig[i]):
            ctx.mismatch(rel, g, dict(inp, i=i), float(sig[i]), msig[i], "model and implementation differ")
        want_lp = normal_oracle(mu, want, k[i])
        if abs(lp[i] - want_lp) > 1e-9 * (1 + abs(want_lp)) or np.any(np.asarray(mu_impl) != mu):
            violate(ctx, rel, g, dict(inp, i=i, K=float(k[i])), dict(logp=float(lp[i]), mu=np.asarray(mu_impl).ravel()[:1].tolist()), dict(oracle=want_lp),
                          "logp(K | P, e) = ln N(K | mu, sigma_K(P,e)^2)", tags=dict(dist="FixedCompanionMass", where="logp"))
            return


# ------------------------------------------------------------------------------------------------
# Kipping constants

PUBLISHED = {"long": (1.12, 3.09), "short": (0.697, 3.27), "global": (0.867, 3.03)}     # Kipping (2013), Table 1


def beta_oracle(a, b, x):
    if not (0 < x < 1):
        return None
    lnB = D(math.lgamma(a)) + D(math.lgamma(b)) - D(math.lgamma(a + b))
    return float((D(a) - 1) * D(x).ln() + (D(b) - 1) * (1 - D(x)).ln() - lnB)


def kipping_case(ctx, g, rng):
    import astropy.units as u
    import pymc as pm
    import pytensor
    import pytensor.tensor as pt
    import thejoker as tj
    from core import bits, bits_list, unbits
    from thejoker import distributions as dists
    rel = "Kipping13* constants and logp=Prior.kipping, betaLogp"
    table = ctx.model({"op": "prior.kipping"})
    xs = np.concatenate([rng.uniform(0.001, 0.999, 8), [-0.1, 1.2, -3.0]])
    for name, cls in (("long", dists.Kipping13Long), ("short", dists.Kipping13Short), ("global", dists.Kipping13Global)):
        d = cls.dist()
        a_impl, b_impl = float(d.owner.inputs[-2].eval()), float(d.owner.inputs[-1].eval())
        a_m, b_m = table[name][0] / 1000.0, table[name][1] / 1000.0
        x = pt.dvector("x")
        with fast():
            lp = pytensor.function([x], pm.logp(d, x))(xs)
        ctx.evaluated(rel, name, sample=dict(cls=name, alpha=a_impl, beta=b_impl))
        ctx.count("kipping:class")
        if (a_impl, b_impl) != PUBLISHED[name]:
            violate(ctx, rel, g, dict(cls=name), dict(alpha=a_impl, beta=b_impl), dict(model=(a_m, b_m), published=PUBLISHED[name]),
                          "Beta parameters must be the published Kipping (2013) values", tags=dict(dist="Kipping13", where="constants"))
            return
        if (a_m, b_m) != (a_impl, b_impl):
            ctx.mismatch(rel, g, dict(cls=name), (a_impl, b_impl), (a_m, b_m), "model table differs")
        lnB = math.lgamma(a_impl) + math.lgamma(b_impl) - math.lgamma(a_impl + b_impl)
        m = ctx.model({"op": "prior.betaLogp", "a": bits(a_impl), "b": bits(b_impl), "lnB": bits(lnB), "xs": bits_list(xs)})
        for i, xv in enumerate(xs):
            want = beta_oracle(PUBLISHED[name][0], PUBLISHED[name][1], float(xv))
            got = fin(lp[i])
            mv = None if m["logp"][i] is None else fin(unbits(m["logp"][i]))
            ctx.evaluated(rel, (name, float(xv)), sample=None)
            if not close(got, want, 1e-9 * (1 + abs(want or 0))):
                violate(ctx, rel, g, dict(cls=name, x=float(xv)), got, dict(oracle=want, model=mv),
                              "logp is the log of the normalised Beta density, -inf outside [0,1]", tags=dict(dist="Kipping13", where="logp"))
                return
            if not close(mv, got, 1e-9 * (1 + abs(want or 0))):
                ctx.mismatch(rel, g, dict(cls=name, x=float(xv)), got, mv, "model and implementation differ")
    # default wiring: the eccentricity prior of the default prior is the 'global' one
    prior = tj.JokerPrior.default(P_min=2 * u.day, P_max=100 * u.day, sigma_K0=30 * u.km / u.s, sigma_v=10 * u.km / u.s)
    ev = prior.pars["e"]
    got = (float(ev.owner.inputs[-2].eval()), float(ev.owner.inputs[-1].eval()))
    ctx.evaluated(rel, "default-e", sample=dict(default_e=got))
    if got != PUBLISHED["global"]:
        violate(ctx, rel, g, dict(where="JokerPrior.default e"), got, PUBLISHED["global"],
                      "the default eccentricity prior is Beta(0.867, 3.03)", tags=dict(dist="Kipping13", where="default"))


# ------------------------------------------------------------------------------------------------
# (iii) prior.sample(return_logprobs=True)


def declared_cfg(pr):
    """model / oracle configuration from the DECLARED description (scen.Problem.desc): values in the units the
    user wrote down, conversions by astropy only where the documented semantics require one"""
    import astropy.units as u
    from scen import U
    d = pr.desc
    Pu = U(d["P"]["unit"])
    cfg = dict(pMin=d["P"]["P_min"], pMax=d["P"]["P_max"], eA=0.867, eB=3.03)
    cfg["eLnB"] = math.lgamma(0.867) + math.lgamma(3.03) - math.lgamma(0.867 + 3.03)
    s = d["s"]
    cfg["sPrior"] = (s["mu"], s["sigma"]) if s["kind"] == "sampled" else None
    K = d["K"]
    if K["kind"] == "fcm":
        maxK = (K["max_K"] * U(K["max_K_unit"])).to_value(U(K["unit"])) if K["explicit"] else (500 * u.km / u.s).to_value(U(K["unit"]))
        cfg["kPrior"] = dict(kind="fcm", mu=K["mu"] if K["explicit"] else 0.0, s0=K["sigma_K0"],
                             P0=float((K["P0"] * U(K["P0_unit"])).to_value(Pu)), maxK=float(maxK))
    else:
        cfg["kPrior"] = dict(kind="normal", mu=K["mu"], sigma=K["sigma"])
    cfg["vPrior"] = [(v["mu"] if d["custom_v"] else 0.0, v["sigma"]) for v in d["v"]]
    cfg["dvPrior"] = [(o["mu"], o["sigma"]) for o in d["offsets"]]
    return cfg


def cfg_json(cfg):
    from core import bits
    k = cfg["kPrior"]
    return dict(pMin=bits(cfg["pMin"]), pMax=bits(cfg["pMax"]), eA=bits(cfg["eA"]), eB=bits(cfg["eB"]), eLnB=bits(cfg["eLnB"]),
                sPrior=None if cfg["sPrior"] is None else [bits(cfg["sPrior"][0]), bits(cfg["sPrior"][1])],
                kPrior={kk: (vv if kk == "kind" else bits(vv)) for kk, vv in k.items()},
                vPrior=[[bits(a), bits(b)] for a, b in cfg["vPrior"]], dvPrior=[[bits(a), bits(b)] for a, b in cfg["dvPrior"]])


def row_oracle(cfg, row, linear):
    """log of the declared joint density of one row, up to a row-independent constant (unnormalised kernels; the
    sigma_K(P,e) normalisation is row dependent and is kept) -- 50-digit decimal"""
    P, e = D(row["P"]), D(row["e"])
    if not (D(cfg["pMin"]) <= P <= D(cfg["pMax"])) or not (0 < e < 1):
        return None
    tot = -P.ln() + (D(cfg["eA"]) - 1) * e.ln() + (D(cfg["eB"]) - 1) * (1 - e).ln()
    if cfg["sPrior"] is not None:
        s = D(row["s"])
        if s <= 0:
            return None
        mu, sg = D(cfg["sPrior"][0]), D(cfg["sPrior"][1])
        tot += -s.ln() - (s.ln() - mu) ** 2 / (2 * sg ** 2)
    if linear:
        k = cfg["kPrior"]
        if k["kind"] == "fcm":
            raw = D(k["s0"]) * (-(P / D(k["P0"])).ln() / 3).exp() / (1 - e * e).sqrt()
            sg = min(max(raw, Decimal(0)), D(k["maxK"]))
        else:
            sg = D(k["sigma"])
        tot += -sg.ln() - (D(row["K"]) - D(k["mu"])) ** 2 / (2 * sg ** 2)
        for (mu, s_), x in zip(cfg["vPrior"], row["v"]):
            tot += -(D(x) - D(mu)) ** 2 / (2 * D(s_) ** 2)
        for (mu, s_), x in zip(cfg["dvPrior"], row["dv"]):
            tot += -(D(x) - D(mu)) ** 2 / (2 * D(s_) ** 2)
    return float(tot)


def sample_case(ctx, g, rng, index):
    import scen
    from core import bits, bits_list, unbits
    from scipy import stats
    rel = "prior.sample ln_prior=Prior.lnPriorNonlinear/lnPriorFull + const"
    big = index % 3 == 0
    pr = scen.make_problem(rng, n=4, cap=bool(rng.random() < 0.5) if True else None)
    cfg = declared_cfg(pr)
    cj = cfg_json(cfg)
    d = pr.desc
    N = 3000 if big else int(rng.integers(24, 80))
    for linear in (False, True):
        seed = int(rng.integers(0, 2**31))
        with fast():
            s = pr.prior.sample(size=N, generate_linear=linear, return_logprobs=True, rng=np.random.default_rng(seed))
        cols = {n: np.asarray(s[n].value, dtype=float) for n in s.par_names}
        # columns must be expressed in the declared units
        units_ok = str(s["P"].unit) == str(scen.U(d["P"]["unit"]))
        lnp = np.asarray(s["ln_prior"], dtype=float)
        rows = []
        for i in range(N):
            rows.append(dict(P=cols["P"][i], e=cols["e"][i], s=cols["s"][i], K=cols["K"][i] if linear else 0.0,
                             v=[cols[f"v{l}"][i] for l in range(pr.p)] if linear else [],
                             dv=[cols[f"dv0_{j+1}"][i] for j in range(pr.q)] if linear else []))
        inp = dict(desc=d, p=pr.p, q=pr.q, generate_linear=linear, size=N, seed=seed)
        tags = dict(call="prior.sample", generate_linear=linear, K=d["K"]["kind"], s=d["s"]["kind"])
        ctx.count(f"sample:linear={linear}")
        ctx.count(f"sample:K={d['K']['kind']}:{linear}")
        ctx.count(f"sample:s={d['s']['kind']}")
        ctx.count(f"sample:Punit={d['P']['unit']}")
        if d["K"]["kind"] == "fcm" and d["K"]["explicit"] and d["K"]["max_K"] < 400:
            ctx.count("sample:cap")
        # ---- support
        sup = None
        if not units_ok:
            sup = f"P column in {s['P'].unit}, declared {d['P']['unit']}"
        elif cols["P"].min() < cfg["pMin"] * (1 - 1e-13) or cols["P"].max() > cfg["pMax"] * (1 + 1e-13):
            sup = "P outside [P_min, P_max]"
        elif cols["e"].min() < 0 or cols["e"].max() > 1:
            sup = "e outside [0, 1]"
        elif np.ptp(cols["omega"]) > 2 * np.pi or np.ptp(cols["M0"]) > 2 * np.pi:
            sup = "angles span more than 2 pi"
        elif cfg["sPrior"] is not None and cols["s"].min() <= 0:
            sup = "sampled jitter not positive"
        elif cfg["sPrior"] is None and np.any(cols["s"] != d["s"]["value"]):
            sup = "constant jitter column differs from the declared value"
        if sup:
            ctx.evaluated(rel, None)
            violate(ctx, rel, g, inp, dict(P=[float(cols["P"].min()), float(cols["P"].max())]), None, "draws inside the support: " + sup, tags=dict(tags, where="support"))
            return
        # ---- ln_prior against the declared joint density
        orc = [row_oracle(cfg, r, linear) for r in rows]
        keep = [i for i in range(N) if orc[i] is not None]
        diff = np.array([lnp[i] - orc[i] for i in keep])
        m = ctx.model({"op": "prior.lnprior", "cfg": cj, "rows": [dict(P=bits(r["P"]), e=bits(r["e"]), s=bits(r["s"]), K=bits(r["K"]),
                                                                 v=bits_list(r["v"]), dv=bits_list(r["dv"])) for r in rows[:200]]})
        mv = m["full" if linear else "nonlinear"]
        mdiff = np.array([lnp[i] - unbits(mv[i]) for i in range(min(N, 200)) if mv[i] is not None])
        scale = 1 + float(np.max(np.abs(lnp)))
        tol = 1e-8 * scale
        kdep = linear and d["K"]["kind"] == "fcm"
        ctx.evaluated(rel, (index, linear) if (kdep or np.ptp(cols["P"]) > 1e-3) else None,
                      sample=dict(p=pr.p, q=pr.q, K=d["K"]["kind"], s=d["s"]["kind"], P_unit=d["P"]["unit"], generate_linear=linear,
                                  spread_oracle=float(np.ptp(diff)), spread_model=float(np.ptp(mdiff)) if len(mdiff) else None, tol=tol))
        if not np.all(np.isfinite(lnp)) or np.ptp(diff) > tol:
            j = int(np.argmax(np.abs(diff - np.median(diff))))
            violate(ctx, rel, g, dict(inp, row=rows[keep[j]]), dict(ln_prior=float(lnp[keep[j]]), spread=float(np.ptp(diff)), median_offset=float(np.median(diff))),
                          dict(oracle_ln_density=orc[keep[j]], tol=tol),
                          "ln_prior - ln(declared joint density of the row) must be one constant for all rows (spread <= 1e-8 scale)",
                          tags=dict(tags, where="ln_prior"))
            continue
        if len(mdiff) and np.ptp(mdiff) > tol:
            ctx.mismatch(rel, g, inp, dict(spread_model=float(np.ptp(mdiff))), None, "ln_prior - model lnPrior not constant although the oracle agrees")
        # ---- distributions (support evidence): DKW band, two-seed x5 rule
        if big:
            eps = dkw_eps(N)
            k = cfg["kPrior"]
            tests = {"P": ks_dev(cols["P"], lambda t: (np.log(t) - math.log(cfg["pMin"])) / (math.log(cfg["pMax"]) - math.log(cfg["pMin"]))),
                     "e": ks_dev(cols["e"], stats.beta(0.867, 3.03).cdf),
                     "omega": ks_dev(np.mod(cols["omega"], 2 * np.pi), lambda t: t / (2 * np.pi)),
                     "M0": ks_dev(np.mod(cols["M0"], 2 * np.pi), lambda t: t / (2 * np.pi))}
            if cfg["sPrior"] is not None:
                tests["s"] = ks_dev(np.log(cols["s"]), stats.norm(cfg["sPrior"][0], cfg["sPrior"][1]).cdf)
            if linear:
                if k["kind"] == "fcm":
                    sg = np.array([fcm_sigma_oracle(k["s0"], k["P0"], k["maxK"], r["P"], r["e"])[0] for r in rows])
                else:
                    sg = k["sigma"]
                tests["K"] = ks_dev((cols["K"] - k["mu"]) / sg, stats.norm(0, 1).cdf)
                for l, (mu, s_) in enumerate(cfg["vPrior"]):
                    tests[f"v{l}"] = ks_dev((cols[f"v{l}"] - mu) / s_, stats.norm(0, 1).cdf)
                for j, (mu, s_) in enumerate(cfg["dvPrior"]):
                    tests[f"dv0_{j+1}"] = ks_dev((cols[f"dv0_{j+1}"] - mu) / s_, stats.norm(0, 1).cdf)
            ctx.count("sample:dkw", len(tests))
            ctx.extra.setdefault("dkw", []).append(dict(index=index, linear=linear, n=N, eps=eps, max_dev=max(tests.values())))
            worst = max(tests, key=tests.get)
            if tests[worst] > 5 * eps:
                violate(ctx, rel, g, inp, dict(ks=tests), dict(dkw_eps=eps),
                              f"column {worst}: empirical CDF deviates > 5x the DKW band from the declared distribution",
                              tags=dict(tags, where="distribution"))
                return
            if tests[worst] > eps:
                ctx.notes.append(f"sample case {index}: KS deviation {tests[worst]:.4f} of {worst} above DKW eps {eps:.4f} (support evidence only)")


def punits_case(ctx, g, rng):
    """default prior with P_min, P_max, P0, sigma_K0, sigma_v given in DIFFERENT units: the declared interval, the
    declared K scale and the declared trend widths must be the ones the draws and ln_prior follow"""
    import astropy.units as u
    import thejoker as tj
    rel = "JokerPrior.default wiring (mixed units)=declared densities"
    tim = ["day", "yr", "hour"]
    vel = ["km/s", "m/s"]
    u1, u2, u3 = (str(rng.choice(tim)) for _ in range(3))
    lo_d = float(10 ** rng.uniform(-0.3, 1.0))
    hi_d = lo_d * float(10 ** rng.uniform(0.5, 3.0))
    a = float((lo_d * u.day).to_value(u.Unit(u1)))
    b = float((hi_d * u.day).to_value(u.Unit(u2)))
    P0 = float((10 ** rng.uniform(1, 3) * u.day).to_value(u.Unit(u3)))
    Ku = str(rng.choice(vel))
    s0 = float((10 ** rng.uniform(0.5, 2) * u.km / u.s).to_value(u.Unit(Ku)))
    p = int(rng.choice([1, 2]))
    vu = [str(rng.choice(vel)) for _ in range(p)]
    sv_vals = [float(10 ** rng.uniform(0, 2)) for _ in range(p)]
    sv = [sv_vals[l] * u.Unit(vu[l]) / u.day ** l for l in range(p)]
    prior = tj.JokerPrior.default(P_min=a * u.Unit(u1), P_max=b * u.Unit(u2), sigma_K0=s0 * u.Unit(Ku), P0=P0 * u.Unit(u3),
                                  sigma_v=sv if p > 1 else sv[0], poly_trend=p)
    N = 48
    seed = int(rng.integers(0, 2**31))
    with fast():
        s = prior.sample(size=N, generate_linear=True, return_logprobs=True, rng=np.random.default_rng(seed))
    inp = dict(P_min=a, P_min_unit=u1, P_max=b, P_max_unit=u2, P0=P0, P0_unit=u3, sigma_K0=s0, K_unit=Ku, sigma_v=sv_vals, v_units=vu, seed=seed)
    tags = dict(call="JokerPrior.default", where="mixed-units")
    cfg = dict(pMin=a, pMax=float((b * u.Unit(u2)).to_value(u.Unit(u1))), eA=0.867, eB=3.03, sPrior=None,
               kPrior=dict(kind="fcm", mu=0.0, s0=s0, P0=float((P0 * u.Unit(u3)).to_value(u.Unit(u1))),
                           maxK=float((500 * u.km / u.s).to_value(u.Unit(Ku)))),
               vPrior=[(0.0, sv_vals[l]) for l in range(p)], dvPrior=[])
    P = np.asarray(s["P"].to_value(u.Unit(u1)), dtype=float)
    ctx.evaluated(rel, (u1, u2, u3, Ku) if len({u1, u2, u3}) > 1 else None, sample=inp)
    ctx.count("punits:mixed" if u1 != u2 else "punits:same")
    units = dict(P=str(s["P"].unit) == str(u.Unit(u1)), K=str(s["K"].unit) == str(u.Unit(Ku)),
                 **{f"v{l}": s[f"v{l}"].unit == u.Unit(vu[l]) / u.day ** l for l in range(p)})
    if not all(units.values()):
        violate(ctx, rel, g, inp, {k: str(s[k].unit) for k in units}, None, "columns carry the declared units", tags=tags)
        return
    if P.min() < cfg["pMin"] * (1 - 1e-13) or P.max() > cfg["pMax"] * (1 + 1e-13):
        violate(ctx, rel, g, inp, dict(P_range=[float(P.min()), float(P.max())]), dict(declared=[cfg["pMin"], cfg["pMax"]]),
                "period draws inside the declared [P_min, P_max]", tags=tags)
        return
    rows = [dict(P=P[i], e=float(s["e"][i]), s=0.0, K=float(s["K"].value[i]), v=[float(s[f"v{l}"].value[i]) for l in range(p)], dv=[])
            for i in range(N)]
    orc = np.array([row_oracle(cfg, r, True) for r in rows])
    diff = np.asarray(s["ln_prior"], dtype=float) - orc
    tol = 1e-8 * (1 + float(np.max(np.abs(s["ln_prior"]))))
    if np.ptp(diff) > tol:
        violate(ctx, rel, g, inp, dict(spread=float(np.ptp(diff))), dict(tol=tol),
                "ln_prior - ln(declared joint density) constant over rows (P0, P_max converted to the unit of P_min)", tags=tags)


# ------------------------------------------------------------------------------------------------


def setup(ctx):
    import glob
    import os
    import core
    if not ctx.replay_mode:      # stale replay files of an earlier run with this seed would be confusing
        for f in glob.glob(os.path.join(core.VERIF, "replays", ctx.prop, f"{ctx.seed}-*.json")):
            os.remove(f)


def plan(ctx):
    cases = [("ulog", i) for i in range(1500 if ctx.thorough else 60)]
    cases += [("ulogdraw", i) for i in range(36 if ctx.thorough else 6)]
    cases += [("fcm", i) for i in range(1000 if ctx.thorough else 40)]
    cases += [("kipping", 0)]
    cases += [("sample", i) for i in range(400 if ctx.thorough else 24)]
    cases += [("punits", i) for i in range(300 if ctx.thorough else 12)]
    return cases


def run_case(ctx, g):
    import thejoker  # noqa: F401
    from thejoker.logging import logger
    logger.setLevel("ERROR")       # "Cannot auto-compute log-prior" warnings for the angles are expected
    kind, index = g["kind"], g["index"]
    ctx.seed = g.get("seed", ctx.seed)
    rng = ctx.case_rng(kind, index)
    if kind == "ulog":
        ulog_case(ctx, g, rng)
    elif kind == "ulogdraw":
        ulog_draw_case(ctx, g, rng)
    elif kind == "fcm":
        fcm_case(ctx, g, rng)
    elif kind == "kipping":
        kipping_case(ctx, g, rng)
    elif kind == "sample":
        sample_case(ctx, g, rng, index)
    elif kind == "punits":
        punits_case(ctx, g, rng)


def post(ctx):
    ctx.require("FixedCompanionMass.dist with the K_unit argument", ctx.counters["fcm:K_unit argument"], 3)
    ctx.require("UniformLog with array-valued bounds", ctx.counters["ulog:array-valued bounds"], 1)
    for form in ("int", "float", "nice float", "numpy int64", "numpy float32"):
        ctx.require(f"UniformLog draws with bounds given as {form}", ctx.counters[f"ulog:bounds given as {form}"], 1)
    c = ctx.counters
    ctx.rule = RULE
    ctx.extra["exhaustive"] = False
    ctx.require("UniformLog points inside support", c["ulog:inside"], 500)
    ctx.require("UniformLog points outside support", c["ulog:outside"], 300)
    ctx.require("UniformLog rng_fn cases", c["ulog:rng_fn"], 40)
    ctx.require("FCM clip binding", c["fcm:clip-binding"], 40)
    ctx.require("FCM clip free", c["fcm:clip-free"], 100)
    ctx.require("FCM P in another unit than P0", c["fcm:P-unit:other"], 50)
    ctx.require("Kipping classes", c["kipping:class"], 3)
    ctx.require("sample: generate_linear=True", c["sample:linear=True"], 8)
    ctx.require("sample: generate_linear=False", c["sample:linear=False"], 8)
    ctx.require("sample: FixedCompanionMass K with linear draws", c["sample:K=fcm:True"], 3)
    ctx.require("sample: sampled jitter", c["sample:s=sampled"], 2)
    ctx.require("sample: P prior not in days", c["sample:Punit=yr"] + c["sample:Punit=hour"], 2)
    ctx.require("sample: DKW tests", c["sample:dkw"], 20)
    ctx.require("default prior with P_min/P_max in different units", c["punits:mixed"], 4)
