"""C17 - sample-table operations preserve the physical orbit and its metadata.

Tie: real `thejoker.JokerSamples` methods (`wrap_K`, `get_time_with_phase`, `get_t0`, `pack`, `unpack`,
`__getitem__` with int / slice / boolean mask / index array / list, `copy`, `mean`, `std`, `median_period`) run
in-process on generated tables (1..200 rows, both signs of K, omega far outside [0, 2 pi), deg / rad, km/s / m/s,
day / yr / hour, random reference epoch, poly_trend, n_offsets); the same declared numbers go to the Lean model
`Samples.*` (executed at exact rationals).  On any difference the property's own predicate is decided by an oracle
written with `fractions` (closed-form RV curve, mean-anomaly formula, row identity, metadata equality).

Tolerances (eps = 2^-53):
* wrap_K, omega of a flipped row: one addition of half a turn (itself a rounded unit conversion for deg), one exact
  fmod, at most one more addition: circular distance to (omega + h) mod 2h  <=  8 eps (|omega| + 2h).
  K' must equal |K| exactly, untouched rows must be bit-identical.
* RV curve closed form K(cos(w+f) + e cos w) evaluated in binary64 before/after: |diff| <= |K|(1+e)(d_w + 64 eps
  (1+|w|+|f|)) with d_w the omega tolerance in rad; through `get_orbit().radial_velocity`:
  <= |K|(1+e) d_w + 1e-12 (|K|(1+e) + |v0| + ...)  (a few dozen flops on numbers of that size; observed 5e-15).
* get_time_with_phase: dt = P(M0+phi)/2pi is formed with <= 4 roundings; astropy's Time keeps the fractional day in
  one double (|jd2| <= 0.5), so each of the two Time + TimeDelta additions rounds by <= 2^-54 d (bound used: 4 eps d):
  the mean anomaly at the returned time, in turns, deviates from phi by
  <= 8 eps (|M0|+|phi| in turns) + 4 eps + 4 eps / P[d].
* indexing / copy / median_period: bit-exact.  mean: 16 eps sum|x|/n (pairwise summation); std: 32 eps max|x| + 16 eps std.
* pack/unpack: 4 eps relative where a unit is converted, bit-exact where the unit is kept.
"""
import math
from fractions import Fraction

import numpy as np

import core

EPS = 2.0 ** -53
PI = Fraction("3.14159265358979323846264338327950288419716939937510582097494459")
RULE = ("random tables x random operations; non-trivial = wrap_K case with both signs of K and omega outside [0,2pi); "
        "time-with-phase case with non-zero phase and M0 outside [0,2pi); index expression with negative / repeated / "
        "stepped / out-of-range entries; median with duplicated periods; pack with unit conversion "
        "(distinct = distinct generated inputs)")

# scale of a printed astropy unit to the base unit of its physical type (exact; deg via a 60-digit pi)
SCALES = {"d": Fraction(1), "yr": Fraction(1461, 4), "h": Fraction(1, 24),
          "km / s": Fraction(1000), "m / s": Fraction(1), "cm / s": Fraction(1, 100),
          "rad": Fraction(1), "deg": PI / 180, "": Fraction(1),
          "km / (d s)": Fraction(1000), "m / (d s)": Fraction(1), "km / (s d2)": Fraction(1000), "m / (s d2)": Fraction(1)}
HALF_TURN = {"rad": None, "deg": 180.0}


def F(x):
    return Fraction(float(x))


def plan(ctx):
    k = 25 if ctx.thorough else 1
    cases = [("wrap", i) for i in range(160 * k)]
    cases += [("phase", i) for i in range(200 * k)]
    cases += [("index", i) for i in range(400 * k)]
    cases += [("reduce", i) for i in range(150 * k)]
    cases += [("pack", i) for i in range(150 * k)]
    cases += [("logunit", i) for i in range(12 * k)]
    if ctx.thorough:      # larger tables live in their own kinds so that a replay never depends on the tier
        for kind, cnt in (("wrap_big", 150), ("phase_big", 150), ("index_big", 400), ("reduce_big", 150), ("pack_big", 100)):
            cases += [(kind, i) for i in range(cnt)]
    return cases


# ------------------------------------------------------------------------------------------------
# table generator (declared description -> real JokerSamples)


BIG = {"on": False}


def gen_table(rng, n=None, need_K=False, mixed_dtype=False):
    """mixed_dtype=True: some (not all) columns are float32 arrays holding float32-representable values, all angular /
    period columns already in the internal units (so that packing converts nothing and values must come back exactly)"""
    if BIG["on"]:
        n = int(rng.integers(200, 3000))
    if n is None:
        n = int(rng.choice([1, 2, 3, int(rng.integers(1, 12)), int(rng.integers(1, 201))]))
    p = int(rng.integers(1, 4))
    q = int(rng.integers(0, 3))
    d = dict(n=n, poly_trend=p, n_offsets=q,
             t_ref=None if rng.random() < 0.2 else 50000.0 + float(rng.integers(0, 40000)) / 4.0, cols=[])

    import astropy.units as u

    def add(name, unit, vals):   # unit labels are kept in astropy's canonical spelling
        dt = "f4" if (mixed_dtype and (rng.random() < 0.5 or name == "P")) else "f8"
        if mixed_dtype and name == "omega":
            dt = "f8"                    # at least one wide column next to the narrow ones
        vals = np.asarray(vals, dtype=dt).astype("f8")
        d["cols"].append(dict(name=name, unit=str(u.Unit(unit)), vals=[float(v) for v in vals], dtype=dt))

    add("P", "d" if mixed_dtype else str(rng.choice(["d", "yr", "h"])), 10 ** rng.uniform(-1, 3, n))
    add("e", "", rng.uniform(0, 0.95, n))
    aunit = "rad" if mixed_dtype else str(rng.choice(["rad", "deg"]))
    turn = 360.0 if aunit == "deg" else 2 * math.pi
    add("omega", aunit, rng.uniform(-2.5, 2.5, n) * turn)
    munit = "rad" if mixed_dtype else str(rng.choice(["rad", "deg"]))
    mturn = 360.0 if munit == "deg" else 2 * math.pi
    add("M0", munit, rng.uniform(-1.5, 2.5, n) * mturn)
    add("s", str(rng.choice(["km / s", "m / s"])), rng.uniform(0, 3, n))
    if need_K or rng.random() < 0.8:
        vunit = str(rng.choice(["km / s", "m / s"]))
        add("K", vunit, rng.normal(0, 10, n))
        add("v0", vunit, rng.normal(0, 30, n))
        for i in range(1, p):
            add(f"v{i}", vunit.replace(" / s", f" / (d{i if i > 1 else ''} s)"), rng.normal(0, 0.01, n))
        for j in range(1, q + 1):
            add(f"dv0_{j}", vunit, rng.normal(0, 2, n))
    if rng.random() < 0.3:
        add("ln_prior", "", rng.normal(-10, 3, n))
        add("ln_likelihood", "", rng.normal(-50, 10, n))
    return d


def build(d):
    import astropy.units as u
    from astropy.time import Time
    from thejoker import JokerSamples
    kw = dict(poly_trend=d["poly_trend"], n_offsets=d["n_offsets"])
    if d["t_ref"] is not None:
        kw["t_ref"] = Time(d["t_ref"], format="mjd", scale=d.get("t_ref_scale", "tcb"))
    if d.get("via_table"):
        # the table route: an astropy QTable whose dimensionless columns are plain arrays (Column objects with unit None)
        from astropy.table import QTable
        tbl = QTable()
        for c in d["cols"]:
            arr = np.array(c["vals"], dtype=c.get("dtype", "f8"))
            tbl[c["name"]] = arr if c["unit"] == "" else arr * u.Unit(c["unit"])
        return JokerSamples(tbl, **kw)
    s = JokerSamples(**kw)
    for c in d["cols"]:
        s[c["name"]] = np.array(c["vals"], dtype=c.get("dtype", "f8")) * u.Unit(c["unit"])
    return s


def col(d, name):
    for c in d["cols"]:
        if c["name"] == name:
            return c
    return None


def snapshot(s):
    """what the property talks about: names, units, values (bit patterns), metadata"""
    cols = []
    for k in s.tbl.colnames:
        c = s.tbl[k]
        cols.append((k, str(getattr(c, "unit", "")), [core.bits(v) for v in np.atleast_1d(np.asarray(getattr(c, "value", c), dtype=float))]))
    tr = s.t_ref
    if tr is not None:
        tr = (float(tr.tcb.jd1), float(tr.tcb.jd2))
    return dict(cols=cols, meta=(tr, int(s.poly_trend), int(s.n_offsets)))


def declared_meta(d):
    tr = None
    if d["t_ref"] is not None:
        from astropy.time import Time
        t = Time(d["t_ref"], format="mjd", scale="tcb")
        tr = (float(t.jd1), float(t.jd2))
    return (tr, d["poly_trend"], d["n_offsets"])


def meta_problem(snap, d):
    """None if names / units / metadata are those of the declared table"""
    if snap["meta"] != declared_meta(d):
        return f"metadata (t_ref, poly_trend, n_offsets) = {snap['meta']}, table has {declared_meta(d)}"
    got = [(k, un) for k, un, _ in snap["cols"]]
    want = [(c["name"], c["unit"]) for c in d["cols"]]
    if got != want:
        return f"columns/units {got}, table has {want}"
    return None


def rows_problem(snap, d, rows):
    """None if every column of the result is the declared column gathered at `rows`, bit for bit"""
    for (k, un, bits_), c in zip(snap["cols"], d["cols"]):
        want = [core.bits(c["vals"][r]) for r in rows]
        if bits_ != want:
            return f"column {k}: values are not rows {rows[:8]}{'..' if len(rows) > 8 else ''} of the table"
    return None


# ------------------------------------------------------------------------------------------------
# wrap_K


def wrap_case(ctx, g, rng):
    import astropy.units as u
    from astropy.time import Time
    d = gen_table(rng, n=int(rng.choice([1, 2, 5, int(rng.integers(1, 40))])), need_K=True)
    mode = str(rng.choice(["mixed", "allneg", "allpos", "zeros"], p=[0.6, 0.15, 0.15, 0.1]))
    cK, cO, ce = col(d, "K"), col(d, "omega"), col(d, "e")
    n = d["n"]
    K = np.array(cK["vals"])
    if mode == "allneg":
        K = -np.abs(K) - 0.1
    elif mode == "allpos":
        K = np.abs(K)
    elif mode == "zeros":
        K[rng.random(n) < 0.5] = 0.0
        K[rng.random(n) < 0.2] = -0.0
    # boundary omegas: exactly -h, h, 0, a full turn
    h = 180.0 if cO["unit"] == "deg" else math.pi
    om = np.array(cO["vals"])
    for i in range(n):
        if rng.random() < 0.15:
            om[i] = float(rng.choice([-h, h, 0.0, 2 * h, -2 * h, 3 * h, -3 * h]))
    cK["vals"] = [float(v) for v in K]
    cO["vals"] = [float(v) for v in om]
    s = build(d)
    before = snapshot(s)
    ret = s.wrap_K()
    after = snapshot(ret)
    after_self = snapshot(s)
    m = ctx.model({"op": "samples.wrapK", "K": core.bits_list(K), "omega": core.bits_list(om),
                   "h": core.bits(h)})
    mK = [Fraction(x) for x in m["K"]]
    mO = [Fraction(x) for x in m["omega"]]
    neg = K < 0
    ctx.count(f"wrap:{mode}")
    ctx.count(f"wrap:omega_{cO['unit']}")
    if neg.any() and (~neg).any():
        ctx.count("wrap:both_signs")
    rel = "wrap_K=Samples.wrapK"
    outside = bool(np.any((om < 0) | (om >= 2 * h)))
    ctx.evaluated(rel, (g["kind"], g["index"]) if (neg.any() and (~neg).any() and outside) else None,
                  sample=dict(n=n, K=cK["vals"][:4], omega=cO["vals"][:4], unit=cO["unit"]))
    inp = dict(d, mode=mode)
    why = None
    if after != after_self:
        why = "wrap_K must modify the table it returns (it returns self)"
    mp = None if why else meta_problem(after, d)
    if mp:
        why = mp
    aft = {k: (un, b) for k, un, b in after["cols"]}
    bef = {k: (un, b) for k, un, b in before["cols"]}
    if why is None:
        for k in bef:
            if k not in ("K", "omega") and aft[k] != bef[k]:
                why = f"column {k} changed"
    twoh = 2 * F(h)
    tol_w = []
    if why is None:
        Ka = [core.unbits(b) for b in aft["K"][1]]
        Oa = [core.unbits(b) for b in aft["omega"][1]]
        for i in range(n):
            tol = Fraction(8 * EPS) * (abs(F(om[i])) + twoh)
            tol_w.append(tol)
            if not (Ka[i] >= 0):
                why = f"row {i}: K = {Ka[i]!r} after wrap_K (was {K[i]!r})"
            elif F(Ka[i]) != abs(F(K[i])):
                why = f"row {i}: |K| changed from {K[i]!r} to {Ka[i]!r}"
            elif not neg[i]:
                if core.bits(Oa[i]) != core.bits(om[i]):
                    why = f"row {i}: K = {K[i]!r} >= 0 but omega changed from {om[i]!r} to {Oa[i]!r}"
            else:
                want = (F(om[i]) + F(h)) % twoh          # independent of the model: python's exact floored mod
                dist = abs(F(Oa[i]) - want)
                dist = min(dist, abs(twoh - dist))
                if not (0 <= Oa[i] <= 2 * h) or dist > tol:
                    why = (f"row {i}: K = {K[i]!r} < 0, omega = {om[i]!r} {cO['unit']}: expected (omega + half turn) mod full turn"
                           f" = {float(want)!r} in [0, {2 * h}), got {Oa[i]!r}")
            if why:
                break
    # RV curves, closed form (the theorem's predicate), all rows, grid of true anomalies
    if why is None:
        c_rad = float(SCALES[cO["unit"]])
        for i in range(n):
            e = ce["vals"][i]
            dw = float(tol_w[i]) * c_rad
            for f in np.linspace(0, 2 * math.pi, 9):
                w0, w1 = om[i] * c_rad, Oa[i] * c_rad
                v0 = K[i] * (math.cos(w0 + f) + e * math.cos(w0))
                v1 = Ka[i] * (math.cos(w1 + f) + e * math.cos(w1))
                tol = abs(K[i]) * (1 + e) * (dw + 64 * EPS * (1 + abs(w0) + abs(w1) + f))
                if abs(v1 - v0) > tol:
                    why = (f"row {i}: RV curve changed: K(cos(w+f)+e cos w) at f={f:.4f} was {v0!r}, is {v1!r} "
                           f"(K {K[i]!r}->{Ka[i]!r}, omega {om[i]!r}->{Oa[i]!r} {cO['unit']})")
                    break
            if why:
                break
    # RV curves through get_orbit().radial_velocity (needs a reference epoch)
    if why is None and d["t_ref"] is not None:
        s0 = build(d)
        vunit = u.Unit(cK["unit"])
        tt = Time(d["t_ref"] + np.array([0.0, 0.37, 11.5, 400.25]), format="mjd", scale="tcb")
        for i in list(range(n))[:6]:
            r0 = s0.get_orbit(i).radial_velocity(tt).to_value(vunit)
            r1 = s.get_orbit(i).radial_velocity(tt).to_value(vunit)
            e = ce["vals"][i]
            amp = abs(K[i]) * (1 + e)
            trend = abs(col(d, "v0")["vals"][i]) + sum(abs(col(d, f"v{l}")["vals"][i]) * 401.0 ** l for l in range(1, d["poly_trend"]))
            tol = amp * float(tol_w[i]) * float(SCALES[cO["unit"]]) + 1e-12 * (amp + trend)
            ctx.count("wrap:orbit_rows")
            if np.max(np.abs(r1 - r0)) > tol:
                why = (f"row {i}: get_orbit({i}).radial_velocity(t) changed by {np.max(np.abs(r1 - r0))!r} {cK['unit']} "
                       f"(tolerance {tol:.3g}): before {r0.tolist()}, after {r1.tolist()}")
                break
    if why is not None:
        ctx.violation(rel, g, inp, dict(K=[core.unbits(b) for b in aft["K"][1]], omega=[core.unbits(b) for b in aft["omega"][1]]),
                      dict(K=[float(x) for x in mK], omega=[float(x) for x in mO]),
                      "wrap_K: every K >= 0, same RV curve for every row, omega moved by pi (mod 2pi, into [0,2pi)) only "
                      "where K < 0, everything else untouched: " + why, tags=dict(op="wrap_K", omega_unit=cO["unit"], mode=mode))
        return
    # correspondence with the model
    Ka = [core.unbits(b) for b in aft["K"][1]]
    Oa = [core.unbits(b) for b in aft["omega"][1]]
    for i in range(n):
        dist = abs(F(Oa[i]) - mO[i])
        dist = min(dist, abs(twoh - dist))
        if F(Ka[i]) != mK[i] or dist > tol_w[i]:
            ctx.mismatch(rel, g, inp, dict(K=Ka[i], omega=Oa[i], row=i), dict(K=float(mK[i]), omega=float(mO[i])),
                         "implementation and model differ although the property's predicate holds")
            break


# ------------------------------------------------------------------------------------------------
# get_time_with_phase / get_t0


def phase_case(ctx, g, rng):
    """one object, a HISTORY of 1..4 calls: between calls the requested phase, the explicit reference epoch (tables
    without a stored one) or the P / M0 columns (re-assigned through __setitem__) change, get_orbit may be called;
    every call is judged on its own against the table as it is at that moment"""
    import copy as _copy
    import astropy.units as u
    d = gen_table(rng, n=int(rng.choice([1, 1, 2, 7, int(rng.integers(1, 60))])))
    d = _copy.deepcopy(d)
    # the reference epoch may be given in any time scale (the orbit's clock is TCB, like the data times)
    d["t_ref_scale"] = str(rng.choice(["tcb", "tcb", "utc", "tt", "tdb"]))
    ref_in_table = d["t_ref"] is not None
    scalar_row = bool(rng.random() < 0.25)
    s = build(d)
    n = d["n"]
    rows = list(range(n))
    if scalar_row:
        r = int(rng.integers(0, n))
        s = s[r]
        rows = [r]
    nsteps = 1 if rng.random() < 0.45 else int(rng.integers(2, 5))
    tref = d["t_ref"] if ref_in_table else 50000.0 + float(rng.integers(0, 40000)) / 4.0
    history = []
    for step in range(nsteps):
        if step > 0:
            acts = ["phase"] + ([] if ref_in_table else ["tref", "tref"]) + ([] if scalar_row else ["M0", "P"])
            if ref_in_table and col(d, "K") is not None:
                acts.append("orbit")
            act = str(rng.choice(acts))
            if act == "tref":
                tref = 50000.0 + float(rng.integers(0, 40000)) / 4.0
            elif act in ("M0", "P"):
                c = col(d, act)
                if act == "M0":
                    c["unit"] = str(rng.choice(["rad", "deg"]))
                    turn = 360.0 if c["unit"] == "deg" else 2 * math.pi
                    c["vals"] = [float(v) for v in rng.uniform(-1.5, 2.5, n) * turn]
                else:
                    c["unit"] = str(rng.choice(["d", "yr", "h"]))
                    c["vals"] = [float(v) for v in 10 ** rng.uniform(-1, 3, n)]
                c["dtype"] = "f8"
                s[act] = np.array(c["vals"], dtype="f8") * u.Unit(c["unit"])
            elif act == "orbit":
                s.get_orbit(int(rows[0]) if not scalar_row else None)
            history.append(act)
            ctx.count(f"phase:history:{act}")
        ok = phase_once(ctx, g, rng, s, d, rows, scalar_row, ref_in_table, tref, list(history), d["t_ref_scale"])
        if not ok:
            return
    if nsteps > 1:
        ctx.count("phase:history>=2")


def phase_once(ctx, g, rng, s, d, rows, scalar_row, ref_in_table, tref, history, scale="tcb"):
    import astropy.units as u
    from astropy.time import Time
    mode = str(rng.choice(["t0", "phase"], p=[0.3, 0.7]))
    punit = str(rng.choice(["rad", "deg"]))
    pturn = 360.0 if punit == "deg" else 2 * math.pi
    phase = 0.0 if mode == "t0" else float(rng.choice([rng.uniform(-2, 3) * pturn, pturn / 2, pturn, -pturn / 4, 0.0]))
    kw = {} if ref_in_table else dict(t_ref=Time(tref, format="mjd", scale=scale))
    ctx.count(f"phase:t_ref scale {scale}")
    if mode == "t0":
        t = s.get_t0(**kw)
    else:
        t = s.get_time_with_phase(phase * u.Unit(punit), **kw)
    cP, cM = col(d, "P"), col(d, "M0")
    mturn = 360.0 if cM["unit"] == "deg" else 2 * math.pi
    Pv = [cP["vals"][r] for r in rows]
    Mv = [cM["vals"][r] for r in rows]
    m = ctx.model({"op": "samples.timeWithPhase", "tref": core.bits(tref), "P": core.bits_list(Pv),
                   "Pscale": str(SCALES[cP["unit"]]), "M0": core.bits_list(Mv), "M0turn": core.bits(mturn),
                   "phase": core.bits(phase), "phaseturn": core.bits(pturn)})
    ctx.count(f"phase:{mode}")
    ctx.count(f"phase:P_{cP['unit']}")
    ctx.count(f"phase:M0_{cM['unit']}")
    ctx.count("phase:tref_in_table" if ref_in_table else "phase:tref_argument")
    if scalar_row:
        ctx.count("phase:single_row")
    rel = "get_time_with_phase=Samples.timeWithPhase"
    nontriv = mode == "phase" and phase != 0 and any(not (0 <= mv < mturn) for mv in Mv)
    ctx.evaluated(rel, (g["kind"], g["index"]) if nontriv else None,
                  sample=dict(P=Pv[:3], P_unit=cP["unit"], M0=Mv[:3], M0_unit=cM["unit"], phase=phase, phase_unit=punit))
    inp = dict(d, phase=phase, phase_unit=punit, mode=mode, t_ref_used=tref, t_ref_in_table=ref_in_table,
               rows=rows if scalar_row else None, earlier_calls_on_this_object=history)
    # returned times as exact offsets from the reference epoch (double-double)
    tr = Time(tref, format="mjd", scale=scale).tcb      # elapsed time is measured on the orbit's clock (TCB)
    tt = t.tcb
    scale_slack = Fraction(0) if scale == "tcb" else Fraction(1, 10 ** 11)    # ~1e-6 s for the scale conversions
    want_shape = () if len(rows) == 1 else (len(rows),)
    why = None
    if tuple(np.shape(tt.jd1)) != want_shape:
        why = f"returned time has shape {np.shape(tt.jd1)}, expected {want_shape} (one time per row, squeezed)"
    dts = []
    if why is None:
        for a, b in zip(np.atleast_1d(tt.jd1), np.atleast_1d(tt.jd2)):
            dts.append(F(a) - F(tr.jd1) + F(b) - F(tr.jd2))
        # the property's predicate: mean anomaly at the returned time == requested phase (mod one turn)
        true_turn = {"deg": Fraction(360), "rad": 2 * PI}
        for i, r in enumerate(rows):
            Pd = F(Pv[i]) * SCALES[cP["unit"]]
            m0t = F(Mv[i]) / true_turn[cM["unit"]]
            pht = F(phase) / true_turn[punit]
            M = dts[i] / Pd - m0t          # mean anomaly in turns
            dev = (M - pht) % 1
            dev = min(dev, 1 - dev)
            tol = Fraction(8 * EPS) * (abs(m0t) + abs(pht)) + Fraction(4 * EPS) + (Fraction(4 * EPS) + scale_slack) / Pd
            if dev > tol:
                why = (f"row {r}: P={Pv[i]!r} {cP['unit']}, M0={Mv[i]!r} {cM['unit']}: mean anomaly at the returned time is "
                       f"{float(M % 1)!r} turns, requested phase {float(pht % 1)!r} turns (deviation {float(dev):.3g}, "
                       f"tolerance {float(tol):.3g})")
                break
    if why is not None:
        ctx.violation(rel, g, inp, dict(dt_days=[float(x) for x in dts]),
                      dict(dt_days=[float(Fraction(x) - F(tref)) for x in m["t"]]),
                      "mean anomaly 2pi (t - t_ref)/P - M0 at the returned time must equal the requested phase (mod 2pi): " + why,
                      tags=dict(op="get_t0" if mode == "t0" else "get_time_with_phase", P_unit=cP["unit"], M0_unit=cM["unit"],
                                phase_unit=punit, history=len(history)))
        return False
    for i, r in enumerate(rows):
        Pd = F(Pv[i]) * SCALES[cP["unit"]]
        tol = (Fraction(8 * EPS) * (abs(F(Mv[i]) / F(mturn)) + abs(F(phase) / F(pturn))) + Fraction(4 * EPS)) * Pd + Fraction(4 * EPS) + scale_slack
        if abs(dts[i] - (Fraction(m["t"][i]) - F(tref))) > tol:
            ctx.mismatch(rel, g, inp, dict(dt=float(dts[i]), row=r), dict(dt=float(Fraction(m["t"][i]) - F(tref))),
                         "returned time differs from t_ref + P(M0+phi)/2pi although its mean anomaly equals the phase mod 2pi")
            return False
    return True


# ------------------------------------------------------------------------------------------------
# indexing / copy


def gen_index(rng, n):
    kind = str(rng.choice(["int", "npint", "slice", "mask", "idx", "list", "copy"], p=[0.14, 0.06, 0.25, 0.2, 0.2, 0.07, 0.08]))
    if kind in ("int", "npint"):
        i = int(rng.integers(-n - 2, n + 2)) if rng.random() < 0.25 else int(rng.integers(-n, n))
        return dict(kind=kind, i=i)
    if kind == "slice":
        def bound():
            return None if rng.random() < 0.3 else int(rng.integers(-n - 3, n + 4))
        step = None if rng.random() < 0.35 else int(rng.choice([1, 2, 3, -1, -2, -3, n + 1, -(n + 1), 7]))
        return dict(kind=kind, start=bound(), stop=bound(), step=step)
    if kind == "mask":
        p = float(rng.choice([0.0, 0.2, 0.5, 0.9, 1.0]))
        mask = [bool(v) for v in rng.random(n) < p]
        if rng.random() < 0.05:
            mask = mask + [True]          # wrong length: must be refused
        return dict(kind=kind, mask=mask)
    if kind in ("idx", "list"):
        m = int(rng.integers(0, 2 * n + 1)) if kind == "idx" else int(rng.integers(1, 2 * n + 1))
        idx = [int(v) for v in rng.integers(-n, n, m)]
        if rng.random() < 0.07:
            idx.append(int(rng.choice([n, -n - 1, n + 5])))   # out of range: must be refused
        return dict(kind=kind, idx=idx)
    return dict(kind="copy")


def index_case(ctx, g, rng):
    d = gen_table(rng)
    if g["index"] % 3 == 0:
        d["via_table"] = True
        ctx.count("index:built from a QTable with unit-less dimensionless columns")
    n = d["n"]
    ix = gen_index(rng, n)
    s = build(d)
    kind = ix["kind"]
    err = None
    res = None
    try:
        if kind == "int":
            res = s[ix["i"]]
        elif kind == "npint":
            res = s[np.int64(ix["i"])]
        elif kind == "slice":
            res = s[slice(ix["start"], ix["stop"], ix["step"])]
        elif kind == "mask":
            res = s[np.array(ix["mask"], dtype=bool)]
        elif kind == "idx":
            res = s[np.array(ix["idx"], dtype=int)]
        elif kind == "list":
            res = s[list(ix["idx"])]
        else:
            res = s.copy()
    except IndexError as e:
        err = "index"
    op = {"op": "samples.index", "n": n, "polyTrend": d["poly_trend"], "nOffsets": d["n_offsets"],
          "kind": {"npint": "int", "list": "idx"}.get(kind, kind)}
    if d["t_ref"] is not None:
        op["tref"] = core.bits(d["t_ref"])
    if kind in ("int", "npint"):
        op["i"] = ix["i"]
    elif kind == "slice":
        op.update(start=ix["start"], stop=ix["stop"], step=ix["step"])
    elif kind == "mask":
        op["mask"] = ix["mask"]
    elif kind in ("idx", "list"):
        op["idx"] = ix["idx"]
    m = ctx.model(op)
    ctx.count(f"index:{kind}")
    rel = "__getitem__/copy=Samples.get*"
    nontriv = (kind in ("int", "npint") and ix["i"] < 0) or (kind == "slice" and (ix["step"] not in (None, 1))) or \
        (kind in ("idx", "list") and (len(set(ix["idx"])) < len(ix["idx"]) or any(v < 0 for v in ix["idx"]))) or \
        (kind == "mask" and 0 < sum(ix["mask"]) < n)
    ctx.evaluated(rel, (g["kind"], g["index"]) if nontriv else None, sample=dict(n=n, index=ix))
    inp = dict(d, index=ix)
    # python's own semantics as the independent oracle for which rows are meant
    base = list(range(n))
    try:
        if kind in ("int", "npint"):
            rows = [base[ix["i"]]]
        elif kind == "slice":
            rows = base[slice(ix["start"], ix["stop"], ix["step"])]
        elif kind == "mask":
            if len(ix["mask"]) != n:
                raise IndexError
            rows = [i for i, b in enumerate(ix["mask"]) if b]
        elif kind in ("idx", "list"):
            rows = [base[i] for i in ix["idx"]]
        else:
            rows = base
        oracle_err = None
    except IndexError:
        rows, oracle_err = None, "index"
    if ("error" in m) != (oracle_err is not None) or (oracle_err is None and m["rows"] != rows):
        raise core.Infra(f"Lean model and python index semantics disagree on {ix} (n={n}): {m} vs {rows}")
    if oracle_err is not None:
        ctx.count("index:refused")
        if err is None:
            ctx.violation(rel, g, inp, dict(rows=len(res)), m,
                          "an index outside the table must be refused (IndexError), not answered with some row",
                          tags=dict(op="getitem", kind=kind, out_of_range=True))
        return
    if err is not None:
        ctx.violation(rel, g, inp, dict(error=err), m, "a valid index expression must be accepted",
                      tags=dict(op="getitem", kind=kind))
        return
    if len(rows) == 0:
        ctx.count("index:empty_result")
    if kind == "slice" and ix["step"] is not None and ix["step"] < 0:
        ctx.count("index:negative_step")
    snap = snapshot(res)
    why = meta_problem(snap, d) or rows_problem(snap, d, rows)
    if why is None and len(res) != len(rows):
        why = f"len() = {len(res)}, expected {len(rows)}"
    if why is None and kind == "copy" and res is s:
        why = "copy() returned the same object"
    if why is not None:
        ctx.violation(rel, g, inp, dict(meta=snap["meta"], cols=[(k, un) for k, un, _ in snap["cols"]], nrows=len(res)),
                      dict(rows=rows, meta=declared_meta(d)),
                      "the result must consist of exactly the requested rows (every column from the same rows, bit for bit) "
                      "and keep units, t_ref, poly_trend, n_offsets: " + why, tags=dict(op="copy" if kind == "copy" else "getitem", kind=kind))
        return
    if not (m["allColumnsSameRows"] and (m["polyTrend"], m["nOffsets"]) == (d["poly_trend"], d["n_offsets"])):
        raise core.Infra("model lost metadata")


# ------------------------------------------------------------------------------------------------
# mean / std / median_period


def reduce_case(ctx, g, rng):
    d = gen_table(rng)
    n = d["n"]
    if rng.random() < 0.5 and n >= 2:          # duplicated periods around the median
        cP = col(d, "P")
        k = int(rng.integers(2, min(n, 6) + 1))
        srt = sorted(cP["vals"])
        v = srt[n // 2]
        pos = rng.permutation(n)[:k]
        for p_ in pos:
            cP["vals"][int(p_)] = v
    s = build(d)
    inp = dict(d)
    for op in ("mean", "std", "median_period"):
        res = getattr(s, op)()
        snap = snapshot(res)
        rel = f"{op}=Samples.{ {'mean': 'mean', 'std': 'std', 'median_period': 'medianPeriod'}[op] }"
        ctx.count(f"reduce:{op}")
        why = meta_problem(snap, d)
        if why is None and len(res) != 1:
            why = f"{op}() returned {len(res)} rows"
        if op == "median_period":
            cP = col(d, "P")
            m = ctx.model({"op": "samples.median", "P": core.bits_list(cP["vals"])})
            cands = m["candidates"]
            srt = sorted(cP["vals"])
            if core.bits(srt[n // 2]) != core.bits(float(Fraction(m["value"]))) or \
                    cands != [i for i, v in enumerate(cP["vals"]) if v == srt[n // 2]]:
                raise core.Infra("Lean model and python disagree on the median row")
            dup = len(cands) > 1
            if dup:
                ctx.count("reduce:median_duplicated")
            ctx.evaluated(rel, (g["kind"], g["index"]) if dup or n % 2 == 0 else None, sample=dict(n=n, candidates=cands[:5]))
            differs = None
            if why is None:
                member = [r for r in range(n) if rows_problem(snap, d, [r]) is None]
                if not member:
                    why = "the returned row is not a row of the table"
                else:
                    pv = cP["vals"][member[0]]
                    below = sum(1 for v in cP["vals"] if v < pv)
                    above = sum(1 for v in cP["vals"] if v > pv)
                    if 2 * below > n or 2 * above > n:      # not a median of the periods in any convention
                        why = (f"returned row {member[0]} has P = {pv!r}: {below} periods are smaller and {above} larger, "
                               f"so it is not a median of the {n} periods (floor(N/2)-th smallest is {srt[n // 2]!r})")
                    elif not any(r in cands for r in member):
                        differs = (f"returned row {member[0]} (P = {pv!r}) is a median row but not the floor(N/2)-th order "
                                   f"statistic {srt[n // 2]!r} the model prescribes")
            if why is not None:
                ctx.violation(rel, g, inp, dict(meta=snap["meta"], row={k: core.unbits(b[0]) for k, _, b in snap["cols"] if b}),
                              dict(candidates=cands, value=srt[n // 2], meta=declared_meta(d)),
                              "median_period must return an actual member row with a median period and keep units and "
                              "metadata: " + why, tags=dict(op="median_period"))
            elif differs is not None:
                ctx.mismatch(rel, g, inp, dict(row={k: core.unbits(b[0]) for k, _, b in snap["cols"] if b}),
                             dict(candidates=cands, value=srt[n // 2]), differs, tags=dict(op="median_period"))
            continue
        names = [c["name"] for c in d["cols"]]
        m = ctx.model({"op": "samples.reduce", "cols": [core.bits_list(c["vals"]) for c in d["cols"]]})
        ctx.evaluated(rel, (g["kind"], g["index"]) if n > 1 else None)
        if why is not None:
            ctx.violation(rel, g, inp, dict(meta=snap["meta"], cols=[(k, un) for k, un, _ in snap["cols"]]),
                          dict(meta=declared_meta(d)),
                          f"{op}() must return a one-row table with the units, t_ref, poly_trend and n_offsets of the table: " + why,
                          tags=dict(op=op))
            continue
        for (k, un, b), c, mm, mv in zip(snap["cols"], d["cols"], m["mean"], m["var"]):
            x = np.array(c["vals"])
            got = core.unbits(b[0])
            if op == "mean":
                want = float(Fraction(mm))
                tol = 16 * EPS * float(np.sum(np.abs(x))) / n + 1e-300
            else:
                want = math.sqrt(float(Fraction(mv)))
                tol = 32 * EPS * float(np.max(np.abs(x))) + 16 * EPS * want + 1e-300
                # sqrt near zero amplifies: |sqrt(a)-sqrt(b)| <= sqrt|a-b|; variance error <= 64 eps max|x|^2
                tol = max(tol, math.sqrt(64 * EPS) * float(np.max(np.abs(x))) if want < 1e-6 * float(np.max(np.abs(x)) + 1e-300) else tol)
            if abs(got - want) > tol:
                ctx.mismatch(rel, g, inp, {k: got}, {k: want},
                             f"{op} of column {k} differs from the model (units and metadata are kept)", tags=dict(op=op))
                break


# ------------------------------------------------------------------------------------------------
# pack / unpack


def pack_case(ctx, g, rng):
    import astropy.units as u
    from astropy.time import Time
    from thejoker import JokerSamples
    mixed = bool(rng.random() < 0.25)
    d = gen_table(rng, n=int(rng.choice([1, 2, 9, int(rng.integers(1, 80))])), mixed_dtype=mixed)
    s = build(d)
    mode = str(rng.choice(["default", "all", "names", "units"], p=[0.25, 0.25, 0.2, 0.3]))
    if mixed:
        ctx.count("pack:mixed float32/float64 table")
        if mode == "units":
            mode = "names"
    kw = {}
    names_decl = None
    units_decl = {}
    allnames = [c["name"] for c in d["cols"]]
    if mode == "all":
        kw["nonlinear_only"] = False
    if mode in ("names", "units"):
        k = int(rng.integers(1, len(allnames) + 1))
        names_decl = [allnames[int(i)] for i in rng.permutation(len(allnames))[:k]]
        kw["names"] = list(names_decl)
    if mode == "units":
        alt = {"d": ["yr", "h", "d"], "yr": ["d", "h"], "h": ["d", "yr"], "km / s": ["m / s", "km / s"], "m / s": ["km / s", "m / s"],
               "rad": ["deg", "rad"], "deg": ["rad", "deg"]}
        for nm in names_decl:
            un = col(d, nm)["unit"]
            if un in alt and rng.random() < 0.7:
                units_decl[nm] = str(rng.choice(alt[un]))
        kw["units"] = {k_: u.Unit(v) for k_, v in units_decl.items()}
    packed, out_units = s.pack(**kw)
    meta_kw = dict(poly_trend=d["poly_trend"], n_offsets=d["n_offsets"])
    if d["t_ref"] is not None:
        meta_kw["t_ref"] = Time(d["t_ref"], format="mjd", scale="tcb")
    back = JokerSamples.unpack(packed, out_units, **meta_kw)
    snap = snapshot(back)
    out_names = list(out_units.keys())
    out_labels = {k: str(v) for k, v in out_units.items()}
    ctx.count(f"pack:{mode}")
    rel = "unpack∘pack=Samples.unpack∘pack"
    # declared request: the names asked for (default: the five nonlinear parameters / all columns)
    want_names = names_decl if names_decl is not None else (allnames if mode == "all" else ["P", "e", "omega", "M0", "s"])
    conv = any(out_labels.get(nm) != col(d, nm)["unit"] for nm in want_names if nm in out_labels)
    if conv:
        ctx.count("pack:converted")
    ctx.evaluated(rel, (g["kind"], g["index"]) if conv else None, sample=dict(mode=mode, names=want_names, units=units_decl))
    inp = dict(d, mode=mode, names=names_decl, units=units_decl)
    why = None
    if out_names != want_names:
        why = f"packed names {out_names}, requested {want_names}"
    if why is None and np.shape(packed) != (d["n"], len(want_names)):
        why = f"packed array has shape {np.shape(packed)}, expected {(d['n'], len(want_names))}"
    if why is None:
        for nm, lab in units_decl.items():
            if out_labels[nm] != lab:
                why = f"column {nm} was requested in {lab!r} but pack reports {out_labels[nm]!r}"
    if why is None and [k for k, _, _ in snap["cols"]] != want_names:
        why = f"unpacked names {[k for k, _, _ in snap['cols']]}, packed {want_names}"
    if why is None and snap["meta"] != declared_meta(d):
        why = f"unpacked metadata {snap['meta']} differs from what was passed {declared_meta(d)}"
    if why is None:
        for j, (k, un, b) in enumerate(snap["cols"]):
            c = col(d, k)
            if un != out_labels[k]:
                why = f"column {k}: unpacked unit {un!r}, pack reported {out_labels[k]!r}"
                break
            if un not in SCALES:
                raise core.Infra(f"unit {un!r} not in the harness' unit table")
            for r in range(d["n"]):
                got = F(core.unbits(b[r]))
                pk = F(packed[r, j])
                orig = F(c["vals"][r])
                if pk != got:
                    why = f"column {k} row {r}: unpacked value {float(got)!r} is not the packed value {float(pk)!r}"
                elif un == c["unit"]:
                    if got != orig:
                        why = f"column {k} row {r}: unit kept ({un!r}) but value changed {float(orig)!r} -> {float(got)!r}"
                elif abs(got * SCALES[un] - orig * SCALES[c["unit"]]) > Fraction(4 * EPS) * abs(orig * SCALES[c["unit"]]):
                    why = (f"column {k} row {r}: {float(orig)!r} {c['unit']} became {float(got)!r} {un}: not the same physical value")
                if why:
                    break
            if why:
                break
    if why is not None:
        ctx.violation(rel, g, inp, dict(names=out_names, units=out_labels, meta=snap["meta"]),
                      dict(names=want_names, units=units_decl, meta=declared_meta(d)),
                      "pack followed by unpack must reproduce names (in packing order), units (as requested / reported) and "
                      "values (same physical quantities; identical numbers where the unit is kept): " + why,
                      tags=dict(op="pack_unpack", mode=mode))
        return
    # correspondence with the model: same request, target unit = requested, else the one pack reported
    units_req = {nm: dict(label=out_labels[nm], scale=str(SCALES[out_labels[nm]])) for nm in want_names}
    m = ctx.model({"op": "samples.pack", "polyTrend": d["poly_trend"], "nOffsets": d["n_offsets"],
                   "cols": [dict(name=c["name"], label=c["unit"], scale=str(SCALES[c["unit"]]), vals=core.bits_list(c["vals"]))
                            for c in d["cols"]], "names": want_names, "units": units_req})
    if "error" in m:
        raise core.Infra(f"model refused pack request {want_names}: {m}")
    bad = None
    if [c["name"] for c in m["unpacked"]] != want_names or [c["label"] for c in m["unpacked"]] != [out_labels[k] for k in want_names]:
        bad = "names/units"
    else:
        for (k, un, b), mc in zip(snap["cols"], m["unpacked"]):
            for r in range(d["n"]):
                mv = Fraction(mc["vals"][r])
                if abs(F(core.unbits(b[r])) - mv) > Fraction(4 * EPS) * abs(mv):
                    bad = f"column {k} row {r}"
                    break
            if bad:
                break
    if bad:
        ctx.mismatch(rel, g, inp, dict(names=out_names), dict(names=[c["name"] for c in m["unpacked"]]),
                     "implementation and model differ on " + bad)


# ------------------------------------------------------------------------------------------------


def logunit_case(ctx, g, rng):
    """a table whose period (or K, s) column is handed over as a logarithmic quantity (`u.Dex(log10 P, u.dex(u.day))`:
    accepted by `JokerSamples` because dex(d) is "equivalent" to d).  Metamorphic: the same physical table with the column in
    its ordinary unit; every operation of the property must give the same physical result and keep the metadata."""
    import astropy.units as u
    import thejoker as tj
    from astropy.time import Time
    rel = "a table with a column in a logarithmic unit behaves as the same table in the ordinary unit (get_t0, get_time_with_phase, mean/std, indexing, pack)"
    n = int(rng.integers(2, 9))
    tref = Time(58000.25 + float(rng.integers(0, 100)), format="mjd", scale="tcb")
    pt_, no_ = int(rng.choice([1, 2])), int(rng.choice([0, 1]))
    cols = dict(P=10 ** rng.uniform(0, 3, n) * u.day, e=rng.uniform(0, 0.9, n) * u.one, omega=rng.uniform(0, 6, n) * u.rad,
                M0=rng.uniform(0, 6, n) * u.rad, s=10 ** rng.uniform(-2, 1, n) * u.km / u.s, K=10 ** rng.uniform(-1, 2, n) * u.km / u.s,
                v0=rng.normal(0, 10, n) * u.km / u.s)
    which = ["P", "P", "K", "s"][g["index"] % 4]     # by case index: coverage must not be luck
    logu = {"P": u.dex(u.day), "K": u.dex(u.km / u.s), "s": u.mag(u.km / u.s)}[which]

    def build(log):
        t = tj.JokerSamples(t_ref=tref, poly_trend=pt_, n_offsets=no_)
        for k_, v_ in cols.items():
            t[k_] = v_.to(logu) if (log and k_ == which) else v_
        return t
    ref = build(False)
    ops = dict(
        get_t0=lambda t: t.get_t0().tcb.mjd,
        get_time_with_phase=lambda t: t.get_time_with_phase(1.25 * u.rad).tcb.mjd,
        mean=lambda t: [t.mean()[c_].to_value(cols[c_].unit) for c_ in cols] + [str(t.mean().t_ref), t.mean().poly_trend, t.mean().n_offsets],
        std=lambda t: [np.asarray(t.std()[c_].to_value(cols[c_].unit)) for c_ in cols if c_ != which] + [str(t.std().t_ref), t.std().poly_trend, t.std().n_offsets],
        index=lambda t: [t[1:][c_].to_value(cols[c_].unit) for c_ in cols] + [str(t[1:].t_ref), t[1:].poly_trend],
        median_period=lambda t: [np.asarray(t.median_period()[c_].to_value(cols[c_].unit)) for c_ in cols],
        wrap_K=lambda t: [t.wrap_K()[c_].to_value(cols[c_].unit) for c_ in cols],
        pack=lambda t: t.pack()[0],
    )
    ctx.count("logunit:" + which)
    bad = []
    try:
        lg = build(True)
    except Exception as e_:  # noqa: BLE001
        # refusing the logarithmic column outright is a consistent answer as well (the table is then not a valid one)
        ctx.evaluated(rel, None)
        ctx.count("logunit:refused at construction")
        return
    for name, f in ops.items():
        want = f(ref)
        try:
            got = f(lg)
        except Exception as e_:  # noqa: BLE001
            bad.append(f"{name}: raised {type(e_).__name__}: {str(e_)[:100]}")
            continue

        def same(a, b):
            if isinstance(a, (str, int)) or a is None:
                return a == b
            a, b = np.asarray(a, float), np.asarray(b, float)
            return a.shape == b.shape and bool(np.all(np.abs(a - b) <= 1e-9 * (1 + np.abs(b))))
        ok = same(got, want) if not isinstance(want, list) else (len(got) == len(want) and all(same(x, y) for x, y in zip(got, want)))
        if not ok:
            bad.append(f"{name}: differs from the table in the ordinary unit")
    ctx.evaluated(rel, (g["index"], which))
    if bad:
        ctx.violation(rel, g, dict(n=n, column=which, unit=str(logu), values={k_: np.asarray(v_.value).tolist() for k_, v_ in cols.items()}, t_ref=str(tref)),
                      dict(failures=bad), None, "JokerSamples accepts the column; the operations of the property must then work on it and "
                      "agree with the same physical table in the ordinary unit: " + "; ".join(bad), tags=dict(kind="logunit", column=which))


def run_case(ctx, g):
    kind, index = g["kind"], g["index"]
    ctx.seed = g.get("seed", ctx.seed)
    rng = ctx.case_rng(kind, index)
    BIG["on"] = kind.endswith("_big")
    kind = kind[:-4] if BIG["on"] else kind
    if kind == "wrap":
        wrap_case(ctx, g, rng)
    elif kind == "phase":
        phase_case(ctx, g, rng)
    elif kind == "index":
        index_case(ctx, g, rng)
    elif kind == "reduce":
        reduce_case(ctx, g, rng)
    elif kind == "pack":
        pack_case(ctx, g, rng)
    elif kind == "logunit":
        logunit_case(ctx, g, rng)
    else:
        raise core.Infra(f"unknown case kind {kind}")


def post(ctx):
    ctx.rule = RULE
    c = ctx.counters
    ctx.require("tables with the period column in dex(d)", c["logunit:P"], 3)
    ctx.require("wrap_K tables with both signs of K", c["wrap:both_signs"], 40)
    ctx.require("wrap_K all negative", c["wrap:allneg"], 8)
    ctx.require("wrap_K nothing to do", c["wrap:allpos"], 8)
    ctx.require("wrap_K with K = 0 / -0", c["wrap:zeros"], 5)
    ctx.require("wrap_K omega in deg", c["wrap:omega_deg"], 30)
    ctx.require("wrap_K omega in rad", c["wrap:omega_rad"], 30)
    ctx.require("wrap_K rows compared through get_orbit", c["wrap:orbit_rows"], 100)
    ctx.require("get_t0", c["phase:t0"], 30)
    ctx.require("get_time_with_phase", c["phase:phase"], 80)
    ctx.require("t_ref passed as argument", c["phase:tref_argument"], 15)
    ctx.require("single-row samples", c["phase:single_row"], 20)
    ctx.require("several calls on one object", c["phase:history>=2"], 40)
    for sc in ("utc", "tt", "tdb"):
        ctx.require(f"reference epoch given in the {sc} scale", c[f"phase:t_ref scale {sc}"], 10)
    ctx.require("explicit reference epoch changed between calls on one object", c["phase:history:tref"], 5)
    ctx.require("M0 column re-assigned between calls", c["phase:history:M0"], 8)
    ctx.require("P column re-assigned between calls", c["phase:history:P"], 8)
    ctx.require("get_orbit called between calls", c["phase:history:orbit"], 5)
    for un in ("d", "yr", "h"):
        ctx.require(f"period in {un}", c[f"phase:P_{un}"], 20)
    for un in ("rad", "deg"):
        ctx.require(f"M0 in {un}", c[f"phase:M0_{un}"], 40)
    for k in ("int", "npint", "slice", "mask", "idx", "list", "copy"):
        ctx.require(f"index kind {k}", c[f"index:{k}"], 10)
    ctx.require("refused index expressions", c["index:refused"], 8)
    ctx.require("tables built from a QTable with unit-less columns", c["index:built from a QTable with unit-less dimensionless columns"], 10)
    ctx.require("negative slice step", c["index:negative_step"], 10)
    ctx.require("empty results", c["index:empty_result"], 5)
    ctx.require("median with duplicated periods", c["reduce:median_duplicated"], 20)
    for k in ("default", "all", "names", "units"):
        ctx.require(f"pack mode {k}", c[f"pack:{k}"], 15)
    ctx.require("pack with a unit conversion", c["pack:converted"], 40)
    ctx.require("pack of tables mixing float32 and float64 columns", c["pack:mixed float32/float64 table"], 15)
