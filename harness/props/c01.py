"""C01 - marginal log-likelihood equals the analytic Gaussian marginal.

Relations checked per (problem, prior sample):
  R1 kernel.exact   exact-mode source twin  ==  closed form  (tight tolerance: only log / input-conversion rounding)
  R2 api.float      TheJoker.marginal_ln_likelihood (all four call paths)  ~  closed form  (forward-error budget)
  R3 api.finite     finite result for every finite valid input (incl. 0.99 < e < 1)
  M  model.sanity   Lean Q model (chi2, det B) == independent dense closed form, exactly (checks the model itself)
Inputs of the closed form and of the Lean model come from the declared problem (data arrays, prior numbers and
units), never from the helper."""
import os
import tempfile
from fractions import Fraction as F

import numpy as np

import core
import kern
import oracle
import scen

NEEDS_KERNEL = True
RULE = ("random problems (n 1..12, p 1..3, q 0..2, default / custom-Normal K, non-zero means, zero / constant / sampled "
        "jitter, all unit assignments) x prior samples; a case is non-trivial iff dropping the jitter, swapping two prior "
        "variance slots or un-capping lambda_K in the closed form moves ll by > 100x the tolerance (measured)")
R1, R2, R3 = "kernel.exact=closed_form", "api.float~closed_form", "api.finite"
R4 = "kernel.buffers(exact twin)=Lean Q model"
R5 = "helper.mu,Lambda=Kernel.slotsImp"


def plan(ctx):
    n = 160 if ctx.thorough else 36
    cases = [("problem", i) for i in range(n)] + [("higheccen", i) for i in range(12 if ctx.thorough else 3)]
    # larger data sets (own case kind so that a replay does not depend on the tier): beyond numpy's small-array
    # sort threshold (16) and with more epochs than any quick "problem" case
    cases += [("problemL", i) for i in range(40 if ctx.thorough else 3)]
    # many surveys: two-digit offset names (dv0_10, dv0_11, ...) - beyond what any single-digit test exercises
    cases += [("manysurveys", i) for i in range(12 if ctx.thorough else 2)]
    # many epochs: det(2 pi B) itself (not its logarithm) leaves the double range - (2 pi sigma^2)^n in the data unit
    cases += [("manyepochs", i) for i in range(24 if ctx.thorough else 6)]
    # lists / dicts of sources that declare one explicit reference epoch
    cases += [("listepoch", i) for i in range(24 if ctx.thorough else 4)]
    return cases


def nontrivial_variants(pr, c, M, theta, ll0, tol):
    """does the case discriminate the realistic regressions?  (measured on the closed form)"""
    hits = []
    var = kern.var_exact(c, theta["s"])
    lam = kern.lam_exact(pr, c, theta)
    mu = [F(float(v)) for v in c["mu"]]

    def ll_of(var_, lam_):
        r = oracle.closed_form(M, c["y"], var_, mu, lam_)
        return None if r["singular"] else r["ll"]
    if theta["s"] > 0:
        v = ll_of(kern.var_exact(c, 0.0), lam)
        if v is not None and abs(v - ll0) > 100 * tol:
            hits.append("jitter")
    if len(lam) >= 3 and lam[1] != lam[2]:
        l2 = list(lam)
        l2[1], l2[2] = l2[2], l2[1]
        v = ll_of(var, l2)
        if v is not None and abs(v - ll0) > 100 * tol:
            hits.append("slot-swap")
    if pr.desc["K"]["kind"] == "fcm":
        s0, P0, mk = pr.fcm()
        unc = F(s0) ** 2 / (1 - F(theta["e"]) ** 2) * F(float(np.float64(theta["P"]) / np.float64(P0)) ** (-2 / 3.))
        if unc != lam[0]:
            v = ll_of(var, [unc] + list(lam[1:]))
            if v is not None and abs(v - ll0) > 100 * tol:
                hits.append("cap")
    return hits


def fstr(q):
    q = F(q)
    return f"{q.numerator}/{q.denominator}"


def buffers_vs_lean(ctx, g, hx, row, inp):
    """R4: the work arrays the exact twin leaves behind (B, Binv, A, Ainv, b; a after a posterior step) must equal,
    as rationals, what the Lean Q model computes from the helper's own inputs.  Purely a model<->code tie: a
    difference here is a broken correspondence (ctx.mismatch), the property itself is decided by R1/R2."""
    import exact
    need = ["M_T", "rv", "ivar", "mu", "Lambda", "B", "Binv", "A", "Ainv", "b", "n_linear", "n_times"]
    if not all(hasattr(hx, nm) for nm in need):
        ctx.count("buffers_unavailable")
        return
    try:
        hx.batch_marginal_ln_likelihood(exact.farr(np.asarray(row, dtype=float)[None, :]))
    except ZeroDivisionError:
        return
    n, k = int(hx.n_times), int(hx.n_linear)
    MT = np.asarray(hx.M_T)
    op = {"op": "kernel.evalq", "n": n, "k": k, "full": True,
          "M": [fstr(MT[j, i]) for i in range(n) for j in range(k)], "y": [fstr(v) for v in np.asarray(hx.rv)],
          "ivar": [fstr(v) for v in np.asarray(hx.ivar)], "s": fstr(F(float(row[4]))),
          "mu": [fstr(v) for v in np.asarray(hx.mu)[:k]], "lam": [fstr(v) for v in np.asarray(hx.Lambda)[:k]]}
    m = ctx.model(op)
    if "singular" in m:
        return
    diffs = []
    for nm in ("B", "Binv", "A", "Ainv"):
        got = np.asarray(getattr(hx, nm))
        want = m[nm]
        if any(F(got[i, j]) != core.rat(want[i][j]) for i in range(len(want)) for j in range(len(want))):
            diffs.append(nm)
    if any(F(v) != core.rat(w) for v, w in zip(np.asarray(hx.b), m["b"])):
        diffs.append("b")
    ctx.evaluated(R4, ("buf", g["index"], tuple(float(v) for v in row)))
    if diffs:
        ctx.mismatch(R4, g, inp, dict(differing=diffs), None,
                     "work arrays of the exact-mode kernel twin must equal the Lean model's B, Binv, A, Ainv, b as rationals")


def slots_vs_lean(ctx, g, pr, c, hx):
    """R5: the mu / Lambda arrays the constructor fills vs the Lean model of its index arithmetic (`slotsImp`), fed with
    the declared prior numbers converted by the harness (tolerance 4 ulp: unit conversions may round differently)"""
    if not (hasattr(hx, "mu") and hasattr(hx, "Lambda")):
        ctx.count("slots_unavailable")
        return
    mu, sig = c["mu"], c["sig_lin"]
    fcm = pr.desc["K"]["kind"] == "fcm"
    q, p = pr.q, pr.p
    var = [0.0 if s_ is None else float(s_) ** 2 for s_ in sig]
    m = ctx.model({"op": "kernel.slots", "K": core.bits_list([mu[0], var[0]]), "v0": core.bits_list([mu[1], var[1]]),
                   "offMu": core.bits_list(mu[2:2 + q]), "offVar": core.bits_list(var[2:2 + q]),
                   "trMu": core.bits_list(mu[2 + q:]), "trVar": core.bits_list(var[2 + q:])})
    want_mu = [float(core.rat(v)) for v in m["muImp"]]
    want_lam = [float(core.rat(v)) for v in m["lamImp"]]
    got_mu = [float(v) for v in np.asarray(hx.mu)]
    got_lam = [float(v) for v in np.asarray(hx.Lambda)]
    ctx.evaluated(R5, (g["index"], "slots") if (q > 0 or p > 1) else None)
    k = 1 + p + q
    bad = []
    if len(got_mu) < k or len(got_lam) < k:
        bad.append("arrays shorter than n_linear")
    else:
        for j in range(k):
            if abs(got_mu[j] - want_mu[j]) > 1e-15 * abs(want_mu[j]):
                bad.append(f"mu[{j}]={got_mu[j]} want {want_mu[j]}")
            if not (fcm and j == 0) and abs(got_lam[j] - want_lam[j]) > 1e-15 * abs(want_lam[j]):
                bad.append(f"Lambda[{j}]={got_lam[j]} want {want_lam[j]}")
    if bad:
        ctx.mismatch(R5, g, dict(p=p, q=q, K=pr.desc["K"]["kind"], desc=pr.desc), dict(mu=got_mu, Lambda=got_lam),
                     dict(mu=want_mu, Lambda=want_lam), "constructor slot arithmetic must match Kernel.slotsImp: " + "; ".join(bad[:4]))


def run_problem(ctx, g, rng, high_e=False, large=False, many=False):
    if many:
        q = int(rng.integers(10, 13))
        pr = scen.make_problem(rng, n=q + 1 + int(rng.integers(2, 12)), q=q, p=int(rng.choice([1, 2])), K_kind="fcm", means=True)
        ctx.count("many_surveys")
    else:
        pr = scen.make_problem(rng, n=int(rng.integers(17, 33)) if large else int(rng.integers(1, 13)))
    N = 6
    s_values = None
    if pr.desc["s"]["kind"] == "sampled":
        # mixed jitter inside ONE call: rows with s == 0 after rows with s > 0 (state left behind by one sample
        # must not leak into the next)
        dd = pr.desc["s"]
        s_values = (np.exp(rng.normal(dd["mu"], dd["sigma"], N)) * scen.U(dd["unit"])).to_value(pr.data_unit)
        s_values[rng.random(N) < 0.35] = 0.0
        s_values[0] = abs(s_values[0]) + (s_values[0] == 0) * float(np.exp(dd["mu"]))
        s_values[N - 1] = 0.0
        ctx.count("mixed_jitter_library")
    lib, phys = scen.make_library(rng, pr, N, e_max=0.95, s_values=s_values)
    if high_e:
        phys_e = rng.uniform(0.99, 0.9999, N)
        lib["e"] = phys_e
        phys["e"] = phys_e
    c = kern.canon(pr)
    d = pr.desc
    tags0 = dict(p=pr.p, q=pr.q, K=d["K"]["kind"], s=d["s"]["kind"], P_unit=d["P"]["unit"],
                 P0_unit=d["K"].get("P0_unit"), offsets=pr.q > 0)
    ctx.count(f"p={pr.p}"); ctx.count(f"q={pr.q}"); ctx.count("K=" + d["K"]["kind"]); ctx.count("s=" + d["s"]["kind"])
    ctx.count("data_unit=" + pr.surveys[0]["unit"]); ctx.count("P_unit=" + d["P"]["unit"])
    if np.any(c["mu"] != 0):
        ctx.count("nonzero_means")
    # ---- the real API, four call paths ----
    paths = {}
    jk = pr.joker(rng=np.random.default_rng(1))
    with tempfile.TemporaryDirectory(prefix="verif_c01_") as td:
        jk2 = pr.joker(rng=np.random.default_rng(1), tempfile_path=td)
        paths["mem_obj"] = np.array(jk.marginal_ln_likelihood(pr.data, lib, in_memory=True))
        which = str(rng.choice(["file_obj", "file_name", "mem_packed"]))
        if which == "file_obj":
            paths[which] = np.array(jk2.marginal_ln_likelihood(pr.data, lib, n_batches=int(rng.integers(1, 4))))
        elif which == "file_name":
            fn = os.path.join(td, "lib.hdf5")
            lib.write(fn, overwrite=True)
            paths[which] = np.array(jk2.marginal_ln_likelihood(pr.data, fn))
        else:
            h = jk._make_joker_helper(pr.data)
            packed, _ = lib.pack(units=h.internal_units, names=h.packed_order)
            paths[which] = np.array(jk.marginal_ln_likelihood(pr.data, packed, in_memory=True))
    # ---- exact twin ----
    hx = kern.exact_helper(pr)
    slots_vs_lean(ctx, g, pr, c, hx)
    chunk = np.column_stack([phys["P"], phys["e"], phys["omega"], phys["M0"], phys["s"]])
    ll_x = kern.exact_ll(hx, chunk)
    for i in range(N):
        th = kern.theta_of(phys, i)
        inp = dict(problem=dict(p=pr.p, q=pr.q, n=c["n"], desc=d, data_form=str(pr.keys), surveys=[
            dict(unit=s["unit"], t=s["t"], rv=s["rv"], err=s["err"]) for s in pr.surveys]), theta=th, row=i,
            lib_units=phys["units"])
        api = {k: float(v[i]) for k, v in paths.items()}
        if high_e:
            ctx.evaluated(R3, ("he", g["index"], i), sample=dict(theta=th, ll=api))
            bad = {k: v for k, v in api.items() if not np.isfinite(v)}
            if bad:
                ctx.violation(R3, g, inp, api, None, "marginal_ln_likelihood must be finite for every finite valid input "
                              "(0.99 < e < 1: only finiteness is claimed)", tags=dict(tags0, high_e=True))
            continue
        M = kern.design(pr, c, th)
        var = kern.var_exact(c, th["s"])
        lam = kern.lam_exact(pr, c, th)
        mu = [F(float(v)) for v in c["mu"]]
        cf = oracle.closed_form(M, c["y"], var, mu, lam)
        if cf["singular"]:
            ctx.count("oracle_singular")
            continue
        ll0 = cf["ll"]
        # model sanity: Lean Q model on the same rationals (ivar = 1/var exactly here, s folded in by the model)
        if i < 2 and c["k"] > 6:
            # large k: certified evaluation (certificates computed here, checked in Lean; Kernel.certified_eval_sound)
            iv = np.array([1.0 / float(v) ** 2 for v in c["sigma"]])
            lam_d = np.array([float(v) for v in lam])
            mres = kern.lean_eval_cert(ctx, M, c["y"], iv, th["s"], c["mu"], lam_d)
            if "singular" not in mres:
                if not (mres.get("checkInv") and mres.get("checkLU")):
                    raise core.Infra(f"Lean rejected the harness' own certificates (case {g}, row {i}): {mres}")
                var_m = [1 / F(float(v)) + F(th["s"]) ** 2 for v in iv]
                cf_m = oracle.closed_form(M, c["y"], var_m, mu, [F(float(v)) for v in lam_d])
                ctx.count("model_sanity_checks")
                ctx.count("model_sanity_checks_certified_large_k")
                if not cf_m["singular"] and (core.rat(mres["chi2"]) != cf_m["chi2"] or core.rat(mres["detB"]) != cf_m["detB"]):
                    raise core.Infra(f"certified Lean kernel model disagrees with the dense closed form (case {g}, row {i})")
        if i < 2 and c["k"] <= 6:      # the Lean determinant is a Leibniz sum: k! terms
            iv = np.array([1.0 / float(v) ** 2 for v in c["sigma"]])
            # feed the model doubles: sigma^2 is generally not a double, so compare against the closed form built
            # from the model's own inputs (ivar doubles), exactly
            lam_d = np.array([float(v) for v in lam])
            mres = kern.lean_eval(ctx, M, c["y"], iv, th["s"], c["mu"], lam_d)
            if "singular" not in mres:
                var_m = [1 / F(float(v)) + F(th["s"]) ** 2 for v in iv]
                cf_m = oracle.closed_form(M, c["y"], var_m, mu, [F(float(v)) for v in lam_d])
                ctx.count("model_sanity_checks")
                if not cf_m["singular"] and (core.rat(mres["chi2"]) != cf_m["chi2"] or core.rat(mres["detB"]) != cf_m["detB"]):
                    raise core.Infra(f"Lean kernel model disagrees with the dense closed form on exact rationals "
                                     f"(case {g}, row {i}): model chi2={float(core.rat(mres['chi2']))} vs {float(cf_m['chi2'])}")
        if i < 2 and c["k"] <= 6:
            buffers_vs_lean(ctx, g, hx, chunk[i], inp)
        tolF, well, cA, cB = kern.budget(M, [float(v) for v in var], [float(v) for v in lam], cf["chi2"], ll0, c["n"], th["e"], r=cf["r"])
        tolE = 1e-10 * (1 + abs(ll0)) + 1e-13 * np.sqrt(cB) * (1 + abs(float(cf["chi2"])))
        hits = nontrivial_variants(pr, c, M, th, ll0, max(tolF, tolE)) if i < 3 else []
        for hkind in hits:
            ctx.count("discriminates:" + hkind)
        ctx.evaluated(R1, (g["index"], i) if hits else None, sample=dict(theta=th, p=pr.p, q=pr.q, K=d["K"]["kind"],
                      n=c["n"], ll_closed_form=ll0, ll_exact_twin=float(ll_x[i]), ll_api=api, tol_float=tolF))
        ctx.evaluated(R2, (g["index"], i) if hits else None)
        tags = dict(tags0, jitter=th["s"] > 0, cap_binds=("cap" in hits))
        m = ctx.extra.setdefault("margins", dict(max_exact_over_tol=0.0, max_float_over_tol_wellcond=0.0, max_rel_float_dev=0.0))
        m["max_exact_over_tol"] = max(m["max_exact_over_tol"], float(abs(ll_x[i] - ll0) / tolE))
        if well:
            m["max_float_over_tol_wellcond"] = max(m["max_float_over_tol_wellcond"], max(abs(v - ll0) for v in api.values()) / tolF)
        m["max_rel_float_dev"] = max(m["max_rel_float_dev"], max(abs(v - ll0) for v in api.values()) / (1 + abs(ll0)))
        if not (abs(ll_x[i] - ll0) <= tolE):
            ctx.violation(R1, g, inp, dict(ll_exact_twin=float(ll_x[i])), dict(ll_closed_form=ll0, tol=tolE),
                          "marginal ln-likelihood must equal ln N(y | M mu, C + s^2 I + M Lambda M^T) "
                          "(exact-arithmetic execution of the current kernel source vs the closed form)", tags=tags)
            continue
        # what a backward-stable evaluation of ln N(y | M mu, B) achieves: perturbations of relative size eps in B move
        # chi2 by <= cond(B) eps chi2 and ln det B by <= n cond(B) eps  (+ the Kepler oracle's own tolerance)
        tolS = 100 * 2.220446049250313e-16 * cB * (abs(float(cf["chi2"])) + c["n"]) + 1e-9 * (1 + abs(ll0))
        for pth, v in api.items():
            if not np.isfinite(v):
                ctx.violation(R3, g, inp, api, dict(ll_closed_form=ll0), "marginal_ln_likelihood must be finite", tags=dict(tags, path=pth))
                continue
            dev = abs(v - ll0)
            if dev <= min(tolS, tolF) or dev <= 1e-11 * (1 + abs(ll0)):
                continue
            woodbury = dict(ll_closed_form=ll0, deviation=dev, tol_backward_stable=tolS, budget_of_the_woodbury_route=tolF,
                            condAinv=cA, condB=cB, n_times=c["n"], n_linear=c["k"])
            if dev <= tolF or not (well or dev > 1e-3 * (1 + abs(ll0))):
                # explained by the cancellation inside the kernel's route  Binv = Cinv - Cinv M A M^T Cinv,  chi2 = r^T Binv r
                # (error ~ eps cond(A^-1) r^T Cinv r): a numerically unstable algorithm on a well-posed problem.
                # Listed in known_findings.json (C01-woodbury-cancellation); anything larger is a violation.
                ctx.count("float deviation beyond a backward-stable evaluation but within the Woodbury route's own error bound")
                ctx.violation(R2, g, inp, api, woodbury,
                              f"marginal_ln_likelihood ({pth}) must agree with the closed form to numerical round-off: deviation "
                              f"{dev:.3g} where a backward-stable evaluation stays within {tolS:.3g} (cond(B) = {cB:.3g}); the "
                              f"kernel's Woodbury route allows {tolF:.3g} (cond(A^-1) = {cA:.3g})",
                              tags=dict(tags, path=pth, what="woodbury-cancellation"))
            else:
                ctx.violation(R2, g, inp, api, woodbury,
                              f"marginal_ln_likelihood ({pth}) must agree with the closed form to numerical round-off",
                              tags=dict(tags, path=pth))


def setup(ctx):
    """translator self-check against the compiled binary, on the revision the binary was built from"""
    import transcheck
    r = transcheck.run(ctx, ctx.case_rng("transcheck", 0))
    ctx.extra["translator_selfcheck"] = r
    ctx.log(f"[twin] translator self-check: {r}")
    if r["status"] == "compared" and not r["max_rel_dev"] <= 1e-9:
        raise core.Infra(f"pyx->Python translator disagrees with the compiled binary on the revision it was built from: {r}")


def run_manyepochs(ctx, g, rng):
    """50-160 epochs in the regimes where (2 pi sigma^2)^n over- or underflows in the data unit (km/s-class errors given in
    m/s; m/s-class errors given in km/s).  The value is compared with a differently organised float64 evaluation
    (numpy slogdet + solve on the dense B): relation api.float, plus finiteness."""
    import astropy.units as u
    import thejoker as tj
    import pymc as pm
    regime = ("overflow", "underflow")[g["index"] % 2]
    n = int(rng.integers(50, 90)) if regime == "overflow" else int(rng.integers(90, 160))
    t = np.sort(rng.uniform(0, 800, n)) + 58000.0
    if regime == "overflow":
        unit, err = u.m / u.s, rng.uniform(800, 2500, n)          # km/s-class errors expressed in m/s
        amp = 20000.0
    else:
        unit, err = u.km / u.s, rng.uniform(0.002, 0.006, n)       # few-m/s errors expressed in km/s
        amp = 20.0
    P0, e0, om0, M00, K0 = float(rng.uniform(5, 80)), float(rng.uniform(0, 0.5)), 1.0, 2.0, amp
    y = K0 * scen.kepler_column(t, P0, e0, om0, M00, float(t.min())) + amp * 0.3 + rng.normal(0, 1, n) * err
    data = tj.RVData(t, y * unit, err * unit)
    with pm.Model():
        prior = tj.JokerPrior.default(P_min=2 * u.day, P_max=500 * u.day, sigma_K0=30 * u.km / u.s, sigma_v=100 * u.km / u.s)
    N = 6
    smp = tj.JokerSamples()
    Ps = np.concatenate([[P0], rng.uniform(3, 300, N - 1)])
    es = np.concatenate([[e0], rng.uniform(0, 0.8, N - 1)])
    oms = np.concatenate([[om0], rng.uniform(0, 6.28, N - 1)])
    Ms = np.concatenate([[M00], rng.uniform(0, 6.28, N - 1)])
    smp["P"] = Ps * u.day; smp["e"] = es * u.one; smp["omega"] = oms * u.rad; smp["M0"] = Ms * u.rad
    smp["s"] = np.zeros(N) * unit
    jk = tj.TheJoker(prior, rng=np.random.default_rng(1))
    ctx.count(f"manyepochs:{regime}")
    inp = dict(regime=regime, n_epochs=n, data_unit=str(unit), median_err=float(np.median(err)),
               n_log10_2pi_var=float(n * np.log10(2 * np.pi * np.median(err) ** 2)))
    got = {}
    for pth, kw in (("in_memory", dict(in_memory=True)), ("cache", dict())):
        try:
            got[pth] = np.asarray(jk.marginal_ln_likelihood(data, smp, **kw), dtype=float)
        except Exception as e:   # noqa: BLE001
            ctx.evaluated(R3, (g["kind"], g["index"]))
            ctx.violation(R3, g, inp, f"{type(e).__name__}: {str(e)[:160]}", None,
                          f"marginal_ln_likelihood ({pth}) must return a finite value for every finite valid input; it raised",
                          tags=dict(kind="manyepochs", regime=regime, path=pth))
            return
    f = float((1 * u.km / u.s).to_value(unit))
    sigK0, sigv, maxK = 30.0 * f, 100.0 * f, 500.0 * f
    for i in range(N):
        kep = scen.kepler_column(t, Ps[i], es[i], oms[i], Ms[i], float(t.min()))
        M = np.stack([kep, np.ones(n)], axis=1)
        lamK = min(sigK0 ** 2 * (Ps[i] / 365.25) ** (-2 / 3) / (1 - es[i] ** 2), maxK ** 2)
        lam = np.array([lamK, sigv ** 2])
        # scaled so that the reference itself stays in range: B = D (I + W Lam W^T) D with D = diag(err), W = M / err
        W = M / err[:, None]
        S = np.eye(n) + (W * lam) @ W.T
        sign, ld = np.linalg.slogdet(S)
        z = y / err
        chi2 = float(z @ np.linalg.solve(S, z))
        ref = -0.5 * (chi2 + ld + 2 * float(np.sum(np.log(err))) + n * np.log(2 * np.pi))
        cS = float(np.linalg.cond(S))
        tol = 1e-9 * (1 + abs(ref)) + 200 * 2.220446049250313e-16 * cS * (abs(chi2) + n)
        for pth, arr in got.items():
            v = float(arr[i])
            ctx.evaluated(R2, (g["kind"], g["index"], i))
            if not np.isfinite(v):
                ctx.violation(R3, g, dict(inp, row=i), {pth: v}, dict(ll_reference=ref),
                              "marginal_ln_likelihood must be finite for every finite valid input", tags=dict(kind="manyepochs", regime=regime, path=pth))
                return
            if abs(v - ref) > tol and abs(v - ref) > 1e-6 * (1 + abs(ref)):
                ctx.violation(R2, g, dict(inp, row=i, theta=dict(P=Ps[i], e=es[i])), {pth: v}, dict(ll_reference=ref, tol=tol, cond=cS),
                              f"marginal_ln_likelihood ({pth}) must agree with the closed form to numerical round-off "
                              f"(many epochs: deviation {abs(v - ref):.3g})", tags=dict(kind="manyepochs", regime=regime, path=pth))
                return


def run_listepoch(ctx, g, rng):
    """data handed over as a LIST (or dict) of RVData that all declare one explicit reference epoch (the pattern of the offsets
    tutorial: `RVData.guess_from_table(tbl, t_ref=tbl.meta["t_ref"])` per survey, then `[s1, s2]`), and the one-element list
    `[data]`: M0 is the mean anomaly at the DECLARED epoch and the trend columns are powers of `t - t_ref`.  Reference: dense
    closed form at the declared epoch (numpy slogdet / solve); for one source also the bare `data` call."""
    import astropy.units as u
    import pymc as pm
    import thejoker as tj
    from astropy.time import Time
    two = g["index"] % 2 == 1
    ptrend = int(rng.choice([1, 2]))
    n1, n2 = int(rng.integers(4, 8)), int(rng.integers(3, 6))
    t1 = 58000.0 + np.sort(rng.uniform(10, 300, n1))
    t2 = 58000.0 + np.sort(rng.uniform(10, 300, n2))
    T = 58000.0 - float(rng.uniform(5, 40))                      # declared epoch: not the earliest observation
    tref = Time(T, format="mjd", scale="tcb")
    e1, e2 = rng.uniform(0.3, 1.0, n1), rng.uniform(0.3, 1.0, n2)
    y1, y2 = rng.normal(0, 15, n1), rng.normal(3, 15, n2)
    d1 = tj.RVData(Time(t1, format="mjd", scale="tcb"), y1 * u.km / u.s, e1 * u.km / u.s, t_ref=tref)
    d2 = tj.RVData(Time(t2, format="mjd", scale="tcb"), y2 * u.km / u.s, e2 * u.km / u.s, t_ref=tref)
    sig_v = [100.0, 0.5][:ptrend]
    with pm.Model():
        kw = {}
        if two:
            kw["v0_offsets"] = [tj.units.with_unit(pm.Normal("dv0_1", 4.0, 10.0), u.km / u.s)]
        prior = tj.JokerPrior.default(P_min=2 * u.day, P_max=500 * u.day, sigma_K0=30 * u.km / u.s, poly_trend=ptrend,
                                      sigma_v=[sig_v[0] * u.km / u.s, 0.5 * u.km / u.s / u.day][:ptrend], **kw)
    N = 5
    smp = tj.JokerSamples(poly_trend=ptrend, n_offsets=1 if two else 0)
    Ps, es = rng.uniform(5, 200, N), rng.uniform(0, 0.7, N)
    oms, Ms, ss = rng.uniform(0, 6.28, N), rng.uniform(0, 6.28, N), rng.uniform(0, 1.0, N)
    smp["P"] = Ps * u.day; smp["e"] = es * u.one; smp["omega"] = oms * u.rad; smp["M0"] = Ms * u.rad; smp["s"] = ss * u.km / u.s
    jk = tj.TheJoker(prior, rng=np.random.default_rng(1))
    form = str(rng.choice(["list", "dict"]))
    srcs = [d1, d2] if two else [d1]
    data = srcs if form == "list" else {("a", "b")[i]: d for i, d in enumerate(srcs)}
    t = np.concatenate([t1, t2]) if two else t1
    y = np.concatenate([y1, y2]) if two else y1
    err = np.concatenate([e1, e2]) if two else e1
    lab = np.concatenate([np.zeros(n1), np.ones(n2)]) if two else np.zeros(n1)
    n = len(t)
    inp = dict(sources=2 if two else 1, form=form, poly_trend=ptrend, declared_t_ref_bmjd=T, earliest_epoch_bmjd=float(t.min()),
               t=t.tolist(), rv=y.tolist(), err=err.tolist())
    ctx.count("listepoch:" + ("two sources" if two else "one-element list"))
    try:
        got = np.asarray(jk.marginal_ln_likelihood(data, smp, in_memory=bool(g["index"] % 4 < 2)), dtype=float)
        bare = None if two else np.asarray(jk.marginal_ln_likelihood(d1, smp, in_memory=True), dtype=float)
    except Exception as e:   # noqa: BLE001
        ctx.evaluated(R2, (g["kind"], g["index"]))
        ctx.violation(R2, g, inp, f"{type(e).__name__}: {str(e)[:160]}", None, "marginal_ln_likelihood must accept a list / dict of sources "
                      "that declare a common reference epoch", tags=dict(kind="listepoch"))
        return
    for i in range(N):
        kep = scen.kepler_column(t, Ps[i], es[i], oms[i], Ms[i], T)
        cols, mu, lam = [kep, np.ones(n)], [0.0, 0.0], [min(30.0 ** 2 * (Ps[i] / 365.25) ** (-2 / 3) / (1 - es[i] ** 2), 500.0 ** 2), sig_v[0] ** 2]
        if two:
            cols.append((lab == 1).astype(float)); mu.append(4.0); lam.append(100.0)
        if ptrend == 2:
            cols.append(t - T); mu.append(0.0); lam.append(0.25)
        M = np.stack(cols, axis=1)
        B = np.diag(err ** 2 + ss[i] ** 2) + (M * np.array(lam)) @ M.T
        r = y - M @ np.array(mu)
        sign, ld = np.linalg.slogdet(B)
        ref = -0.5 * (float(r @ np.linalg.solve(B, r)) + ld + n * np.log(2 * np.pi))
        tol = 1e-7 * (1 + abs(ref))
        ctx.evaluated(R2, (g["kind"], g["index"], i))
        v = float(got[i])
        if not abs(v - ref) <= tol:
            # how the same closed form comes out at the earliest observation instead of the declared epoch
            kep_min = scen.kepler_column(t, Ps[i], es[i], oms[i], Ms[i], float(t.min()))
            ctx.violation(R2, g, dict(inp, row=i, theta=dict(P=Ps[i], e=es[i], omega=oms[i], M0=Ms[i], s=ss[i])), dict(ll=v, ll_of_the_bare_RVData=None if bare is None else float(bare[i])),
                          dict(closed_form_at_declared_epoch=ref, tol=tol),
                          "the sources declare one reference epoch: M0 and the trend refer to it - marginal_ln_likelihood of the list / dict must "
                          f"equal ln N(y | M mu, C + s^2 I + M Lambda M^T) with M built about that epoch (deviation {abs(v - ref):.3g})",
                          tags=dict(kind="listepoch", sources=2 if two else 1))
            return
        if bare is not None and not abs(float(bare[i]) - v) <= tol:
            ctx.violation(R2, g, dict(inp, row=i), dict(ll_list=v, ll_bare=float(bare[i])), dict(closed_form=ref),
                          "[data] and data are the same data set: same marginal likelihood", tags=dict(kind="listepoch", sources=1))
            return


def run_case(ctx, g):
    ctx.seed = g.get("seed", ctx.seed)
    rng = ctx.case_rng(g["kind"], g["index"])
    if g["kind"] == "manyepochs":
        return run_manyepochs(ctx, g, rng)
    if g["kind"] == "listepoch":
        return run_listepoch(ctx, g, rng)
    run_problem(ctx, g, rng, high_e=(g["kind"] == "higheccen"), large=(g["kind"] == "problemL"), many=(g["kind"] == "manysurveys"))


def post(ctx):
    ctx.rule = RULE
    c = ctx.counters
    if not ctx.replay_mode:
        ctx.require("q>0 problems", c["q=1"] + c["q=2"], 4)
        ctx.require("custom-Normal K problems", c["K=normal"], 4)
        ctx.require("non-zero prior means", c["nonzero_means"], 4)
        ctx.require("jitter discriminating cases", c["discriminates:jitter"], 5)
        ctx.require("cap-binding cases", c["discriminates:cap"], 2)
        ctx.require("p>=2 problems", c["p=2"] + c["p=3"], 4)
        ctx.require("model sanity checks", c["model_sanity_checks"], 10)
        ctx.require("problems with >= 10 survey offsets", c["many_surveys"], 2)
        ctx.require("many-epoch problems where (2 pi sigma^2)^n overflows", c["manyepochs:overflow"], 2)
        ctx.require("many-epoch problems where (2 pi sigma^2)^n underflows", c["manyepochs:underflow"], 2)
        ctx.require("certified Lean evaluations with k > 6", c["model_sanity_checks_certified_large_k"], 2)
        ctx.require("libraries mixing s == 0 and s > 0 rows", c["mixed_jitter_library"], 3)
