"""C12 - sample files round-trip exactly; appends concatenate; incompatible appends are refused without altering
the file; read_batch returns exactly the requested rows / columns / units.

Tie (DESIGN 3/C12): random *declared* tables (1..500 rows, random column subsets and orders, units, dtypes,
metadata incl. `t_ref` Time objects, ln_prior / ln_likelihood columns) and random histories of
write / overwrite / append / read / read_batch on real HDF5 files (FITS: write / read, append refused).  Every
history is executed three ways:

* the real code (`JokerSamples.write/read`, `thejoker.utils.read_batch`) in-process on real files,
* the Lean model `Store` (`store.run` of the driver) on the same declared tables and operations,
* a specification oracle written directly from the property text and independent of the model's algorithm:
  the file is the list of tables written since the last replacing write; a read returns their concatenation;
  an append is legal iff the declared header (names, order, dtypes, units) and metadata (t_ref, poly_trend,
  n_offsets) are equal; batch rows come from Python's own `range(n)[slice]` / `numpy.arange(n)[idx]` / the
  indices recorded at the generator; conversion factors come from an exact rational unit table.

A VIOLATION is reported only when the oracle's predicate fails on the real code's output; a pure model /
implementation difference is a `mismatch`.

Tolerances (stated, DESIGN 3/C12): values are compared bit-identically (NaNs equal NaNs) wherever no unit
conversion is requested.  A converted cell must satisfy |got - v*f_exact| <= 2 ulp(v*f_exact), the ulp taken in
the precision of the *stored* column (float64 or float32): one rounding of the factor (astropy's factor
measured <= 1 ulp off the exact rational) plus one rounding of the product is <= 1.5 ulp.  The cell is re-decided
in exact rational arithmetic before it is blamed on the code.  FITS stores the epoch as one float64 MJD(TCB), so
the FITS epoch must agree to 2 ulp of that number (~1.5e-11 d); HDF5 epochs must agree exactly (scale, jd1+jd2).
"""
import hashlib
import math
import os
import shutil
import tempfile
from fractions import Fraction

import numpy as np

NEEDS_KERNEL = False

RULE = ("random declared tables x random histories (write/overwrite/append/both flags/read/read_batch) on real "
        "HDF5 files + FITS write/read histories + batch-read histories on larger files; an evaluation is one "
        "operation compared real vs Lean model vs spec oracle; non-trivial = append (accepted or refused), "
        "replacing write over an existing file, read of a file holding >=2 appended tables or non-default "
        "metadata, batch read with step>1 / negative bound / repeated or unsorted or negative index / random "
        "subset / unit conversion / error; distinct = distinct (kind, index, op number)")

# ------------------------------------------------------------------------------------------------
# declared units: own exact table (scale relative to a base unit of the dimension, times pi^k)

PI = Fraction("3.14159265358979323846264338327950288419716939937510582097494459230781640628620899")

# key -> (dimension, rational scale, power of pi)
UNITS = {
    "": ("one", Fraction(1), 0),
    "d": ("time", Fraction(1), 0), "yr": ("time", Fraction(36525, 100), 0), "h": ("time", Fraction(1, 24), 0),
    "min": ("time", Fraction(1, 1440), 0), "s": ("time", Fraction(1, 86400), 0),
    "rad": ("angle", Fraction(1), 0), "deg": ("angle", Fraction(1, 180), 1),
    "km/s": ("vel", Fraction(1), 0), "m/s": ("vel", Fraction(1, 1000), 0),
    "km/s/d": ("vel/t", Fraction(1), 0), "m/s/d": ("vel/t", Fraction(1, 1000), 0),
    "km/s/yr": ("vel/t", Fraction(100, 36525), 0), "m/s/yr": ("vel/t", Fraction(100, 36525000), 0),
    "km/s/d2": ("vel/t2", Fraction(1), 0), "m/s/d2": ("vel/t2", Fraction(1, 1000), 0),
    "m/s/yr2": ("vel/t2", Fraction(100 * 100, 36525 * 36525 * 1000), 0),
}
DIM_UNITS = {}
for _k, (_d, _s, _p) in UNITS.items():
    DIM_UNITS.setdefault(_d, []).append(_k)

_U = {}


def U(key):
    """astropy unit of a declared unit key (built from primitives, not parsed)"""
    import astropy.units as u
    if not _U:
        _U.update({
            "": u.one, "d": u.day, "yr": u.yr, "h": u.hour, "min": u.min, "s": u.s, "rad": u.rad, "deg": u.deg,
            "km/s": u.km / u.s, "m/s": u.m / u.s, "km/s/d": u.km / u.s / u.day, "m/s/d": u.m / u.s / u.day,
            "km/s/yr": u.km / u.s / u.yr, "m/s/yr": u.m / u.s / u.yr, "km/s/d2": u.km / u.s / u.day ** 2,
            "m/s/d2": u.m / u.s / u.day ** 2, "m/s/yr2": u.m / u.s / u.yr ** 2,
        })
    return _U[key]


def unit_key(unit):
    """declared key of an astropy unit read back from a file (or '?<repr>')"""
    if unit is None:
        return ""
    for k in UNITS:
        try:
            if unit == U(k):
                return k
        except Exception:
            pass
    return "?" + str(unit)


def exact_factor(frm, to):
    """exact conversion factor frm -> to (Fraction; pi as an 80-digit rational), None if not convertible"""
    d1, s1, p1 = UNITS[frm]
    d2, s2, p2 = UNITS[to]
    if d1 != d2:
        return None
    return s1 / s2 * PI ** (p1 - p2)


def col_dim(name):
    if name == "P":
        return "time"
    if name in ("omega", "M0"):
        return "angle"
    if name in ("e", "ln_prior", "ln_likelihood", "ln_posterior"):
        return "one"
    if name in ("s", "K", "v0") or name.startswith("dv0_"):
        return "vel"
    if name == "v1":
        return "vel/t"
    if name == "v2":
        return "vel/t2"
    raise KeyError(name)


def valid_names(pt, no):
    return (["P", "e", "omega", "M0", "s", "K"] + [f"v{i}" for i in range(pt)] + [f"dv0_{i}" for i in range(1, no + 1)]
            + ["ln_prior", "ln_likelihood", "ln_posterior"])


# ------------------------------------------------------------------------------------------------
# declared epochs

TREF_SPECS = [("tcb", "mjd", 55000.0), ("tcb", "mjd", 55000.5), ("tcb", "jd", 2456123.75), ("utc", "mjd", 56123.123456789),
              ("tdb", "mjd", 58849.987654321), ("utc", "mjd", 55000.0), ("tcb", "mjd", 58849.987654321)]
_TREFS = {}


def tref_key(t):
    """exact key of a Time: scale + exact rational jd1+jd2"""
    if t is None:
        return None
    return f"{t.scale}:{Fraction(float(t.jd1)) + Fraction(float(t.jd2))}"


def tref_pool():
    from astropy.time import Time
    if not _TREFS:
        for scale, fmt, val in TREF_SPECS:
            t = Time(val, format=fmt, scale=scale)
            _TREFS[tref_key(t)] = t
            # the same instant declared through another format (kept only if exactly the same instant)
            t2 = Time(t.jd1, t.jd2, format="jd", scale=scale)
            if tref_key(t2) == tref_key(t):
                _TREFS[tref_key(t) + "#jd"] = t2
    return _TREFS


# ------------------------------------------------------------------------------------------------
# declared tables


def canon_meta(x):
    """canonical, order-defined form of a free-form metadata value (sequences of any flavour are sequences)"""
    if isinstance(x, dict):
        return {str(k): canon_meta(v) for k, v in sorted(x.items(), key=lambda kv: str(kv[0]))}
    if isinstance(x, (list, tuple, np.ndarray)):
        return [canon_meta(v) for v in list(x)]
    if isinstance(x, (bool, np.bool_)):
        return bool(x)
    if isinstance(x, (int, np.integer)):
        return int(x)
    if isinstance(x, (float, np.floating)):
        return float(x)
    return str(x)


def canon_extra(extra):
    import json
    return None if not extra else json.dumps(canon_meta(extra), sort_keys=True)


RESERVED_META = ("t_ref", "poly_trend", "n_offsets")


class Decl:
    """what the user declares: columns (name, unit key, dtype, values), epoch, poly_trend, n_offsets, and free-form
    metadata (`JokerSamples(**kwargs)`; HDF5 histories only)"""

    def __init__(self, cols, tref, pt, no, extra=None):
        self.cols = cols            # list of dict(name, unit, dtype, vals)
        self.tref = tref            # key into tref_pool() or None
        self.pt, self.no = pt, no
        self.extra = extra or None  # dict of free-form metadata or None

    @property
    def n(self):
        return len(self.cols[0]["vals"])

    def header(self):
        return [(c["name"], c["unit"], c["dtype"]) for c in self.cols]

    def tref_model_key(self):
        """the metadata as ONE key for the model (Store compares metadata for equality only): the epoch, and the
        canonical form of the free-form metadata when there is any"""
        k = None if self.tref is None else self.tref.split("#")[0]
        ce = canon_extra(self.extra)
        return k if ce is None else f"{k}||{ce}"

    def metadata(self):
        return (self.tref_model_key(), self.pt, self.no)

    def schema(self):
        return dict(cols=self.header(), tref=self.tref, pt=self.pt, no=self.no, extra=self.extra)

    def describe(self):
        return dict(rows=self.n, cols=[list(h) for h in self.header()], t_ref=self.tref, poly_trend=self.pt,
                    n_offsets=self.no, **({"extra_metadata": canon_meta(self.extra)} if self.extra else {}))

    def to_model(self):
        from core import bits
        return dict(cols=[dict(name=c["name"], unit=c["unit"], dtype=c["dtype"],
                               vals=[bits(float(v)) for v in c["vals"]]) for c in self.cols],
                    tref=self.tref_model_key(), pt=self.pt, no=self.no)

    def concat(self, other):
        """the table a file holds after `other` was appended to `self` (same header and metadata)"""
        return Decl([dict(c, vals=np.concatenate([np.asarray(c["vals"]), np.asarray(o["vals"])]))
                     for c, o in zip(self.cols, other.cols)], self.tref, self.pt, self.no, self.extra)

    def build(self):
        """the real object, through the public API"""
        from thejoker.samples import JokerSamples
        t = None if self.tref is None else tref_pool()[self.tref]
        s = JokerSamples(t_ref=t, poly_trend=self.pt, n_offsets=self.no, **(self.extra or {}))
        for c in self.cols:
            s[c["name"]] = np.array(c["vals"], dtype=c["dtype"]) * U(c["unit"])
        return s


def gen_values(rng, n, name, dtype):
    mode = rng.choice(["unit", "wide", "int", "special"], p=[0.45, 0.35, 0.1, 0.1])
    if mode == "unit":
        v = rng.random(n)
    elif mode == "wide":
        v = rng.standard_normal(n) * 10.0 ** rng.integers(-12, 13, size=n)
    elif mode == "int":
        v = rng.integers(-5, 6, size=n).astype("f8")
    else:
        pool = np.array([0.0, -0.0, 1.0, -1.0, 5e-324, 2.2250738585072014e-308, 1.7976931348623157e308, 1e-300,
                         float("inf"), float("-inf"), float("nan"), 1 / 3, 123456789.123456789])
        if not name.startswith("ln_"):
            pool = pool[np.isfinite(pool)]
        v = rng.choice(pool, size=n)
    v = np.asarray(v, dtype="f8")
    if dtype == "float32":
        with np.errstate(over="ignore"):
            v = v.astype("f4")
    return v


def gen_meta_value(rng, kind=None):
    kind = kind or str(rng.choice(["list", "tuple", "ndarray", "dict", "int", "float", "str"]))
    k = int(rng.integers(1, 4))
    if kind == "list":
        return [int(v) for v in rng.integers(0, 9, size=k)]
    if kind == "tuple":
        return tuple(int(v) for v in rng.integers(0, 9, size=k))
    if kind == "ndarray":
        return np.asarray(rng.integers(0, 9, size=k), dtype="f8")
    if kind == "dict":
        return {f"k{i}": int(rng.integers(0, 9)) for i in range(k)}
    if kind == "int":
        return int(rng.integers(0, 9))
    if kind == "float":
        return float(rng.integers(0, 9)) + 0.5
    return "s" + str(int(rng.integers(0, 9)))


def gen_extra(rng):
    names = ["survey_ids", "note", "run", "weights"]
    return {str(n_): gen_meta_value(rng) for n_ in rng.permutation(names)[: int(rng.integers(1, 3))]}


def gen_schema(rng, with_extra=False):
    extra = gen_extra(rng) if (with_extra and rng.random() < 0.35) else None
    sc = _gen_schema(rng)
    sc["extra"] = extra
    return sc


def _gen_schema(rng):
    pt = int(rng.choice([1, 1, 1, 2, 3]))
    no = int(rng.choice([0, 0, 0, 1, 2]))
    names = valid_names(pt, no)
    style = rng.random()
    if style < 0.35:       # the usual prior-sample file
        cols = ["P", "e", "omega", "M0", "s"] + (["ln_prior"] if rng.random() < 0.5 else [])
    elif style < 0.55:     # a posterior-sample file
        cols = (["P", "e", "omega", "M0", "s", "K"] + [f"v{i}" for i in range(pt)]
                + [f"dv0_{i}" for i in range(1, no + 1)] + list(rng.permutation(["ln_prior", "ln_likelihood"])[: int(rng.integers(0, 3))]))
    else:                  # any subset in any order
        k = int(rng.integers(1, len(names) + 1))
        cols = [str(c) for c in rng.permutation(names)[:k]]
    f4_table = rng.random() < 0.3
    header = []
    for name in cols:
        units = DIM_UNITS[col_dim(name)]
        unit = units[0] if rng.random() < 0.5 else str(rng.choice(units))
        dtype = "float32" if (f4_table and rng.random() < 0.5) else "float64"
        header.append((name, unit, dtype))
    keys = list(tref_pool().keys())
    tref = None if rng.random() < 0.2 else str(rng.choice(keys))
    return dict(cols=header, tref=tref, pt=pt, no=no)


def gen_rows(rng, big=False):
    r = rng.random()
    if big:
        return int(rng.integers(100, 501))
    if r < 0.12:
        return 1
    if r < 0.2:
        return 2
    if r < 0.75:
        return int(rng.integers(3, 25))
    if r < 0.93:
        return int(rng.integers(25, 120))
    return int(rng.integers(120, 501))


def gen_table(rng, schema, n):
    cols = [dict(name=nm, unit=un, dtype=dt, vals=gen_values(rng, n, nm, dt)) for (nm, un, dt) in schema["cols"]]
    return Decl(cols, schema["tref"], schema["pt"], schema["no"], schema.get("extra"))


VARIANTS = ["extra", "missing", "order", "rename", "unit", "dtype", "tref", "pt", "no"]


def mutate_extra(rng, extra):
    """free-form metadata that differs from `extra` in exactly one respect: (detail, new extra)"""
    extra = dict(extra or {})
    ways = ["only-in-new"] + (["only-in-file", "value"] if extra else [])
    way = str(rng.choice(ways))
    if way == "only-in-new":
        extra["added_" + str(int(rng.integers(0, 9)))] = gen_meta_value(rng)
        return way, extra
    key = str(rng.choice(sorted(extra)))
    if way == "only-in-file":
        del extra[key]
        return way, (extra or None)
    old = extra[key]
    kind = ("list" if isinstance(old, list) else "tuple" if isinstance(old, tuple) else "ndarray" if isinstance(old, np.ndarray)
            else "dict" if isinstance(old, dict) else "int" if isinstance(old, int) else "float" if isinstance(old, float) else "str")
    for _ in range(50):
        new = gen_meta_value(rng, kind)
        if canon_meta(new) != canon_meta(old):
            extra[key] = new
            return f"value:{kind}", extra
    return None


def mutate_schema(rng, schema, with_meta=False):
    """a schema that differs from `schema` in exactly one respect; returns (variant, detail, schema) or None"""
    cols = list(schema["cols"])
    used = {c[0] for c in cols}
    pt, no = schema["pt"], schema["no"]
    order = [str(v) for v in rng.permutation(VARIANTS)]
    if (schema.get("extra") and rng.random() < 0.6) or (with_meta and rng.random() < 0.12):
        mut = mutate_extra(rng, schema.get("extra"))
        if mut is not None:
            return "meta", mut[0], dict(schema, cols=list(cols), extra=mut[1])
    if any(c_[2] == "float32" for c_ in cols) and rng.random() < 0.5:
        order = ["dtype"] + order          # files with narrow columns: a widening append is the interesting mismatch
    for variant in order:
        new = dict(schema, cols=list(cols))
        if variant == "extra":
            free = [n for n in valid_names(pt, no) if n not in used]
            if not free:
                continue
            name = str(rng.choice(free))
            unit = str(rng.choice(DIM_UNITS[col_dim(name)]))
            at_end = rng.random() < 0.6
            pos = len(cols) if at_end else int(rng.integers(0, len(cols)))
            new["cols"].insert(pos, (name, unit, "float64"))
            return variant, "end" if at_end else "inside", new
        if variant == "missing":
            if len(cols) < 2:
                continue
            last = rng.random() < 0.5
            pos = len(cols) - 1 if last else int(rng.integers(0, len(cols) - 1))
            del new["cols"][pos]
            return variant, "last" if last else "inside", new
        if variant == "order":
            if len(cols) < 2:
                continue
            i, j = rng.choice(len(cols), size=2, replace=False)
            new["cols"][i], new["cols"][j] = new["cols"][j], new["cols"][i]
            return variant, "swap", new
        if variant == "rename":
            cand = [(i, n) for i, c in enumerate(cols) for n in valid_names(pt, no)
                    if n not in used and col_dim(n) == col_dim(c[0])]
            if not cand:
                continue
            i, n = cand[int(rng.integers(0, len(cand)))]
            new["cols"][i] = (n, cols[i][1], cols[i][2])
            return variant, "same-dimension", new
        if variant == "unit":
            cand = [i for i, c in enumerate(cols) if len(DIM_UNITS[col_dim(c[0])]) > 1]
            if not cand:
                continue
            i = int(rng.choice(cand))
            other = [x for x in DIM_UNITS[col_dim(cols[i][0])] if x != cols[i][1]]
            new["cols"][i] = (cols[i][0], str(rng.choice(other)), cols[i][2])
            return variant, "same-dimension", new
        if variant == "dtype":
            i = int(rng.integers(0, len(cols)))
            narrow = [k_ for k_, c_ in enumerate(cols) if c_[2] == "float32"]
            if narrow and rng.random() < 0.6:       # a wider column appended onto a float32 column of the file
                i = int(rng.choice(narrow))
            new["cols"][i] = (cols[i][0], cols[i][1], "float32" if cols[i][2] == "float64" else "float64")
            return variant, cols[i][2] + "->", new
        if variant == "tref":
            keys = list(tref_pool().keys())
            cur = schema["tref"]
            cur_m = None if cur is None else cur.split("#")[0]
            if cur is None:
                new["tref"] = str(rng.choice(keys))
                return variant, "none->time", new
            if rng.random() < 0.4:
                new["tref"] = None
                return variant, "time->none", new
            other = [k for k in keys if k.split("#")[0] != cur_m]
            new["tref"] = str(rng.choice(other))
            return variant, "time->time", new
        if variant == "pt":
            opts = [p for p in (1, 2, 3) if p != pt and all(n in valid_names(p, no) for n in used)]
            if not opts:
                continue
            new["pt"] = int(rng.choice(opts))
            return variant, f"{pt}->{new['pt']}", new
        if variant == "no":
            opts = [q for q in (0, 1, 2) if q != no and all(n in valid_names(pt, q) for n in used)]
            if not opts:
                continue
            new["no"] = int(rng.choice(opts))
            return variant, f"{no}->{new['no']}", new
    return None


# ------------------------------------------------------------------------------------------------
# the specification oracle (property text, on declared data)


def spec_compatible(a, b):
    return a.header() == b.header() and a.metadata() == b.metadata()


def spec_write(fmt, log, t, ov, ap):
    """returns (new log, outcome) with outcome 'ok' or the refusal kind"""
    if fmt == "fits":
        if ap:
            return log, "notimpl"
        if log and not ov:
            return log, "exists"
        return [t], "ok"
    if not log:
        return [t], "ok"
    if ap and ov:
        return [t], "ok"
    if ap:
        if spec_compatible(log[0], t):
            return log + [t], "ok"
        return log, "incompatible"
    if ov:
        return [t], "ok"
    return log, "exists"


def spec_content(log):
    """canonical content the file must have: header, metadata, per-column float64 bit patterns"""
    if not log:
        return None
    t0 = log[0]
    cols = []
    for i, (name, unit, dtype) in enumerate(t0.header()):
        vals = np.concatenate([np.asarray(t.cols[i]["vals"], dtype="f8") for t in log])
        cols.append(dict(name=name, unit=unit, dtype=dtype, vals=vals))
    return dict(cols=cols, tref=t0.tref_model_key(), pt=t0.pt, no=t0.no)


def same_bits(a, b):
    """bit-identical float64 arrays, NaNs equal to NaNs"""
    a = np.asarray(a, dtype="f8")
    b = np.asarray(b, dtype="f8")
    if a.shape != b.shape:
        return False
    an, bn = np.isnan(a), np.isnan(b)
    if not np.array_equal(an, bn):
        return False
    return bool(np.array_equal(a[~an].view("u8"), b[~bn].view("u8")))


def content_diff(got, want):
    """None if the canonical contents agree, else a description"""
    if got is None or want is None:
        return None if got is want else f"file {'missing' if got is None else 'present'}, expected {'none' if want is None else 'a table'}"
    if "error" in got:
        return f"read raised {got['error']}"
    gh = [(c["name"], c["unit"], c["dtype"]) for c in got["cols"]]
    wh = [(c["name"], c["unit"], c["dtype"]) for c in want["cols"]]
    if [h[0] for h in gh] != [h[0] for h in wh]:
        return f"columns {[h[0] for h in gh]} != {[h[0] for h in wh]}"
    if [h[1] for h in gh] != [h[1] for h in wh]:
        return f"units {[h[1] for h in gh]} != {[h[1] for h in wh]}"
    if [h[2] for h in gh] != [h[2] for h in wh]:
        return f"dtypes {[h[2] for h in gh]} != {[h[2] for h in wh]}"
    for g, w in zip(got["cols"], want["cols"]):
        if len(g["vals"]) != len(w["vals"]):
            return f"column {g['name']}: {len(g['vals'])} rows != {len(w['vals'])}"
        if not same_bits(g["vals"], w["vals"]):
            bad = [i for i in range(len(w["vals"])) if not same_bits(g["vals"][i:i + 1], w["vals"][i:i + 1])]
            return f"column {g['name']}: values differ at rows {bad[:6]} ({len(bad)} rows)"
    if got["tref"] != want["tref"]:
        return f"t_ref {got['tref']} != {want['tref']}"
    if got["pt"] != want["pt"]:
        return f"poly_trend {got['pt']} != {want['pt']}"
    if got["no"] != want["no"]:
        return f"n_offsets {got['no']} != {want['no']}"
    return None


def model_content(t):
    from core import unbits
    if t is None:
        return None
    return dict(cols=[dict(name=c["name"], unit=c["unit"], dtype=c["dtype"],
                           vals=np.array([unbits(b) for b in c["vals"]], dtype="f8")) for c in t["cols"]],
                tref=t["tref"], pt=t["pt"], no=t["no"])


# ------------------------------------------------------------------------------------------------
# the real code


def exc_kind(e):
    mro = [c.__name__ for c in type(e).__mro__]
    for cls, kind in (("FileNotFoundError", "nofile"), ("MergeConflictError", "incompatible"),
                      ("UnitConversionError", "units"), ("UnitsError", "units"), ("NotImplementedError", "notimpl"),
                      ("KeyError", "key"), ("IndexError", "index"), ("OSError", "exists"), ("ValueError", "value")):
        if cls in mro:
            return kind
    return "other:" + type(e).__name__


# which implementation exception kinds count as the model's error kind
KIND_OK = {"incompatible": {"incompatible", "value"}, "exists": {"exists"}, "nofile": {"nofile"},
           "notimpl": {"notimpl"}, "key": {"key", "value"}, "index": {"index"}, "value": {"value"}, "units": {"units"}}


def sha(path):
    if not os.path.exists(path):
        return None
    with open(path, "rb") as f:
        return hashlib.sha256(f.read()).hexdigest()


def real_write(path, decl, ov, ap, obj=None):
    """obj: write THIS object (one that was read back from an earlier file holding `decl`) instead of a fresh one"""
    if obj is None:
        try:
            obj = decl.build()
        except Exception as e:   # the declared table itself is rejected: not a storage question
            raise RuntimeError(f"generator produced a table JokerSamples rejects: {e!r}")
    try:
        obj.write(path, overwrite=ov, append=ap)
        return "ok", None
    except Exception as e:
        return exc_kind(e), f"{type(e).__name__}: {str(e)[:160]}"


def real_read(path, fmt, want):
    """canonical content of the file as JokerSamples.read gives it (or dict(error=...))"""
    from thejoker.samples import JokerSamples
    try:
        r = JokerSamples.read(path)
    except Exception as e:
        return dict(error=exc_kind(e), detail=f"{type(e).__name__}: {str(e)[:160]}")
    cols = []
    for name in r.par_names:
        q = r[name]
        dt = np.dtype(q.dtype).newbyteorder("=").name
        cols.append(dict(name=name, unit=unit_key(getattr(q, "unit", None)), dtype=dt,
                         vals=np.asarray(q.value, dtype="f8")))
    t = r.t_ref
    if t is None:
        key = None
    elif not hasattr(t, "jd1"):
        key = f"?{t!r}"
    elif fmt == "hdf5":
        key = tref_key(t)
    else:
        # FITS keeps one float64 MJD(TCB): equal to the declared epoch to 2 ulp of that number
        key = f"?{t.scale}:{t.mjd!r}"
        if want is not None and want["tref"] is not None:
            decl_t = tref_pool()[want["tref"]]
            tol = 2 * math.ulp(float(decl_t.tcb.mjd))
            if abs((t - decl_t).to_value("day")) <= tol:
                key = want["tref"]
    try:
        pt, no = int(r.poly_trend), int(r.n_offsets)
    except Exception:
        pt, no = repr(r.poly_trend), repr(r.n_offsets)
    if fmt == "hdf5":
        ce = canon_extra({k_: v_ for k_, v_ in r.tbl.meta.items() if k_ not in RESERVED_META and not str(k_).startswith("__")})
        if ce is not None:
            key = f"{key}||{ce}"
    return dict(cols=cols, tref=key, pt=pt, no=no)


# ------------------------------------------------------------------------------------------------
# batch reads


def gen_slice(rng, n):
    def bound():
        r = rng.random()
        if r < 0.2:
            return None
        if r < 0.6:
            return int(rng.integers(0, n + 1))
        if r < 0.8:
            return -int(rng.integers(1, n + 1))
        if r < 0.9:
            return int(rng.integers(n, 2 * n + 3))
        return -int(rng.integers(n, 2 * n + 3))
    a, b = bound(), bound()
    if rng.random() < 0.5 and a is not None and b is not None and a >= 0 and b >= 0 and a > b:
        a, b = b, a   # more non-empty ranges
    r = rng.random()
    if r < 0.45:
        st = None
    elif r < 0.6:
        st = 1
    elif r < 0.9:
        st = int(rng.integers(2, 6))
    elif r < 0.97:
        st = int(rng.integers(max(n, 2), 2 * n + 3))
    else:
        st = 0
    return a, b, st


def gen_idx(rng, n):
    r = rng.random()
    if r < 0.04:
        k = 0
    elif r < 0.2:
        k = 1
    else:
        k = int(rng.integers(2, max(3, min(2 * n, 80)) + 1))
    idx = rng.integers(0, n, size=k)
    style = rng.random()
    if style < 0.15:
        idx = np.sort(idx)
    elif style < 0.4 and k:
        neg = rng.random(k) < 0.4
        idx = np.where(neg, idx - n, idx)
    bad = None
    if k and rng.random() < 0.05:
        bad = int(rng.choice([n, n + 3, -n - 1]))
        idx[int(rng.integers(0, k))] = bad
    if idx.min(initial=0) >= 0 and rng.random() < 0.2:
        idx = idx.astype(rng.choice(["i4", "u8", "u2" if n < 60000 else "i8"]))
    return idx, bad


def gen_batch(rng, want, allow_errors=True):
    """a read_batch request against the declared content `want`"""
    n = len(want["cols"][0]["vals"])
    names = [c["name"] for c in want["cols"]]
    units_of = {c["name"]: c["unit"] for c in want["cols"]}
    k = int(rng.integers(1, min(len(names), 5) + 1))
    cols = [str(c) for c in rng.permutation(names)[:k]]
    if rng.random() < 0.1:
        cols.append(str(rng.choice(cols)))      # the same column twice
    err = None
    if allow_errors and rng.random() < 0.04:
        free = [x for x in valid_names(3, 2) if x not in names]
        if free:
            cols.insert(int(rng.integers(0, len(cols) + 1)), str(rng.choice(free)))
            err = "key"
    r = rng.random()
    if r < 0.4:
        a, b, st = gen_slice(rng, n)
        if st == 0 and (err or not allow_errors):
            st = None
        if st == 0:
            err = "value"
        form = "slice"
        if a is not None and b is not None and rng.random() < 0.3:
            form = "tuple"
        sel = dict(kind="slice", a=a, b=b, st=st, form=form)
    elif r < 0.75:
        idx, bad = gen_idx(rng, n)
        if bad is not None and (err or not allow_errors):
            idx = np.where(idx == bad, 0, idx)
            bad = None
        if bad is not None:
            err = "index"
        sel = dict(kind="idx", idx=idx)
    else:
        size = int(rng.integers(0, n + 1))
        if allow_errors and not err and rng.random() < 0.06:
            size = n + int(rng.integers(1, 4))
            err = "value"
        sel = dict(kind="random", size=size, own_rng=bool(rng.random() < 0.06 and err is None),
                   seed=int(rng.integers(0, 2 ** 31)))
    units = {}
    if rng.random() < 0.6:
        for c in cols:
            if c in units_of and rng.random() < 0.6:
                units[c] = str(rng.choice(DIM_UNITS[UNITS[units_of[c]][0]]))
        if rng.random() < 0.1:
            units["dv0_9"] = "km/s"             # a key that is not a requested column: ignored
    if allow_errors and err is None and rng.random() < 0.03:
        c = cols[0]
        wrong = [u for u in ("d", "rad", "km/s") if UNITS[u][0] != UNITS[units_of[c]][0]]
        units[c] = wrong[0]
        err = "units"
    return dict(cols=cols, sel=sel, units=units, expect_err=err)


def spec_rows(sel, n, recorded):
    """rows the request denotes, from Python's / numpy's own indexing (None = must be refused)"""
    if sel["kind"] == "slice":
        if sel["st"] == 0:
            return None
        return list(range(n)[slice(sel["a"], sel["b"], sel["st"])])
    if sel["kind"] == "idx":
        try:
            return [int(v) for v in np.arange(n)[np.asarray(sel["idx"]).astype("i8")]]
        except IndexError:
            return None
    if sel["size"] > n:
        return None
    return recorded   # may be None: rows then identified by matching


def cell_ok(got, v, frm, to, dtype):
    """is `got` the stored value `v` (unit frm) converted to unit `to`?  exact when no conversion; otherwise
    2 ulp (precision of the stored column) around the exact rational product, decided in rationals"""
    if to is None:
        return same_bits([got], [v])
    if math.isnan(v) or math.isinf(v):
        return same_bits([got], [v]) or (math.isnan(v) and math.isnan(got))
    if math.isnan(got) or math.isinf(got):
        # overflow of a huge value times a factor > 1 is the correctly rounded result
        f = exact_factor(frm, to)
        top = Fraction(3.4028234663852886e38) if dtype == "float32" else Fraction(1.7976931348623157e308)
        return math.isinf(got) and abs(Fraction(v) * f) >= top and (got > 0) == (v > 0)
    f = exact_factor(frm, to)
    exact = Fraction(v) * f
    try:
        fe = float(exact)
    except OverflowError:      # the exact product is beyond float64 but the implementation returned a finite number
        return False
    if dtype == "float32":
        ulp = float(np.spacing(np.float32(abs(fe)))) if abs(fe) < 3e38 else math.ulp(fe)
    else:
        ulp = math.ulp(fe)
    return abs(Fraction(got) - exact) <= 2 * Fraction(ulp)


def real_batch(path, req):
    """run thejoker.utils.read_batch; returns (outcome, payload, recorded choice call)"""
    from rec import RecGen
    from thejoker.utils import read_batch
    sel = req["sel"]
    rec = None
    kw = {}
    if sel["kind"] == "slice":
        arg = slice(sel["a"], sel["b"], sel["st"])
        if sel["form"] == "tuple":
            arg = (sel["a"], sel["b"]) if sel["st"] is None else (sel["a"], sel["b"], sel["st"])
    elif sel["kind"] == "idx":
        arg = np.array(sel["idx"], copy=True)
    else:
        arg = int(sel["size"])
        if not sel["own_rng"]:
            rec = RecGen(sel["seed"])
            kw["rng"] = rec
    if req["units"] or req.get("units_given"):
        kw["units"] = {k: U(v) for k, v in req["units"].items()}
    try:
        out = read_batch(path, list(req["cols"]), arg, **kw)
    except Exception as e:
        return exc_kind(e), f"{type(e).__name__}: {str(e)[:160]}", rec
    return "ok", out, rec


def recorded_choice(rec):
    """(n, size, replace, idx) of the single Generator.choice call, or None"""
    if rec is None:
        return None
    calls = rec.of("choice")
    if len(calls) != 1 or len(rec.calls) != 1:
        return None
    c = calls[0]
    try:
        n = int(c["args"][0])
        size = c["kwargs"].get("size", c["args"][1] if len(c["args"]) > 1 else None)
        replace = c["kwargs"].get("replace", c["args"][2] if len(c["args"]) > 2 else True)
        return dict(n=n, size=int(size), replace=bool(replace), idx=[int(v) for v in np.atleast_1d(c["out"])])
    except Exception:
        return None


def check_batch_output(out, req, want, rows):
    """the property on the implementation's array, given the rows (or None -> match rows as a sub-multiset).
    returns None if it holds else a description"""
    cols = req["cols"]
    by_name = {c["name"]: c for c in want["cols"]}
    n = len(want["cols"][0]["vals"])
    out = np.asarray(out)
    if out.ndim != 2 or out.shape[1] != len(cols):
        return f"shape {out.shape}, expected (*, {len(cols)})"
    size = len(rows) if rows is not None else req["sel"]["size"]
    if out.shape[0] != size:
        return f"{out.shape[0]} rows returned, {size} requested"

    def ok(r_out, r_tab):
        for j, name in enumerate(cols):
            c = by_name[name]
            to = req["units"].get(name)
            if not cell_ok(float(out[r_out, j]), float(c["vals"][r_tab]), c["unit"], to, c["dtype"]):
                return j
        return None
    if rows is not None:
        for k, r in enumerate(rows):
            j = ok(k, r)
            if j is not None:
                name = cols[j]
                return (f"batch[{k}, {j}] (column {name}, row {r}) = {float(out[k, j])!r}, stored value "
                        f"{float(by_name[name]['vals'][r])!r} {by_name[name]['unit']!r} -> {req['units'].get(name)!r}")
        return None
    # random subset with unobserved indices: every returned row must be a distinct row of the table
    free = set(range(n))
    for k in range(out.shape[0]):
        hit = next((r for r in sorted(free) if ok(k, r) is None), None)
        if hit is None:
            return f"returned row {k} is not a (not yet used) row of the table: repeats or foreign values"
        free.discard(hit)
    return None


def batch_nontrivial(req):
    s = req["sel"]
    if req["expect_err"] or req["units"]:
        return True
    if s["kind"] == "slice":
        return (s["st"] or 1) > 1 or (s["a"] or 0) < 0 or (s["b"] or 0) < 0
    if s["kind"] == "idx":
        i = np.asarray(s["idx"]).astype("i8")
        return len(i) > 1 and (len(set(i.tolist())) < len(i) or bool(np.any(np.diff(i) < 0)) or bool(np.any(i < 0)))
    return True


def sel_to_model(sel, rec):
    if sel["kind"] == "slice":
        return {"slice": [sel["a"], sel["b"], sel["st"]]}
    if sel["kind"] == "idx":
        return {"idx": [int(v) for v in np.asarray(sel["idx"]).astype("i8")]}
    d = {"random": sel["size"], "choice": None, "n": None, "size": None}
    if rec is not None and rec["replace"] is False:
        d.update(choice=rec["idx"], n=rec["n"], size=rec["size"])
    return d


def describe_req(req):
    s = dict(req["sel"])
    if "idx" in s:
        s["idx"] = [int(v) for v in np.asarray(s["idx"]).astype("i8")]
        s["idx_dtype"] = str(np.asarray(req["sel"]["idx"]).dtype)
    return dict(columns=req["cols"], sel=s, units=req["units"])


# ------------------------------------------------------------------------------------------------
# a history


class History:
    """runs one op history on the real code, keeps the spec log, collects the ops for the Lean model and the
    per-op observations; `finish` runs the model and decides"""

    def __init__(self, ctx, g, fmt, workdir):
        self.ctx, self.g, self.fmt = ctx, g, fmt
        self.path = os.path.join(workdir, "samples.hdf5" if fmt == "hdf5" else "samples.fits")
        self.log = []            # spec state
        self.tables = []         # declared tables sent to the model
        self.mops = []           # model ops
        self.obs = []            # per model op: dict(kind, ...)
        self.story = []          # human-readable op list for replays
        self.conv = {}
        self.dead = False        # a violation was found: the real file no longer follows the spec
        self.epoch_tolerant = fmt == "fits"   # the epoch went through a FITS file at some point (one float64 MJD(TCB))

    # -- reporting helpers
    def inp(self, extra=None):
        d = dict(format=self.fmt, history=self.story)
        if extra:
            d.update(extra)
        return d

    def violate(self, relation, impl, want, predicate, tags):
        self.dead = True
        self.ctx.violation(relation, self.g, self.inp(), impl, want, predicate, tags=tags)

    # -- ops
    def write(self, decl, ov, ap, variant=None, detail=None, obj=None, obj_origin=None):
        ctx = self.ctx
        rel = "write=Store.write" if self.fmt == "hdf5" else "fits-write=Store.write"
        new_log, want = spec_write(self.fmt, self.log, decl, ov, ap)
        before = sha(self.path)
        existed = before is not None
        got, why = real_write(self.path, decl, ov, ap, obj=obj)
        after = sha(self.path)
        self.story.append(dict(op="write", overwrite=ov, append=ap, table=decl.describe(),
                               **({"object_written": obj_origin} if obj_origin else {}),
                               **({"differs_from_file_in": variant, "how": detail} if variant else {}),
                               spec=want, impl=got if why is None else why))
        self.tables.append(decl.to_model())
        self.mops.append({"k": "write", "t": len(self.tables) - 1, "ov": ov, "ap": ap})
        self.obs.append(dict(kind="write", got=got, want=want, op_no=len(self.story) - 1))
        mode = ("both" if ap and ov else "append" if ap else "overwrite" if ov else "plain")
        ctx.count(f"write:{mode}:{'file' if existed else 'nofile'}")
        if variant:
            ctx.count(f"append-variant:{variant}")
            ctx.count(f"append-variant:{variant}:{detail}")
        nontriv = existed and (ap or ov)
        ctx.evaluated(rel, (self.g["kind"], self.g["index"], len(self.story)) if nontriv else None,
                      sample=self.story[-1] if nontriv and (variant or len(ctx.samples) < 2) else None)
        tags = dict(op="write", fmt=self.fmt, mode=mode, file_existed=existed, spec=want,
                    variant=variant or "none", detail=detail or "none")
        if want == "ok":
            if got != "ok":
                self.violate(rel, why, "ok",
                             f"a valid write (overwrite={ov}, append={ap}, file {'exists' if existed else 'absent'}) "
                             f"must succeed and store the table; the implementation raised {why}"
                             + ("" if before == after else " and altered the file"), tags)
                return
            ctx.count("write-ok:appended" if (ap and not ov and existed) else "write-ok:replaced")
        else:
            if got == "ok":
                self.violate(rel, "written without error", want,
                             f"the write must be refused ({want}"
                             + (f": table differs from the file in {variant} [{detail}]" if variant else "")
                             + ") but it was accepted", tags)
                return
            if before != after:
                self.violate(rel, dict(raised=why, sha_before=before, sha_after=after), want,
                             "a refused write must leave the file unaltered (SHA-256 changed)", tags)
                return
            ctx.count(f"refused:{want}")
        self.log = new_log
        self.verify(after_write=True)

    def verify(self, after_write=False):
        """read the file back and compare with the spec content"""
        ctx = self.ctx
        rel = "read=Store.read" if self.fmt == "hdf5" else "fits-read=Store.read"
        want = spec_content(self.log)
        want_fits = want
        if want is not None:
            # the declared key of the epoch (with its '#jd' alias) for the FITS tolerance comparison
            want_fits = dict(want, tref=self.log[0].tref)
        if want is None:
            got = real_read(self.path, self.fmt, None)
            self.story.append(dict(op="read", impl=got.get("detail", "returned a table")))
            self.mops.append({"k": "read"})
            self.obs.append(dict(kind="read", got=got, want=None, op_no=len(self.story) - 1))
            ctx.evaluated(rel, None)
            ctx.count("read:nofile")
            if got.get("error") != "nofile":
                if "error" not in got:
                    self.violate(rel, "a table", "nofile", "reading a file that does not exist must fail",
                                 dict(op="read", fmt=self.fmt, spec="nofile"))
            return
        got = real_read(self.path, "fits" if self.epoch_tolerant else self.fmt, want_fits)
        if self.epoch_tolerant and "error" not in got and got["tref"] is not None and want is not None \
                and got["tref"] == want_fits["tref"]:
            got["tref"] = want["tref"]
        self.story.append(dict(op="read", after_write=after_write,
                               impl=got.get("detail") or dict(rows=len(got["cols"][0]["vals"]) if got["cols"] else 0,
                                                              cols=[c["name"] for c in got["cols"]])))
        self.mops.append({"k": "read"})
        self.obs.append(dict(kind="read", got=got, want=want, op_no=len(self.story) - 1))
        nontriv = len(self.log) >= 2 or self.log[0].metadata() != (None, 1, 0)
        ctx.evaluated(rel, (self.g["kind"], self.g["index"], len(self.story)) if nontriv else None)
        ctx.count("read:appended-file" if len(self.log) >= 2 else "read:single-table")
        if want["tref"] is not None:
            ctx.count("read:with-t_ref")
        d = content_diff(got, want)
        if d is not None:
            self.violate(rel, summarise(got), summarise(want),
                         "reading must return exactly the columns, order, dtypes, units, values and metadata of "
                         f"everything written since the last replacing write ({len(self.log)} table(s)): " + d,
                         dict(op="read", fmt=self.fmt, tables_in_file=len(self.log), after_write=after_write,
                              what=d.split(" ")[0].rstrip(":")))

    def batch(self, req):
        ctx = self.ctx
        rel = "read_batch=Store.readBatch"
        want = spec_content(self.log)
        outcome, payload, rec = real_batch(self.path, req)
        recd = recorded_choice(rec)
        sel = req["sel"]
        n = len(want["cols"][0]["vals"]) if want else 0
        for name, to in req["units"].items():
            for c in (want["cols"] if want else []):
                if c["name"] == name:
                    f = exact_factor(c["unit"], to)
                    self.conv[(c["unit"], to)] = None if f is None else float(f)
        self.story.append(dict(op="read_batch", **describe_req(req),
                               impl=payload if outcome != "ok" else f"array {np.asarray(payload).shape} {np.asarray(payload).dtype}"))
        self.mops.append({"k": "batch", "cols": req["cols"], "units": [[k, v] for k, v in req["units"].items()],
                          "sel": sel_to_model(sel, recd)})
        self.obs.append(dict(kind="batch", outcome=outcome, payload=payload, req=req, rec=recd,
                             op_no=len(self.story) - 1, want=want))
        ctx.count(f"batch:{sel['kind']}")
        if sel["kind"] == "slice":
            if (sel["st"] or 1) > 1:
                ctx.count("batch:slice:step>1")
            if (sel["a"] or 0) < 0 or (sel["b"] or 0) < 0:
                ctx.count("batch:slice:negative-bound")
            if sel["a"] is None or sel["b"] is None:
                ctx.count("batch:slice:open")
            if sel["form"] == "tuple":
                ctx.count("batch:slice:tuple")
        if sel["kind"] == "idx":
            i = np.asarray(sel["idx"]).astype("i8")
            if len(set(i.tolist())) < len(i):
                ctx.count("batch:idx:repeats")
            if np.any(np.diff(i) < 0):
                ctx.count("batch:idx:unsorted")
            if np.any(i < 0):
                ctx.count("batch:idx:negative")
        if req["units"]:
            ctx.count("batch:units")
            if any(by["unit"] != req["units"].get(by["name"], by["unit"]) for by in (want["cols"] if want else [])):
                ctx.count("batch:units:real-conversion")
        if req["expect_err"]:
            ctx.count(f"batch:error:{req['expect_err']}")
        ctx.evaluated(rel, (self.g["kind"], self.g["index"], len(self.story)) if batch_nontrivial(req) else None,
                      sample=self.story[-1] if len(ctx.samples) < 5 else None)
        tags = dict(op="read_batch", sel=sel["kind"], units=bool(req["units"]), expect_err=req["expect_err"] or "none",
                    mixed_dtype=len({c["dtype"] for c in want["cols"]}) > 1 if want else False,
                    float32=any(c["dtype"] == "float32" for c in want["cols"]) if want else False)
        if want is None:
            if outcome == "ok":
                self.violate(rel, "an array", "nofile", "read_batch on a file that does not exist must fail", tags)
            return
        # the spec's verdict
        rows = spec_rows(sel, n, recd["idx"] if recd else None)
        must_fail = req["expect_err"] is not None
        if must_fail:
            if outcome == "ok":
                self.violate(rel, f"array of shape {np.asarray(payload).shape}", req["expect_err"],
                             f"the request is invalid ({req['expect_err']}) and must be refused", tags)
            return
        if outcome != "ok":
            self.violate(rel, payload, "an array",
                         "a valid read_batch request must be answered; the implementation raised " + str(payload), tags)
            return
        if sel["kind"] == "random" and recd is not None:
            bad = None
            if recd["replace"] is not False:
                bad = "rng.choice was called with replace=True"
            elif len(recd["idx"]) != sel["size"]:
                bad = f"{len(recd['idx'])} indices drawn for size {sel['size']}"
            elif len(set(recd["idx"])) != len(recd["idx"]):
                bad = "the drawn rows repeat"
            elif any(not (0 <= i < n) for i in recd["idx"]):
                bad = "a drawn row is out of range"
            if bad and len(set(recd["idx"])) != len(recd["idx"]):
                self.violate(rel, dict(drawn=recd["idx"]), "distinct rows",
                             "a random batch must be a subset without repeats: " + bad, tags)
                return
            if recd["n"] != n:
                ctx.count("batch:random:population-differs")
        why = check_batch_output(payload, req, want, rows)
        if why is not None:
            self.violate(rel, dict(array=np.asarray(payload, dtype="f8").tolist()[:8], dtype=str(np.asarray(payload).dtype)),
                         dict(rows=rows if rows is None else rows[:40]),
                         "read_batch must return exactly the requested rows (in the requested order) of the "
                         "requested columns, converted to the requested units: " + why, tags)

    # -- model
    def finish(self):
        ctx = self.ctx
        from core import bits, unbits, Infra
        if not self.mops:
            return
        conv = [[a, b, None if f is None else bits(f)] for (a, b), f in self.conv.items()]
        r = ctx.model({"op": "store.run", "fmt": self.fmt, "tables": self.tables, "conv": conv, "ops": self.mops})
        res = r.get("results")
        if res is None or len(res) != len(self.mops):
            raise Infra(f"store.run answered {str(r)[:300]}")
        for o, m in zip(self.obs, res):
            if o["kind"] == "write":
                mk = "ok" if m.get("ok") else m.get("err")
                if mk != o["want"]:
                    raise Infra(f"Lean model and spec oracle disagree on a write: model {mk}, spec {o['want']} "
                                f"(case {self.g}, op {o['op_no']})")
                if o["got"] != mk and not (mk in KIND_OK and o["got"] in KIND_OK[mk]):
                    if (o["got"] == "ok") == (mk == "ok"):   # both refusals, other exception class
                        ctx.mismatch("write=Store.write", self.g, self.inp(dict(op_no=o["op_no"])), o["got"], mk,
                                     "the write is refused, but with another class of exception than the model's kind")
            elif o["kind"] == "read":
                if "err" in m:
                    mc = None
                    if m["err"] != "nofile":
                        raise Infra(f"model read error {m}")
                else:
                    mc = model_content(m["table"])
                d = content_diff(mc, o["want"])
                if d is not None:
                    raise Infra(f"Lean model and spec oracle disagree on a read: {d} (case {self.g}, op {o['op_no']})")
            else:
                self.finish_batch(o, m)

    def finish_batch(self, o, m):
        ctx = self.ctx
        from core import unbits, Infra
        req = o["req"]
        want = o["want"]
        exp = req["expect_err"]
        if want is None:
            if m.get("err") != "nofile":
                raise Infra(f"model batch on no file: {m}")
            return
        if req["sel"]["kind"] == "random" and req["sel"]["own_rng"]:
            ctx.count("batch:random:model-skipped")   # indices not observable (own generator): model cannot be run
            return
        if req["sel"]["kind"] == "random" and exp is None:
            n = len(want["cols"][0]["vals"])
            rec = o["rec"]
            if o["outcome"] == "ok" and not self.dead and (
                    rec is None or rec["replace"] is not False or rec["n"] != n or rec["size"] != req["sel"]["size"]):
                ctx.mismatch("read_batch=Store.readBatch", self.g, self.inp(dict(op_no=o["op_no"])),
                             dict(generator_call=rec), dict(choice=[n, req["sel"]["size"]], replace=False),
                             "the model draws the rows with exactly one rng.choice(n_rows, size=size, replace=False)")
                return
        if exp is not None:
            if req["sel"]["kind"] == "random" and m.get("err") == "choice" and not req["sel"]["own_rng"]:
                # the generator was not asked for choice(n_rows, size, replace=False): the model cannot follow
                if not self.dead:
                    ctx.mismatch("read_batch=Store.readBatch", self.g, self.inp(dict(op_no=o["op_no"])),
                                 dict(generator_call=o["rec"]), m,
                                 "the model draws the rows with exactly one rng.choice(n_rows, size=size, replace=False)")
                return
            if m.get("err") != exp:
                raise Infra(f"Lean model and generator disagree on a refused batch: model {m.get('err')}, expected {exp} "
                            f"(case {self.g}, op {o['op_no']})")
            if o["outcome"] != "ok" and o["outcome"] not in KIND_OK.get(exp, {exp}):
                ctx.mismatch("read_batch=Store.readBatch", self.g, self.inp(dict(op_no=o["op_no"])), o["outcome"], exp,
                             "the request is refused, but with another class of exception than the model's kind")
            return
        if "err" in m:
            if o["outcome"] == "ok" and not self.dead:
                # the model refuses (e.g. the generator's answer broke the contract of choice) but the spec
                # accepted the output: correspondence broken
                ctx.mismatch("read_batch=Store.readBatch", self.g, self.inp(dict(op_no=o["op_no"])),
                             "array", m, "the model refuses this request")
            return
        if o["outcome"] != "ok":
            return   # already a violation
        arr = np.asarray(o["payload"])
        marr = [np.array([unbits(b) for b in col], dtype="f8") for col in m["arr"]]
        by_name = {c["name"]: c for c in want["cols"]}
        ok = arr.ndim == 2 and arr.shape[1] == len(marr) and all(len(c) == arr.shape[0] for c in marr)
        why = None if ok else f"shape {arr.shape} vs model {len(marr)} columns"
        if ok:
            for j, name in enumerate(req["cols"]):
                to = req["units"].get(name)
                col = np.asarray(arr[:, j], dtype="f8")
                if to is None:
                    if not same_bits(col, marr[j]):
                        why = f"column {j} ({name}) differs from the model (no conversion: must be bit-identical)"
                        break
                else:
                    c = by_name[name]
                    for k in range(len(col)):
                        if same_bits(col[k:k + 1], marr[j][k:k + 1]):
                            continue
                        # model used the correctly rounded factor; accept what the exact oracle accepts
                        rows_m = None
                        if not (math.isfinite(col[k]) and math.isfinite(marr[j][k])):
                            why = f"column {j} ({name}) row {k}: {col[k]!r} vs model {marr[j][k]!r}"
                            break
                        ulp = math.ulp(marr[j][k]) if c["dtype"] == "float64" else float(np.spacing(np.float32(abs(marr[j][k]))))
                        if abs(col[k] - marr[j][k]) > 2 * ulp:
                            why = f"column {j} ({name}) row {k}: {col[k]!r} vs model {marr[j][k]!r} (> 2 ulp)"
                            break
                    if why:
                        break
        if why is not None and not self.dead:
            ctx.mismatch("read_batch=Store.readBatch", self.g, self.inp(dict(op_no=o["op_no"])),
                         dict(array=arr.tolist()[:6]), dict(model=[c.tolist()[:6] for c in marr]), why)


def summarise(c):
    if c is None:
        return None
    if "error" in c:
        return c
    return dict(cols=[[x["name"], x["unit"], x["dtype"], len(x["vals"])] for x in c["cols"]],
                first_rows=[[float(v) for v in x["vals"][:3]] for x in c["cols"]], t_ref=c["tref"], poly_trend=c["pt"],
                n_offsets=c["no"])


# ------------------------------------------------------------------------------------------------
# case kinds


def hist_case(ctx, g, rng, h, long=False):
    """mixed history on one HDF5 file (everything is a function of g alone, never of the tier)"""
    schema = gen_schema(rng, with_extra=True)
    n_ops = int(rng.integers(8, 17)) if long else int(rng.integers(4, 11))
    for _ in range(n_ops):
        if h.dead:
            break
        exists = bool(h.log)
        r = rng.random()
        if not exists:
            if r < 0.08:
                h.verify()
            elif r < 0.14:
                # batch read on a missing file
                fake = spec_content([gen_table(rng, schema, 3)])
                req = gen_batch(rng, fake, allow_errors=False)
                req["sel"]["own_rng"] = False
                h.batch(req)
            else:
                ov, ap = bool(rng.random() < 0.3), bool(rng.random() < 0.4)
                h.write(gen_table(rng, schema, gen_rows(rng)), ov, ap)
            continue
        cur = h.log[0].schema()
        if r < 0.30:      # compatible append
            sc = dict(cur)
            if sc["tref"] is not None and rng.random() < 0.3:
                # the same epoch declared through another format is the same epoch
                base = sc["tref"].split("#")[0]
                alias = [k for k in tref_pool() if k.split("#")[0] == base]
                sc["tref"] = str(rng.choice(alias))
                if sc["tref"] != cur["tref"]:
                    ctx.count("append:same-epoch-other-format")
            h.write(gen_table(rng, sc, gen_rows(rng)), False, True)
        elif r < 0.47:    # append of a table that differs in exactly one respect
            mut = mutate_schema(rng, cur, with_meta=True)
            if mut is None:
                continue
            variant, detail, sc = mut
            h.write(gen_table(rng, sc, gen_rows(rng)), False, True, variant=variant, detail=detail)
        elif r < 0.52:    # plain write on an existing file: refused
            h.write(gen_table(rng, cur if rng.random() < 0.5 else gen_schema(rng, True), gen_rows(rng)), False, False)
        elif r < 0.60:    # overwrite
            schema = cur if rng.random() < 0.4 else gen_schema(rng, True)
            h.write(gen_table(rng, schema, gen_rows(rng)), True, False)
        elif r < 0.65:    # both flags: "only the dataset will be replaced"
            schema = cur if rng.random() < 0.4 else gen_schema(rng, True)
            h.write(gen_table(rng, schema, gen_rows(rng)), True, True)
        elif r < 0.72:
            h.verify()
        else:
            h.batch(gen_batch(rng, spec_content(h.log)))
    if not h.dead:
        h.verify()


def batch_case(ctx, g, rng, h, long=False):
    """one larger file (possibly built by appends), many batch reads"""
    schema = gen_schema(rng)
    big = rng.random() < 0.5
    h.write(gen_table(rng, schema, gen_rows(rng, big=big)), False, False)
    for _ in range(int(rng.integers(0, 3))):
        if h.dead:
            return
        h.write(gen_table(rng, schema, gen_rows(rng)), False, True)
    for _ in range(int(rng.integers(18, 36)) if long else int(rng.integers(10, 19))):
        if h.dead:
            return
        h.batch(gen_batch(rng, spec_content(h.log)))


def batch_huge(ctx, g, rng, h):
    """a file of several thousand rows built by a write and appends (beyond one HDF5 chunk / typical block sizes),
    then batch reads whose slices and index arrays straddle those boundaries"""
    schema = gen_schema(rng)
    h.write(gen_table(rng, schema, int(rng.integers(2500, 6000))), False, False)
    for _ in range(int(rng.integers(1, 3))):
        if h.dead:
            return
        h.write(gen_table(rng, schema, int(rng.integers(1500, 4000))), False, True)
    for _ in range(14):
        if h.dead:
            return
        h.batch(gen_batch(rng, spec_content(h.log)))
    if not h.dead:
        h.verify()


def fits_case(ctx, g, rng, h):
    schema = gen_schema(rng)
    for _ in range(int(rng.integers(2, 7))):
        if h.dead:
            break
        r = rng.random()
        if not h.log:
            if r < 0.1:
                h.verify()
            else:
                h.write(gen_table(rng, schema, gen_rows(rng)), bool(rng.random() < 0.3), bool(rng.random() < 0.1))
        elif r < 0.2:
            h.write(gen_table(rng, schema, gen_rows(rng)), bool(rng.random() < 0.5), True)      # append: not implemented
        elif r < 0.35:
            h.write(gen_table(rng, schema, gen_rows(rng)), False, False)                         # exists
        elif r < 0.7:
            schema = schema if rng.random() < 0.4 else gen_schema(rng)
            h.write(gen_table(rng, schema, gen_rows(rng)), True, False)
        else:
            h.verify()


def chain_case(ctx, g, rng, h):
    """a table travels through 2-4 files: written, read back, and the object that was READ is written to the next file
    (HDF5 and FITS in any order, also appended to an HDF5 file that already holds a compatible table); after every hop
    the file must hold exactly the declared table"""
    from thejoker.samples import JokerSamples
    schema = gen_schema(rng)
    decl = gen_table(rng, schema, gen_rows(rng))
    fmts = [str(rng.choice(["hdf5", "fits"])) for _ in range(int(rng.integers(2, 5)))]
    if "fits" not in fmts:
        fmts[int(rng.integers(0, len(fmts)))] = "fits"
    work = os.path.dirname(h.path)
    obj, origin, tolerant, hops = None, None, False, []
    try:
        for i, fmt in enumerate(fmts):
            sub = os.path.join(work, f"hop{i}")
            os.makedirs(sub)
            hh = History(ctx, g, fmt, sub)
            hops.append(hh)
            hh.story = h.story          # one story for the whole chain
            hh.epoch_tolerant = tolerant or fmt == "fits"
            if i > 0:
                ctx.count(f"chain:{fmts[i - 1]}->{fmt}")
                if decl.tref is None:
                    ctx.count(f"chain:{fmts[i - 1]}->{fmt}:no-epoch")
            hh.write(decl, bool(rng.random() < 0.5), False, obj=obj, obj_origin=origin)
            if hh.dead:
                h.dead = True
                return
            if fmt == "hdf5" and rng.random() < 0.4:
                hh.write(decl, False, True, obj=obj, obj_origin=origin)    # append the same object once more
                if hh.dead:
                    h.dead = True
                    return
            try:
                obj = JokerSamples.read(hh.path)
            except Exception as e:
                raise core.Infra(f"chain: file verified a moment ago cannot be read: {e!r}")
            origin = f"JokerSamples.read of the {fmt} file of hop {i}"
            if len(hh.log) > 1:      # the next hop carries the doubled table
                decl = decl.concat(hh.log[1]) if hasattr(decl, "concat") else None
                if decl is None:
                    break
            tolerant = hh.epoch_tolerant
        ctx.count("chain:completed")
    finally:
        for hh in hops:
            hh.finish()


def hist_long(ctx, g, rng, h):
    hist_case(ctx, g, rng, h, long=True)


def batch_long(ctx, g, rng, h):
    batch_case(ctx, g, rng, h, long=True)


KINDS = {"hist": (hist_case, "hdf5"), "histlong": (hist_long, "hdf5"), "batch": (batch_case, "hdf5"),
         "batchlong": (batch_long, "hdf5"), "fits": (fits_case, "fits"), "batchhuge": (batch_huge, "hdf5"), "chain": (chain_case, "hdf5")}


def scaled_unit_case(ctx, g, rng):
    """a column whose unit carries a scale that its string form cannot hold (a tropical year, 365.2422 d; 2 pi rad; c in
    km/s): the unit is a unit like any other for JokerSamples, the file stores its string"""
    import astropy.units as u
    from thejoker.samples import JokerSamples
    REL = "round trip of a column in a scaled unit (unit and physical values)"
    name, base, scale = [("P", u.day, 365.2422), ("omega", u.rad, 2 * math.pi), ("K", u.km / u.s, 299792.458),
                         ("P", u.day, 365.25), ("s", u.m / u.s, 1000.0), ("K", u.km / u.s, None)][g["index"] % 6]
    if scale is None:
        # a unit outside astropy's default registry (imperial: miles per hour): written as the string 'mi / h', which does not
        # parse back unless the reader enables the imperial units
        un, scale, exact_in_string = u.imperial.mi / u.h, float((u.imperial.mi / u.h).to(u.km / u.s)), False
    else:
        exact_in_string = float(f"{scale:.6g}") == scale
        un = u.Unit(scale * base)
    n = int(rng.integers(1, 6))
    vals = rng.uniform(0.5, 3.0, n)
    s = JokerSamples()
    if name != "P":
        s["P"] = rng.uniform(1, 9, n) * u.day
    s[name] = vals * un
    work = tempfile.mkdtemp(prefix="verif_c12_")
    try:
        fn = os.path.join(work, "scaled.hdf5")
        s.write(fn)
        want = np.asarray(s[name].to_value(base), dtype=float)
        try:
            r = JokerSamples.read(fn)
            got = np.asarray(r[name].to_value(base), dtype=float)
            read_err = None
        except Exception as e_:  # noqa: BLE001
            r, got, read_err = None, None, f"{type(e_).__name__}: {str(e_)[:160]}"
    finally:
        shutil.rmtree(work, ignore_errors=True)
    if read_err is not None:
        ctx.evaluated(REL, (g["index"] % 6, "unreadable"))
        ctx.count("scaled-unit:file written without complaint cannot be read back")
        ctx.violation(REL, g, dict(column=name, unit=str(un), values=vals.tolist()), dict(read_raised=read_err), dict(values_in_base_unit=want.tolist()),
                      "a table that write() stored without complaint must be readable: the unit's string form does not parse back ("
                      + read_err + ")", tags=dict(op="read", what="scaled-unit-precision", fmt="hdf5"))
        return
    ctx.evaluated(REL, (g["index"] % 6,) if not exact_in_string else None)
    ctx.count("scaled-unit:" + ("scale survives a 6-digit string" if exact_in_string else "scale needs more than 6 digits"))
    rel_err = float(np.max(np.abs(got - want) / np.abs(want)))
    if rel_err > 4 * 2.220446049250313e-16:
        ctx.violation(REL, g, dict(column=name, unit=f"{scale!r} {base}", values=vals.tolist()),
                      dict(unit_read_back=str(r[name].unit), scale_read_back=float(r[name].unit.scale), values_in_base_unit=got.tolist()),
                      dict(values_in_base_unit=want.tolist()),
                      f"the table read back must hold the values that were written: they differ by {rel_err:.3g} relative (the unit's "
                      "scale went through a 6-digit string)", tags=dict(op="read", what="scaled-unit-precision", fmt="hdf5"))


def plan(ctx):
    """quick: ~45 s; thorough: ~14 min.  A case is a function of (kind, index, seed) only, so a replay does
    not depend on the tier it was found in."""
    if ctx.thorough:
        n = dict(hist=1500, histlong=700, batch=250, batchlong=150, fits=400, batchhuge=25, chain=400)
    else:
        n = dict(hist=170, histlong=0, batch=30, batchlong=0, fits=30, batchhuge=2, chain=40)
    return ([(k, i) for k in ("hist", "histlong", "batch", "batchlong", "fits", "batchhuge", "chain") for i in range(n[k])]
            + [("scaledunit", i) for i in range(60 if ctx.thorough else 6)])


def run_case(ctx, g):
    kind, index = g["kind"], g["index"]
    ctx.seed = g.get("seed", ctx.seed)
    rng = ctx.case_rng(kind, index)
    if kind == "scaledunit":
        return scaled_unit_case(ctx, g, rng)
    fn, fmt = KINDS[kind]
    work = tempfile.mkdtemp(prefix="verif_c12_")
    try:
        h = History(ctx, g, fmt, work)
        fn(ctx, g, rng, h)
        h.finish()
        ctx.count(f"case:{kind}")
        ctx.count(f"case-format:{fmt}")
        if h.dead:
            ctx.count("case:stopped-at-violation")
    finally:
        shutil.rmtree(work, ignore_errors=True)


def _signature(v):
    t = v.get("tags") or {}
    return (v["relation"], t.get("op"), t.get("mode"), t.get("variant"), t.get("detail"), t.get("sel"),
            t.get("what"), t.get("mixed_dtype"), t.get("spec"))


def post(ctx):
    ctx.rule = RULE
    # only five replays are printed: put one representative of every distinct kind of failure first
    seen, first, rest = set(), [], []
    for v in ctx.violations:
        sig = _signature(v)
        (rest if sig in seen else first).append(v)
        seen.add(sig)
    ctx.violations[:] = first + rest
    ctx.extra["distinct_failure_kinds"] = [dict(zip(("relation", "op", "mode", "variant", "detail", "sel", "what",
                                                     "mixed_dtype", "spec"), s)) for s in
                                           sorted(seen, key=lambda s: tuple(str(x) for x in s))]
    ctx.extra["exhaustive"] = False
    ctx.extra["tolerances"] = ("unconverted values bit-identical; converted cells within 2 ulp (precision of the stored "
                               "column) of the exact rational product; HDF5 epoch exact, FITS epoch within 2 ulp of its "
                               "float64 MJD(TCB)")
    c = ctx.counters
    t = 10 if ctx.thorough else 1
    ctx.require("accepted appends", c["write-ok:appended"], 40 * t)
    ctx.require("chains completed (read object written on)", c["chain:completed"], 25 * t)
    for a, b, k in (("fits", "hdf5", 6), ("hdf5", "fits", 6), ("fits", "fits", 3)):
        ctx.require(f"chain hop {a}->{b}", c[f"chain:{a}->{b}"], k * t)
    ctx.require("chain hop fits->hdf5 of a table without reference epoch", c["chain:fits->hdf5:no-epoch"], 1 * t)
    ctx.require("replacing writes", c["write-ok:replaced"], 60 * t)
    ctx.require("refused: file exists", c["refused:exists"], 8 * t)
    ctx.require("refused: incompatible append", c["refused:incompatible"], 25 * t)
    for v in VARIANTS:
        ctx.require(f"append differing in {v}", c[f"append-variant:{v}"], 3 * t)
    ctx.require("append differing in free-form metadata", c["append-variant:meta"], 3 * t)
    ctx.require("append differing in a non-scalar metadata value", sum(v_ for k_, v_ in c.items() if k_.startswith("append-variant:meta:value:")
                                                                       and k_.split(":")[-1] in ("list", "tuple", "ndarray", "dict")), 1 * t)
    ctx.require("append with a metadata key only one side has", c["append-variant:meta:only-in-new"] + c["append-variant:meta:only-in-file"], 1 * t)
    ctx.require("append of a float64 column onto a float32 column of the file", c["append-variant:dtype:float32->"], 2 * t)
    ctx.require("append of a float32 column onto a float64 column of the file", c["append-variant:dtype:float64->"], 2 * t)
    ctx.require("append with an extra last column", c["append-variant:extra:end"], 1 * t)
    ctx.require("append with the last column missing", c["append-variant:missing:last"], 2 * t)
    ctx.require("append without epoch onto a file with epoch", c["append-variant:tref:time->none"], 1 * t)
    ctx.require("write with overwrite+append on an existing file", c["write:both:file"], 3 * t)
    ctx.require("reads of files built by appends", c["read:appended-file"], 40 * t)
    ctx.require("reads with a t_ref", c["read:with-t_ref"], 60 * t)
    ctx.require("batch reads by slice", c["batch:slice"], 80 * t)
    ctx.require("slices with step > 1", c["batch:slice:step>1"], 25 * t)
    ctx.require("slices with a negative bound", c["batch:slice:negative-bound"], 25 * t)
    ctx.require("slices given as tuples", c["batch:slice:tuple"], 5 * t)
    ctx.require("batch reads by index array", c["batch:idx"], 80 * t)
    ctx.require("index arrays with repeats", c["batch:idx:repeats"], 40 * t)
    ctx.require("unsorted index arrays", c["batch:idx:unsorted"], 40 * t)
    ctx.require("index arrays with negative entries", c["batch:idx:negative"], 10 * t)
    ctx.require("random batch reads", c["batch:random"], 50 * t)
    ctx.require("batch reads converting units", c["batch:units:real-conversion"], 60 * t)
    for e in ("key", "index", "value", "units"):
        ctx.require(f"refused batch reads ({e})", c[f"batch:error:{e}"], 2 * t)
    ctx.require("FITS histories", c["case:fits"], 20 * t)
    ctx.require("files of several thousand rows built by appends", c["case:batchhuge"], 2)
    ctx.require("HDF5 histories", c["case-format:hdf5"], 150 * t)
    ctx.require("FITS appends (not implemented)", c["refused:notimpl"], 3 * t)
