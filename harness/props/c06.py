"""C06 - reported ln_prior / ln_likelihood stay attached to their own sample.

Tie: TheJoker.rejection_sample and TheJoker.iterative_rejection_sample with return_logprobs=True (and
return_all_logprobs) on libraries whose rows carry distinct, recognisable ln_prior values and per-row distinct
likelihoods (engineered through a proxy around the real helper, or the real likelihood recorded by the proxy),
over all paths (in-memory, JokerSamples through a temp file, cache file), shuffling, truncation, batching through a
recording pool, n_linear_samples.  Predicate decided on the implementation's output, independent of the model:
both columns are 1-D float64 columns with one scalar per returned row; for the library row j whose nonlinear
parameters appear in returned row r, ln_prior[r] is bit-identical to the ln_prior stored with row j and
ln_likelihood[r] is bit-identical to the likelihood the helper computed for row j; the second return value is the
likelihood of every evaluated row in evaluation order.  The Lean models (Reject.rejectionSample /
Iter.iterativeSample), which compute the columns in the code's three index spaces, must produce the same columns
bit for bit.  No tolerance is used anywhere."""
import numpy as np

import core
from props import c02, c14
from props import rejcommon as rc

NEEDS_KERNEL = True
REL_RS = "rejection_sample logprob columns=Reject.rejectionSample"
REL_IT = "iterative_rejection_sample logprob columns=Iter.iterativeSample"
RS_PROFILES = ["graded", "real", "graded", "neginf", "ties", "spike"]
IT_KINDS = ["sparse", "graded", "sparse", "neginf", "flat", "spike"]
RULE = ("one case = library x profile x options x seed x path x sampler; non-trivial = at least one row returned and at "
        "least one evaluated row not returned; distinct = distinct (sampler, profile, path, shuffle, truncation, n_linear>1, pool)")


def plan(ctx):
    n = 3500 if ctx.thorough else 230
    m = 2500 if ctx.thorough else 200
    # "big" = more accepted samples than any plausible point-selection / chunking threshold (tens of thousands of rows)
    big = [("big", i) for i in range(6 if ctx.thorough else 1)]
    return [("rs", i) for i in range(n)] + [("it", i) for i in range(m)] + big


def column_problem(samples, name, n_rows):
    """None if `name` is a plain 1-D float64 column with n_rows scalars, else a description"""
    if name not in samples.tbl.colnames:
        return f"column {name} missing"
    col = samples[name]
    arr = np.asarray(col.value if hasattr(col, "unit") and hasattr(col, "value") else col)
    if arr.dtype.names is not None:
        return f"column {name} holds structured rows {arr.dtype.names} instead of floating-point scalars"
    if arr.dtype != np.float64:
        return f"column {name} has dtype {arr.dtype}, not float64"
    if arr.ndim != 1:
        return f"column {name} has ndim {arr.ndim}"
    if len(arr) != n_rows:
        return f"column {name} has {len(arr)} entries for {n_rows} returned rows"
    return None


def helper_ll(events, profile, N):
    """likelihood the helper computed for each evaluated library row in this call"""
    seen = {}
    for ev in events:
        if ev["method"] == "ll":
            for r, v in zip(ev["rows"], ev["out"]):
                seen[r] = float(v)
    return seen


def check_columns(ctx, rel, g, inp, tags, lib, samples, groups, n_linear, ll_of_row):
    """the property's predicate on the returned table; returns True if it holds"""
    n = len(samples)
    if getattr(lib, "lnp_unit", None):
        ctx.count("calls on a library whose ln_prior carries a scaled dimensionless unit")
    for name in ("ln_prior", "ln_likelihood"):
        why = column_problem(samples, name, n)
        if why is not None:
            t = dict(tags, column=name, structured="structured" in why, length_mismatch="entries for" in why)
            rc.report(ctx, (rel, name, why.split(" ")[2:5].__repr__()), rel, g, inp, dict(problem=why, colnames=list(samples.tbl.colnames)), None,
                          "with return_logprobs=True every returned row carries ln_prior and ln_likelihood as plain "
                          "floating-point scalars: " + why, tags=t)
            return False
    lp = np.asarray(samples["ln_prior"], dtype="f8")
    ll = np.asarray(samples["ln_likelihood"], dtype="f8")
    for r in range(n):
        j = groups[r // n_linear]
        if core.bits(lp[r]) != core.bits(lib.lnp[j]):
            owner = [int(k) for k in np.where(lib.lnp == lp[r])[0]]
            rc.report(ctx, (rel, "ln_prior detached"), rel, g, inp, dict(row=r, library_row=j, ln_prior=float(lp[r]), belongs_to_library_row=owner), None,
                          f"ln_prior of returned row {r} must be the value stored with its own prior sample (library row "
                          f"{j}: {lib.lnp[j]!r}); got {lp[r]!r}", tags=dict(tags, column="ln_prior", attached=False))
            return False
        want = ll_of_row[j]
        if core.bits(ll[r]) != core.bits(want):
            rc.report(ctx, (rel, "ln_likelihood detached"), rel, g, inp, dict(row=r, library_row=j, ln_likelihood=float(ll[r]), own=float(want)), None,
                          f"ln_likelihood of returned row {r} must be the marginal ln-likelihood computed for exactly that "
                          f"row's nonlinear parameters (library row {j}: {want!r}); got {ll[r]!r}",
                          tags=dict(tags, column="ln_likelihood", attached=False))
            return False
    return True


class FastProxy(rc.Proxy):
    """additionally stubs the linear-parameter draw (this property is about the log-prob columns): every accepted
    row comes back once per linear sample with zeros for the linear parameters"""

    def batch_get_posterior_samples(self, chunk, n_linear, rng):
        chunk = np.asarray(chunk, dtype="f8")
        n_pars = len(self._real.prior.par_names)
        raw = np.zeros((len(chunk) * n_linear, n_pars))
        raw[:, :5] = np.repeat(chunk[:, :5], n_linear, axis=0)
        return raw, np.zeros(len(raw))


def big_case(ctx, g, rng):
    """tens of thousands of accepted samples on the cache-file path with shuffling: every row must still carry the
    ln_prior stored with its own library row and its own ln-likelihood"""
    import contextlib
    import thejoker as tj
    N = int(rng.integers(10500, 13000)) if g["index"] == 0 else int(rng.integers(13000, 60000))
    pr = rc.problem(ctx, 0)
    lib = rc.Library(rng, pr, N, with_ln_prior=True)
    if getattr(lib, "lnp_unit", None):
        ctx.count("library whose ln_prior carries a scaled dimensionless unit")
    profile = np.full(N, -17.25)
    profile -= (np.arange(N) % 7) * 1e-3          # recognisable, all but certainly accepted (exp(-0.006) > u)
    L = int(rng.choice([1, 1, 2]))
    sampler = "rejection_sample" if g["index"] % 2 == 0 else "iterative_rejection_sample"
    log = []
    orig = tj.TheJoker._make_joker_helper
    tj.TheJoker._make_joker_helper = lambda self, data: FastProxy(orig(self, data), lib, profile, log)
    try:
        jk = pr.joker(rng=np.random.default_rng(int(rng.integers(0, 2**31))), tempfile_path=rc.scratch_dir())
        kw = dict(return_logprobs=True, randomize_prior_order=True, n_linear_samples=L)
        if sampler == "rejection_sample":
            out = jk.rejection_sample(pr.data, lib.filename(), **kw)
        else:
            out = jk.iterative_rejection_sample(pr.data, lib.filename(), n_requested_samples=N - 200, init_batch_size=N // 2, **kw)
    finally:
        tj.TheJoker._make_joker_helper = orig
        lib.drop_file()
    rel = "logprob columns attached to their own sample"
    import astropy.units as u
    P = np.asarray(out["P"].to_value(u.day))
    lp = np.asarray(out["ln_prior"], dtype="f8")
    ll = np.asarray(out["ln_likelihood"], dtype="f8")
    ctx.count("big:accepted-samples>10000" if len(P) // L > 10000 else "big:accepted-samples<=10000")
    ctx.evaluated(rel, ("big", sampler, L), sample=dict(N=N, sampler=sampler, n_linear=L, returned=len(P)))
    bad = None
    rows = np.array([lib.row_of.get(core.bits(p), -1) for p in P])
    if (rows < 0).any():
        bad = f"returned row {int(np.argmax(rows < 0))} is not a library row"
    elif len(P) == 0:
        bad = "nothing returned"
    else:
        w = np.where(lp != lib.lnp[rows])[0]
        if len(w):
            r = int(w[0])
            bad = (f"ln_prior of returned row {r} (library row {int(rows[r])}) is {lp[r]!r}, stored with that prior sample: "
                   f"{lib.lnp[rows[r]]!r}; {len(w)} of {len(P)} rows carry a foreign ln_prior")
        w = np.where(ll != profile[rows])[0]
        if bad is None and len(w):
            r = int(w[0])
            bad = f"ln_likelihood of returned row {r} is {ll[r]!r}, that row's value is {profile[rows[r]]!r}; {len(w)} rows differ"
    if bad:
        ctx.violation(rel, g, dict(N=N, sampler=sampler, n_linear_samples=L, path="file", randomize_prior_order=True, profile="nearly flat"),
                      dict(returned=len(P)), None,
                      "every returned row carries the ln_prior stored with exactly that prior sample and its own marginal "
                      "ln-likelihood: " + bad, tags=dict(sampler=sampler, path="file", shuffle=True, big=True))


def run_case(ctx, g):
    ctx.seed = g.get("seed", ctx.seed)
    rng = ctx.case_rng(g["kind"], g["index"])
    if g["kind"] == "big":
        return big_case(ctx, g, rng)
    if g["kind"] == "rs":
        c = c02.gen_case(ctx, g, rng)
        # this property: logprobs requested, profile family chosen for recognisability
        kind = RS_PROFILES[g["index"] % len(RS_PROFILES)]
        c["kind"] = kind
        c["profile"] = None if kind == "real" else rc.make_profile(rng, kind, c["N"])
        if c["n_prior"] is not None and c["n_prior"] > c["N"]:
            c["n_prior"] = c["N"]
            c["kw"]["n_prior_samples"] = c["N"]
        c["kw"]["return_logprobs"] = True
        try:
            prelude(ctx, g, c, "rejection_sample")
            run_rs(ctx, g, c)
        finally:
            c["lib"].drop_file()
    else:
        c = c14.gen_case(ctx, g, rng, logprobs=True, kinds=IT_KINDS)
        try:
            prelude(ctx, g, c, "iterative_rejection_sample")
            run_it(ctx, g, c)
        finally:
            c["lib"].drop_file()


def prelude(ctx, g, c, method):
    """call history on ONE library file name: for every second file-path case the same name first holds ANOTHER library
    of the same length (other rows, other ln_prior values), is sampled from with return_logprobs=True, and is then
    re-written with the case's library; the case proper must see the file's current content only"""
    if c["path"] != "file" or c["pool"] is not None:
        return
    prng = ctx.case_rng(g["kind"] + ":prelude", g["index"])
    # every second case by index (not a coin: the number of preludes of a run should not depend on luck)
    ctx.count("prelude: eligible file-path cases")
    if g["index"] % 2 == 1:        # a function of the case alone, so that a replay of the case does the same
        return
    lib = c["lib"]
    path = lib.filename()
    lib0 = rc.Library(prng, c["pr"], c["N"], with_ln_prior=True, foreign=lib.foreign)
    lib0.samples["ln_prior"] = lib0.lnp + 50000.5          # recognisably not the case library's values
    lib0.samples.write(path, overwrite=True)
    lib0._file = path
    kw = dict(c["kw"])
    kw.pop("return_all_logprobs", None)
    gen0 = rc.CraftGen(int(prng.integers(0, 2 ** 31)))
    res, raised = rc.run_call(c["pr"], lib0, c["profile"], gen0, method, kw, pool=None, source="file")
    ctx.count("prelude: same file name held another library and was sampled from" + (" (call raised)" if raised else ""))
    lib.samples.write(path, overwrite=True)
    c["prelude"] = dict(method=method, other_library_rows=c["N"], raised=bool(raised))


def common_counts(ctx, c, sampler):
    ctx.count(f"{sampler}:path:{c['path']}")
    ctx.count(f"{sampler}:profile:{c['kind']}")
    if c["n_linear"] > 1:
        ctx.count(f"{sampler}:n_linear>1")
    if c["pool"] is not None:
        ctx.count(f"{sampler}:pool")


def run_rs(ctx, g, c):
    lib, N, kw = c["lib"], c["N"], c["kw"]
    gen = rc.CraftGen(c["gseed"])
    source = "file" if c["path"] == "file" else "object"
    res, raised = rc.run_call(c["pr"], lib, c["profile"], gen, "rejection_sample", kw, pool=c["pool"], source=source)
    out = rc.outcome(res, raised)
    rounds, tail, choices = rc.split_events(gen.calls)
    tags = dict(sampler="rejection_sample", path=c["path"], shuffle=c["shuffle"], n_linear_gt1=c["n_linear"] > 1)
    inp = c02.describe(c)
    common_counts(ctx, c, "rs")
    want_all = "return_all_logprobs" in kw
    ev_rows = [r for e_ in gen.calls if e_["method"] == "ll" for r in e_["rows"]]
    if c["profile"] is not None and ev_rows and all(0 <= r < N and c["profile"][r] == -np.inf for r in ev_rows):
        ctx.count("out of domain: all evaluated likelihoods -inf (skipped)")
        return
    if out not in ("ok", "ok+all") or (out == "ok+all") != want_all:
        ctx.evaluated(REL_RS, None)
        rc.report(ctx, (REL_RS, "outcome", out, type(res).__name__), REL_RS, g, inp, dict(outcome=out, message=str(res)[:300]), None,
                      "with return_logprobs=True the call returns the samples with their ln_prior / ln_likelihood "
                      f"columns (for every option combination); it ended with {out}: {str(res)[:200]}",
                      tags=dict(tags, outcome=out, exception=type(res).__name__ if raised else None))
        return
    samples = res[0] if out == "ok+all" else res
    groups, why = rc.table_rows(lib, samples, c["n_linear"])
    evaluated = [r for rr, _ in rounds for r in rr] + list(tail)
    if groups is None or len(rounds) != 1 or rounds[0][1] is None or len(set(evaluated)) != len(evaluated):
        ctx.evaluated(REL_RS, None)
        ctx.count("rs: table/trace not canonical (C02's business)")
        ctx.mismatch(REL_RS, g, inp, dict(problem=why, rounds=len(rounds)), None,
                     "returned rows must be library rows / one uniform draw (decided by C02)", tags)
        return
    seen = helper_ll(gen.calls, c["profile"], N)
    nontriv = 0 < len(groups) < len(evaluated)
    trunc = c["max_post"] is not None and len(groups) == c["max_post"]
    if c["shuffle"]:
        ctx.count("rs:shuffle")
    if trunc:
        ctx.count("rs:truncated")
    if c["n_prior"] is not None and c["n_prior"] < N:
        ctx.count("rs:n_prior<N")
    key = ("rs", c["kind"], c["path"], c["shuffle"], trunc, c["n_linear"] > 1, c["pool"] is not None) if nontriv else None
    ctx.evaluated(REL_RS, key, sample=dict(inp, returned_rows=groups[:8]))
    if any(r not in seen for r in groups):
        ctx.mismatch(REL_RS, g, inp, dict(rows=groups[:50]), None, "returned rows must have been evaluated (C02)", tags)
        return
    if not check_columns(ctx, REL_RS, g, inp, tags, lib, samples, groups, c["n_linear"], seen):
        return
    # return_all_logprobs: likelihood of every evaluated sample in evaluation order
    if want_all:
        ctx.count("rs:return_all_logprobs")
        allp = res[1]
        arr = np.asarray(allp)
        good = (arr.dtype == np.float64 and arr.ndim == 1 and len(arr) == len(evaluated)
                and all(core.bits(a) == core.bits(seen[r]) for a, r in zip(arr, evaluated)))
        if not good:
            rc.report(ctx, (REL_RS, "all_logprobs"), REL_RS, g, inp, dict(all_logprobs=rc.f8list(arr)[:40] if arr.dtype.kind == "f" else repr(arr)[:200],
                                               evaluated=evaluated[:40]), None,
                          "with return_all_logprobs=True the extra array holds the ln-likelihood of every evaluated prior "
                          "sample in evaluation order", tags=dict(tags, column="all_logprobs"))
            return
    # ---- Lean model: same columns, bit for bit
    if c["profile"] is None:
        libll = np.array([seen.get(j, 0.0) for j in range(N)], dtype="f8")   # unevaluated rows are never read by the model
    else:
        libll = c["profile"]
    idx = [int(v) for v in choices[-1]["out"]] if choices else None
    if idx is None and c["shuffle"]:
        idx = list(evaluated)     # shuffled without a `choice` draw: the model takes the observed order
    m = ctx.model({"op": "reject.sample", "libLL": core.bits_list(libll), "lnp": core.bits_list(lib.lnp),
                   "nPrior": c["n_prior"], "maxPost": c["max_post"], "nLinear": c["n_linear"], "idx": idx,
                   "uu": core.bits_list(rounds[0][1])})
    compare_model(ctx, REL_RS, g, inp, tags, m, samples, groups, c["n_linear"],
                  res[1] if want_all else None, border=lambda: rc.oracle_accept([float(libll[r]) for r in evaluated], rounds[0][1])[1])


def compare_model(ctx, rel, g, inp, tags, m, samples, groups, n_linear, allp, border):
    if m.get("err") is not None or m.get("full") != groups:
        if m.get("err") is None and border():
            ctx.count("borderline exp(d) vs u decisions excused")
            return
        ctx.mismatch(rel, g, inp, dict(rows=groups[:50]), m if m.get("err") else dict(full=m.get("full")[:50]),
                     "the Lean model must select the same rows (C02/C14's correspondence)", tags)
        return
    lp = core.bits_list(np.asarray(samples["ln_prior"], dtype="f8"))
    ll = core.bits_list(np.asarray(samples["ln_likelihood"], dtype="f8"))
    if lp != m["lnPrior"] or ll != m["lnLike"]:
        ctx.mismatch(rel, g, inp, dict(ln_prior=lp[:20], ln_likelihood=ll[:20]),
                     dict(lnPrior=m["lnPrior"][:20], lnLike=m["lnLike"][:20]),
                     "logprob columns must equal the Lean model's, bit for bit", tags)
        return
    if allp is not None and core.bits_list(np.asarray(allp, dtype="f8")) != m["allLls"]:
        ctx.mismatch(rel, g, inp, dict(all=core.bits_list(allp)[:20]), dict(allLls=m["allLls"][:20]),
                     "all-logprobs array must equal the Lean model's", tags)


def run_it(ctx, g, c):
    lib, N = c["lib"], c["N"]
    ob = c14.observe(c)
    out, rounds, tail = ob["out"], ob["rounds"], ob["tail"]
    tags = dict(sampler="iterative_rejection_sample", path=c["path"], shuffle=c["shuffle"], n_linear_gt1=c["n_linear"] > 1)
    inp = c14.describe(c)
    common_counts(ctx, c, "it")
    budget = N if c["max_prior"] is None else c["max_prior"]
    init = c["kw"].get("init_batch_size")
    init = c["kw"]["growth_factor"] * c["req"] if init is None else init
    evaluated = [r for rr, _ in rounds for r in rr] + list(tail)
    if init > min(budget, N) or (out != "ok" and not evaluated):
        ctx.count("it: refused (library too small) - nothing to check")
        ctx.evaluated(REL_IT, None)
        return
    if out != "ok":
        nonfin = any(not np.isfinite(c["profile"][r]) for r in evaluated if 0 <= r < N)
        ctx.evaluated(REL_IT, None)
        if nonfin or budget > N:
            ctx.count("it: error exit on non-finite likelihood / over-size budget (C14's business)")
            return
        rc.report(ctx, (REL_IT, "outcome", out, type(ob["res"]).__name__), REL_IT, g, inp, dict(outcome=out, message=str(ob["res"])[:300]), None,
                      "with return_logprobs=True the call returns the samples with their ln_prior / ln_likelihood "
                      f"columns (for every option combination); it ended with {out}: {str(ob['res'])[:200]}",
                      tags=dict(tags, outcome=out, exception=type(ob["res"]).__name__ if ob["raised"] else None))
        return
    samples = ob["res"]
    groups, why = rc.table_rows(lib, samples, c["n_linear"])
    okdraw = bool(rounds) and not tail and all(u is not None for _, u in rounds)
    if groups is None or not okdraw or len(set(evaluated)) != len(evaluated):
        ctx.evaluated(REL_IT, None)
        ctx.mismatch(REL_IT, g, inp, dict(problem=why), None, "returned rows must be library rows (decided by C14)", tags)
        return
    ll_of_row = {r: float(c["profile"][r]) for r in evaluated}
    nontriv = 0 < len(groups) < len(evaluated)
    growth_rounds = len(rounds) - 1
    ctx.count("it:growth rounds>=1" if growth_rounds >= 1 else "it:no growth")
    if c["shuffle"] and (ob["choices"] or evaluated != list(range(len(evaluated)))):
        ctx.count("it:shuffle")
    key = ("it", c["kind"], c["path"], c["shuffle"], min(growth_rounds, 2), c["n_linear"] > 1, c["pool"] is not None) if nontriv else None
    ctx.evaluated(REL_IT, key, sample=dict(inp, returned_rows=groups[:8]))
    if any(r not in ll_of_row for r in groups):
        ctx.mismatch(REL_IT, g, inp, dict(rows=groups[:50]), None, "returned rows must have been evaluated (C14)", tags)
        return
    if not check_columns(ctx, REL_IT, g, inp, tags, lib, samples, groups, c["n_linear"], ll_of_row):
        return
    m = ctx.model(c14.model_op(c, ob))
    compare_model(ctx, REL_IT, g, inp, tags, m, samples, groups, c["n_linear"], None,
                  border=lambda: rc.oracle_accept([float(c["profile"][r]) for r in evaluated], rounds[-1][1])[1])


def post(ctx):
    ctx.require("file-path cases whose file name held another library before (call history)",
                ctx.counters["prelude: same file name held another library and was sampled from"], 10)
    ctx.rule = RULE
    ctx.require("calls on a library whose ln_prior carries a scaled dimensionless unit", ctx.counters["calls on a library whose ln_prior carries a scaled dimensionless unit"], 3)
    ctx.require("runs returning more than 10000 accepted samples (file path, shuffled)", ctx.counters["big:accepted-samples>10000"], 1)
    need = 45 if ctx.thorough else 15
    for s in ("rs", "it"):
        for p in ("inmem", "object", "file"):
            ctx.require(f"{s}:path:{p}", ctx.counters[f"{s}:path:{p}"], need)
        ctx.require(f"{s}:n_linear>1", ctx.counters[f"{s}:n_linear>1"], need)
        ctx.require(f"{s}:pool", ctx.counters[f"{s}:pool"], need)
    for k in ("rs:shuffle", "rs:truncated", "rs:n_prior<N", "rs:return_all_logprobs", "rs:profile:real",
              "it:growth rounds>=1", "it:shuffle"):
        ctx.require(k, ctx.counters[k], need)
    ctx.assumptions = core.TRUSTED_BASE + [
        "the likelihood 'computed for exactly that row' is the value the helper returned for that row during the call "
        "(recorded by the proxy); history independence of the helper is C05's subject",
    ]
    rc.cleanup()
