"""C04 - a sample row denotes one RV curve everywhere; the Bayes identity holds.

Relations:
  R1 orbit.rv      samples.get_orbit(i).radial_velocity(t)  ~  K*kep(t; P,e,omega,M0,t_ref) + sum_l v_l (t-t_ref)^l
                   (Kepler term from the same oracle the kernel calls, trend expanded about the data's t_ref), at the
                   data epochs and at random other times
  R2 bayes         ln_likelihood(row) = ln p(y|theta,x) + ln p(x|theta) - ln N(x|a,A)   for returned rows
                   (ln p(y|theta,x) from the public API; with survey offsets from get_orbit + the row's dv0 on the
                   labelled epochs, which checks the kernel's conventions)
  R3 unmarg.api    public ln_unmarginalized_likelihood(data) equals that value also for multi-survey data
  R4 tref          returned samples carry the data's reference epoch (minimum over all surveys, or the explicit one)"""
import tempfile
from decimal import Decimal
from fractions import Fraction as F

import numpy as np

import core
import kern
import oracle
import scen

NEEDS_KERNEL = True
R5 = "trend_design_matrix=Kernel.designRow"
R1, R2, R3, R4 = "orbit.rv~design.x", "bayes.identity", "unmarg.api(offsets)", "samples.t_ref=data.t_ref"
RULE = ("random problems (p 1..3, q 0..2, jitter, explicit t_ref != min t in a third of the single-survey cases) x rows "
        "returned by rejection_sample(return_logprobs=True) and hand-built rows; non-trivial iff p>=2 or q>=1 or "
        "t_ref != min t or e>0.3 (the conventions the identity depends on are exercised)")


def plan(ctx):
    return [("row", i) for i in range(160 if ctx.thorough else 32)]


def ln_normal(x, m, var):
    return -0.5 * (np.log(2 * np.pi * var) + (x - m) ** 2 / var)


def ln_mvn_exact(x, a, A):
    """ln N(x | a, A) from exact rationals a, A (lists of Fractions)"""
    k = len(x)
    xf = [F(float(v)) for v in x]
    d = [xi - ai for xi, ai in zip(xf, a)]
    from exact import gauss_solve_det
    z, det = gauss_solve_det(A, d)
    q = sum(di * zi for di, zi in zip(d, z))
    return float(Decimal(-0.5) * (Decimal(q.numerator) / Decimal(q.denominator) + k * oracle.LN2PI + oracle.ln_frac(det)))


def run_case(ctx, g):
    import astropy.units as u
    from astropy.time import Time
    import thejoker as tj
    ctx.seed = g.get("seed", ctx.seed)
    rng = ctx.case_rng(g["kind"], g["index"])
    pr = scen.make_problem(rng, n=int(rng.integers(2, 11)), p=int(rng.choice([1, 2, 2, 3])), q=int(rng.choice([0, 0, 0, 1, 2])))
    c = kern.canon(pr)
    explicit_tref = False
    disabled_tref = False
    if pr.q == 0 and pr.keys == "single" and g["index"] % 6 == 5:
        # RVData(t_ref=False): "disable subtracting the reference time" - the sampler's epoch is BMJD 0
        disabled_tref = True
        explicit_tref = True
        sv = pr.surveys[0]
        pr.data = tj.RVData(t=sv["t"], rv=sv["rv"] * scen.U(sv["unit"]), rv_err=sv["err"] * scen.U(sv.get("err_unit", sv["unit"])),
                            t_ref=False)
        c["t_ref"] = 0.0
        c["trend"] = pr.trend_matrix(c["t"], c["label"], 0.0)
        ctx.count("disabled_tref")
    elif pr.q == 0 and pr.keys == "single" and rng.random() < 0.6:
        # explicit reference epoch different from the earliest time
        explicit_tref = True
        tr = float(np.round((c["t_ref"] - rng.uniform(1, 200)) * 8) / 8)
        sv = pr.surveys[0]
        # the reference epoch may be given in any time scale; the sampler works in TCB (like the data times)
        scale = str(rng.choice(["tcb", "utc", "tdb"]))
        tref_obj = Time(tr, format="mjd", scale=scale)
        ctx.count("explicit_tref_scale=" + scale)
        pr.data = tj.RVData(t=sv["t"], rv=sv["rv"] * scen.U(sv["unit"]), rv_err=sv["err"] * scen.U(sv.get("err_unit", sv["unit"])),
                            t_ref=tref_obj)
        tr = float(tref_obj.tcb.mjd)
        c["t_ref"] = tr
        c["trend"] = pr.trend_matrix(c["t"], c["label"], tr)
    du = pr.data_unit
    d = pr.desc
    N = 30
    lib, phys = scen.make_library(rng, pr, N)
    L = int(rng.integers(1, 3))
    path = str(rng.choice(["mem", "file"]))
    with tempfile.TemporaryDirectory(prefix="verif_c04_") as td:
        jk = pr.joker(rng=np.random.default_rng(int(rng.integers(0, 2**31))), tempfile_path=td)
        out = jk.rejection_sample(pr.data, lib, n_linear_samples=L, return_logprobs=True, in_memory=(path == "mem"))
    ctx.count("path=" + path); ctx.count(f"p={pr.p}"); ctx.count(f"q={pr.q}")
    if explicit_tref:
        ctx.count("explicit_tref")
        if pr.p >= 2:
            ctx.count("explicit_tref_with_trend")
    inp0 = dict(problem=dict(p=pr.p, q=pr.q, n=c["n"], desc=d, data_form=str(pr.keys), explicit_tref=c["t_ref"] if explicit_tref else None,
                             surveys=[dict(unit=s["unit"], t=s["t"], rv=s["rv"], err=s["err"]) for s in pr.surveys]),
                L=L, path=path, lib_units=phys["units"])
    tags0 = dict(p=pr.p, q=pr.q, path=path, explicit_tref=explicit_tref, offsets=pr.q > 0)
    # ---- R4 ----
    ctx.evaluated(R4, (g["index"],) if (explicit_tref or pr.q > 0) else None)
    got_tref = None if out.t_ref is None else float(out.t_ref.tcb.mjd)
    if disabled_tref and got_tref is None:
        pass       # the data have no reference epoch and neither have the samples: times are absolute (epoch BMJD 0)
    elif got_tref is None or abs(got_tref - c["t_ref"]) > 1e-9:
        ctx.violation(R4, g, inp0, dict(samples_t_ref=got_tref), dict(data_t_ref=c["t_ref"]),
                      "posterior samples must carry the data's reference epoch", tags=tags0)
        return
    # ---- R5: the trend/offset design matrix the sampler builds vs the Lean designRow (exact rationals) ----
    from thejoker.data_helpers import validate_prepare_data
    all_data, ids, trend_M = validate_prepare_data(pr.data, pr.p, pr.q)
    bad5 = None
    if trend_M.shape != (c["n"], pr.p + pr.q):
        bad5 = f"shape {trend_M.shape}"
    else:
        # rows are matched by their (time, velocity) so that any order of tied epochs is accepted
        impl_rows = {(float(a), float(b)): trend_M[k] for k, (a, b) in enumerate(zip(all_data.t.tcb.mjd, all_data.rv.to_value(du)))}
        for i in range(c["n"]):
            key = min(impl_rows, key=lambda kk: abs(kk[0] - float(c["t"][i])) + abs(kk[1] - float(c["y"][i])) / (1 + abs(float(c["y"][i]))))
            row_impl = impl_rows[key]
            dt = float(c["t"][i]) - c["t_ref"]
            m = ctx.model({"op": "kernel.designRow", "kep": core.bits(0.0), "dt": core.bits(dt), "id": int(c["label"][i]),
                           "q": pr.q, "p": pr.p})["row"][1:]
            want = np.array([float(core.rat(v)) for v in m])
            if not np.all(np.abs(row_impl - want) <= 8e-16 * pr.p * np.abs(want)):
                bad5 = f"epoch t={c['t'][i]} rv={c['y'][i]}: {row_impl.tolist()} vs model {want.tolist()}"
                break
    ctx.evaluated(R5, (g["index"],) if (pr.q > 0 or pr.p > 1) else None)
    if bad5:
        ctx.violation(R5, g, inp0, dict(trend_M=trend_M), None,
                      "design matrix columns must be [1 | survey indicators | (t - t_ref)^l] with every epoch labelled by its "
                      "own survey: " + bad5, tags=tags0)
    names = ["K", "v0"] + [f"dv0_{j+1}" for j in range(pr.q)] + [f"v{l}" for l in range(1, pr.p)]
    units = [du, du] + [du] * pr.q + [du / u.day ** l for l in range(1, pr.p)]
    nrows = min(len(out), 4)
    rows = list(range(nrows))
    ret_P = np.atleast_1d(out["P"].to_value(u.day))
    for r in rows:
        x = np.array([float(np.atleast_1d(out[nm].to_value(un))[r]) for nm, un in zip(names, units)])
        i = int(np.argmin(np.abs(phys["P"] - ret_P[r]) / phys["P"]))
        th = kern.theta_of(phys, i)
        inp = dict(inp0, theta=th, x=x, row=r)
        nontriv = (g["index"], r) if (pr.p >= 2 or pr.q >= 1 or explicit_tref or th["e"] > 0.3) else None
        # ---- R1: RV curve at the data epochs and at other times ----
        t_other = c["t_ref"] + rng.uniform(-300, 3000, 5)
        tt = np.concatenate([c["t"], t_other])
        try:
            orbit = out.get_orbit(r)
            rv_api = orbit.radial_velocity(Time(tt, format="mjd", scale="tcb")).to_value(du)
        except Exception as e:   # noqa: BLE001
            ctx.evaluated(R1, nontriv)
            ctx.violation(R1, g, inp, f"{type(e).__name__}: {str(e)[:200]}", None,
                          "the orbit of a returned row must be reconstructible (get_orbit(i).radial_velocity(t)) for every "
                          "accepted data set", tags=dict(tags0, what="exception"))
            return
        kep = scen.kepler_column(tt, th["P"], th["e"], th["omega"], th["M0"], c["t_ref"])
        dt = tt - c["t_ref"]
        vtr = x[2 + pr.q:]
        trend = x[1] + sum(vtr[l - 1] * dt ** l for l in range(1, pr.p))
        rv_model = x[0] * kep + trend
        scale = abs(x[0]) + np.abs(x[1]) + sum(np.abs(vtr[l - 1] * dt ** l) for l in range(1, pr.p)) + 1e-300
        dev = float(np.max(np.abs(rv_api - rv_model) / scale))
        mg = ctx.extra.setdefault("margins", dict(max_rv_dev=0.0, max_bayes_resid_over_tol=0.0))
        mg["max_rv_dev"] = max(mg["max_rv_dev"], dev)
        ctx.evaluated(R1, nontriv, sample=dict(theta=th, x=x, t=tt[:3], rv_api=rv_api[:3], rv_model=rv_model[:3]) if r == 0 else None)
        if not dev <= 1e-7:
            ctx.violation(R1, g, inp, dict(rv_api=rv_api), dict(rv_model=rv_model, rel_dev=dev),
                          "the orbit a row reconstructs must be the RV function the kernel's design matrix encodes "
                          "(same phase / t_ref / trend conventions)", tags=tags0)
        # ---- R2: Bayes identity on the returned row ----
        M = kern.design(pr, c, th)
        var = kern.var_exact(c, th["s"])
        lam = kern.lam_exact(pr, c, th)
        mu = [F(float(v)) for v in c["mu"]]
        post = oracle.posterior(M, c["y"], var, mu, lam)
        cf = oracle.closed_form(M, c["y"], var, mu, lam)
        if post is None or cf["singular"]:
            ctx.count("oracle_singular")
            continue
        ll_api = float(np.atleast_1d(out["ln_likelihood"])[r])
        varf = np.array([float(v) for v in var])
        n = c["n"]
        rv_data = rv_api[:n] + np.array([0.0 if lab == 0 else x[1 + lab] for lab in c["label"]])
        unm_harness = float(np.sum(ln_normal(c["y"], rv_data, varf)))
        if pr.q == 0:
            unm = float(out.ln_unmarginalized_likelihood(pr.data)[r])
        else:
            unm = unm_harness
        lamf = np.array([float(v) for v in lam])
        ln_prior_lin = float(np.sum(ln_normal(x, c["mu"], lamf)))
        ln_cond = ln_mvn_exact(x, post["a"], post["A"])
        resid = ll_api - (unm + ln_prior_lin - ln_cond)
        tolF, well, cA, cB = kern.budget(M, varf, lamf, cf["chi2"], cf["ll"], n, th["e"], r=cf["r"])
        res_i = np.abs(c["y"] - rv_data)
        tol = 10 * tolF + 1e-9 * (1 + abs(ll_api) + abs(unm) + abs(ln_cond)) + float(np.sum(res_i / varf * 1e-8 * (np.zeros(len(tt)) + scale)[:n]))
        mg["max_bayes_resid_over_tol"] = max(mg["max_bayes_resid_over_tol"], abs(resid) / tol)
        ctx.evaluated(R2, nontriv, sample=dict(ll=ll_api, unmarg=unm, ln_prior_lin=ln_prior_lin, ln_cond=ln_cond, resid=resid) if r == 0 else None)
        if not abs(resid) <= tol:
            if well or abs(resid) > 1e-3 * (1 + abs(ll_api)):
                ctx.violation(R2, g, inp, dict(ln_likelihood=ll_api, ln_unmarginalized=unm, ln_prior_linear=ln_prior_lin, ln_cond_post=ln_cond),
                              dict(residual=resid, tol=tol, ll_closed_form=cf["ll"]),
                              "marginal ln-likelihood = ln p(y|theta,x) + ln p(x|theta) - ln N(x|a,A) for every returned sample",
                              tags=tags0)
            else:
                ctx.count("roundoff_exceedance_illconditioned")
        # ---- R3: the public method on multi-survey data ----
        if pr.q > 0 and r == 0:
            ctx.evaluated(R3, nontriv)
            try:
                merged = jk._make_joker_helper(pr.data).data if False else None
                from thejoker.data_helpers import validate_prepare_data
                all_data, ids, _ = validate_prepare_data(pr.data, pr.p, pr.q)
                try:
                    pub = float(out.ln_unmarginalized_likelihood(pr.data)[r])
                    how = "list/dict input"
                except Exception:
                    pub = float(out.ln_unmarginalized_likelihood(all_data)[r])
                    how = "merged RVData"
            except Exception as e:
                pub, how = None, f"raised {type(e).__name__}"
            if pub is None or abs(pub - unm_harness) > tol + 1e-6 * (1 + abs(unm_harness)):
                ctx.violation(R3, g, inp, dict(ln_unmarginalized_likelihood=pub, called_with=how), dict(expected=unm_harness),
                              "ln_unmarginalized_likelihood must evaluate the same RV model as the sampler, including the "
                              "survey offsets dv0_i of the row", tags=dict(api="ln_unmarginalized_likelihood", offsets=True))
    # ---- hand-built rows (not produced by the sampler): R1 only ----
    th = kern.theta_of(phys, int(rng.integers(0, N)))
    x = rng.normal(0, 5, len(names))
    hb_tref = pr.data.t_ref if (pr.keys == "single" and pr.data.t_ref is not None) else Time(c["t_ref"], format="mjd", scale="tcb")
    if g["index"] % 3 == 1:
        # the documented numeric form of the reference epoch (BMJD, like RVData's numeric times)
        hb_tref = float(c["t_ref"])
        ctx.count("hand_built_rows:numeric t_ref")
        if pr.p >= 2:
            ctx.count("hand_built_rows:numeric t_ref with trend")
    rewrap = g["index"] % 3 == 2
    hb = tj.JokerSamples(t_ref=None if rewrap else hb_tref, poly_trend=pr.p, n_offsets=pr.q)
    hb["P"] = [th["P"]] * u.day; hb["e"] = [th["e"]] * u.one; hb["omega"] = [th["omega"]] * u.rad
    hb["M0"] = [th["M0"]] * u.rad; hb["s"] = [th["s"]] * du
    for nm, un, v in zip(names, units, x):
        hb[nm] = [v] * un
    if rewrap:
        # an epoch-less table (e.g. prior samples) given its reference epoch on construction: JokerSamples(table, t_ref=...)
        hb = tj.JokerSamples(hb.tbl, t_ref=hb_tref)
        ctx.count("hand_built_rows:epoch-less table re-wrapped with t_ref")
    tt = np.concatenate([c["t"], c["t_ref"] + rng.uniform(-100, 1000, 4)])
    try:
        rv_api = hb.get_orbit(0).radial_velocity(Time(tt, format="mjd", scale="tcb")).to_value(du)
    except Exception as e:   # noqa: BLE001
        ctx.evaluated(R1, None)
        ctx.violation(R1, g, dict(inp0, theta=th, x=x, hand_built=True, t_ref_given_as=type(hb_tref).__name__),
                      f"{type(e).__name__}: {str(e)[:200]}", None,
                      "the orbit of a hand-built row must be reconstructible", tags=dict(tags0, what="exception", hand_built=True))
        return
    kep = scen.kepler_column(tt, th["P"], th["e"], th["omega"], th["M0"], c["t_ref"])
    dt = tt - c["t_ref"]
    vtr = x[2 + pr.q:]
    rv_model = x[0] * kep + x[1] + sum(vtr[l - 1] * dt ** l for l in range(1, pr.p))
    scale = abs(x[0]) + abs(x[1]) + sum(np.abs(vtr[l - 1] * dt ** l) for l in range(1, pr.p)) + 1e-300
    dev = float(np.max(np.abs(rv_api - rv_model) / scale))
    ctx.evaluated(R1, (g["index"], "hand") if pr.p >= 2 or explicit_tref else None)
    ctx.count("hand_built_rows")
    if not dev <= 1e-7:
        ctx.violation(R1, g, dict(inp0, theta=th, x=x, hand_built=True), dict(rv_api=rv_api), dict(rv_model=rv_model, rel_dev=dev),
                      "the orbit a hand-built row reconstructs must be K*kep + trend about t_ref", tags=tags0)


def post(ctx):
    ctx.rule = RULE
    ctx.require("data with the reference epoch disabled (t_ref=False)", ctx.counters["disabled_tref"], 1)
    ctx.require("epoch-less tables re-wrapped with an explicit t_ref", ctx.counters["hand_built_rows:epoch-less table re-wrapped with t_ref"], 5)
    ctx.require("hand-built rows with a numeric reference epoch and a trend", ctx.counters["hand_built_rows:numeric t_ref with trend"], 3)
    c = ctx.counters
    if not ctx.replay_mode:
        ctx.require("explicit t_ref cases", c["explicit_tref"], 2)
        ctx.require("explicit t_ref given in a non-TCB time scale", c["explicit_tref_scale=utc"] + c["explicit_tref_scale=tdb"], 3)
        ctx.require("explicit t_ref with a polynomial trend (p>=2)", c["explicit_tref_with_trend"], 3)
        ctx.require("p>=2 cases", c["p=2"] + c["p=3"], 4)
        ctx.require("q>=1 cases", c["q=1"] + c["q=2"], 3)
        ctx.require("hand-built rows", c["hand_built_rows"], 10)
