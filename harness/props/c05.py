"""C05 - results do not depend on batching, pool, cache path or call history.

Everything here compares the implementation with itself across execution paths; the reference for a library
row is "the value a pristine helper returns for that row alone" (`fresh`), computed per *conversion route*
(in-memory `pack` vs cache-file `read_batch`), so that every comparison is BIT-IDENTICAL and no tolerance is
needed (deviation from DESIGN 3/C05, which allowed 1e-12 for libraries stored in foreign units: unit
conversion exactness belongs to C07/C12; with route-specific references the looser bound is unnecessary).

Tie (DESIGN 3/C05):
 (0) read-set test on the source twin: the scratch cells of the helper are discovered dynamically (cells that
     differ between a pristine helper and helpers that processed unrelated samples); before every per-sample
     step exactly those cells are overwritten with NaN / garbage; marginal likelihoods and posterior draws must
     stay bit-identical to the pristine values.  Plus random interleavings of both operations on one dirty
     helper and helpers rebuilt through `__reduce__`, compared with the pristine values and with the Lean
     machine (`hist.ops`).
 (1) random histories (<= 12 calls quick, <= 60 thorough) on ONE TheJoker: interleaved marginal_ln_likelihood /
     rejection_sample / iterative_rejection_sample with random (in_memory, object | file, n_batches in 1..N+3,
     pool size), two different data sets: every likelihood returned anywhere (arrays, return_all_logprobs,
     ln_likelihood columns) equals the pristine value of ITS row, in input order; the task partition and the
     concatenated values equal the Lean machine's (`hist.run`, which runs Batch.batchTasks + Hist.runBatches on
     dirty / rebuilt helpers).
 (2) equal seeds => identical accepted rows across all documented-equivalent paths (object | file | in_memory,
     any n_batches, serial | multi-process), also compared with `Hist.accepted` on the recorded uniforms
     (`hist.accepted`, IEEE doubles; a disagreement is re-decided with 50-digit arithmetic before it counts).
 (3) the same with helpers that went through __reduce__/dill into MultiPool(k) workers, every batch position."""
import copy
import dill as pickle   # the sampler ships helpers to workers with dill (multiprocess)

import os

import numpy as np

NEEDS_KERNEL = True

RULE = ("a likelihood comparison is non-trivial when the library's pristine values are pairwise distinct (an "
        "order or history error cannot hide); an accepted-set comparison when 0 < accepted < evaluated; distinct = "
        "distinct (relation, entry, route, n_batches class, pool, data set)")


def plan(ctx):
    t = ctx.thorough
    cases = [("readset", i) for i in range(60 if t else 8)]
    cases += [("history", i) for i in range(60 if t else 9)]
    cases += [("paths", i) for i in range(40 if t else 10)]
    cases += [("mpool", i) for i in range(10 if t else 2)]
    cases += [("rewrite", i) for i in range(14 if t else 6)]
    return cases


# ---------------------------------------------------------------------------------------------------------
# references


def bits(a):
    return np.ascontiguousarray(np.asarray(a, dtype="f8")).view("u8")


def same_bits(a, b):
    a, b = np.asarray(a, dtype="f8"), np.asarray(b, dtype="f8")
    return a.shape == b.shape and bool(np.all(bits(a) == bits(b)))


def new_helper(pr, data):
    return pr.joker()._make_joker_helper(data)


def alt_data(pr, rng):
    """a second data set for the same prior (same surveys / units): other velocities, one epoch dropped where
    possible"""
    import thejoker as tj
    import scen
    datas = []
    for sv in pr.surveys:
        t, rv, err = np.array(sv["t"]), np.array(sv["rv"]), np.array(sv["err"])
        if len(t) > 2:
            k = int(rng.integers(0, len(t)))
            keep = np.arange(len(t)) != k
            t, rv, err = t[keep], rv[keep], err[keep]
        rv = rv + rng.normal(0, 1, len(rv)) * np.abs(err) * 3
        un = scen.U(sv["unit"])
        datas.append(tj.RVData(t=t, rv=rv * un, rv_err=err * scen.U(sv.get("err_unit", sv["unit"]))))
    if pr.keys == "single":
        return datas[0]
    if pr.keys is None:
        return datas
    return {k: d for k, d in zip(pr.keys, datas)}


class Ref:
    """pristine values for (data set, conversion route) of one problem + library"""

    def __init__(self, pr, lib, path, datas):
        self.pr, self.lib, self.path, self.datas = pr, lib, path, datas
        self.N = len(lib)
        self._rows = {}
        self._fresh = {}

    def rows(self, d, route):
        key = (d, route)
        if key not in self._rows:
            from thejoker.utils import read_batch
            h = new_helper(self.pr, self.datas[d])
            if route == "mem":
                r, _ = self.lib.pack(units=h.internal_units, names=h.packed_order)
            else:
                r = read_batch(self.path, h.packed_order, np.arange(self.N), units=h.internal_units)
                r2 = read_batch(self.path, h.packed_order, (0, self.N), units=h.internal_units)
                self.slice_idx_agree = same_bits(r, r2)
            self._rows[key] = np.ascontiguousarray(np.asarray(r, dtype="f8"))
        return self._rows[key]

    def fresh(self, d, route):
        """value of each row on its own pristine helper"""
        key = (d, route)
        if key not in self._fresh:
            rows = self.rows(d, route)
            out = np.empty(self.N)
            for i in range(self.N):
                h = new_helper(self.pr, self.datas[d])
                out[i] = np.array(h.batch_marginal_ln_likelihood(rows[i:i + 1]))[0]
            self._fresh[key] = out
        return self._fresh[key]


def distinct(x):
    x = np.asarray(x)
    return len(np.unique(bits(x))) == len(x) and bool(np.all(np.isfinite(x)))


# ---------------------------------------------------------------------------------------------------------
# (0) read-set test on the twin


def array_attrs(h):
    return {k: v for k, v in vars(h).items() if isinstance(v, np.ndarray) and v.dtype.kind in "fiu"}


def neq(a, b):
    if a.dtype.kind == "f":
        return bits(a).reshape(a.shape) != bits(b).reshape(b.shape)
    return a != b


def discover_scratch(pr, data, probe_rows, seed):
    """cells of the helper that differ between a pristine helper and helpers after steps on unrelated samples"""
    h0 = new_helper(pr, data)
    snap = {k: v.copy() for k, v in array_attrs(h0).items()}
    masks = {k: np.zeros(v.shape, dtype=bool) for k, v in snap.items()}
    for order in (0, 1):
        h = new_helper(pr, data)
        rows = probe_rows[order::2]
        g = np.random.default_rng(seed + order)
        for i in range(len(rows)):
            if (i + order) % 2 == 0:
                h.batch_marginal_ln_likelihood(rows[i:i + 1])
            else:
                h.batch_get_posterior_samples(rows[i:i + 1], 1, g)
        cur = array_attrs(h)
        if set(cur) != set(snap):
            for k in set(cur) - set(snap):      # an array attribute created by a step is scratch as a whole
                masks[k] = np.ones(cur[k].shape, dtype=bool)
                snap[k] = cur[k].copy()
        for k in snap:
            if k in cur and cur[k].shape == snap[k].shape:
                masks[k] |= neq(cur[k], snap[k])
    return snap, {k: m for k, m in masks.items() if m.any()}


def poison(h, masks, rng):
    for k, m in masks.items():
        a = getattr(h, k, None)
        if not isinstance(a, np.ndarray) or a.shape != m.shape:
            continue
        if a.dtype.kind == "f":
            a[m] = np.nan if rng.random() < 0.7 else 1e300 * (1 if rng.random() < 0.5 else -1)
        else:
            a[m] = -12345


def readset_case(ctx, g):
    import histlib as hl
    rng = ctx.case_rng("readset", g["index"])
    # alternate the K prior (the FixedCompanionMass prior makes Lambda[0] a per-sample scratch cell) and make sure
    # jitter values differ from row to row, including exact zeros next to positive ones
    K_kind = ("fcm", "normal")[g["index"] % 3 == 2]
    pr = hl.small_problem(rng, K_kind=K_kind, q=(0 if K_kind == "normal" else None), s_kind="sampled")
    N = int(rng.integers(8, 15))
    lib, phys, internal = hl.library(rng, pr, N, internal_units=True)
    sv = phys["s"].copy()
    sv[rng.random(N) < 0.35] = 0.0
    import scen
    lib, phys = scen.make_library(np.random.default_rng(hl.seed_of(rng)), pr, N, units="canonical", s_values=sv)
    data = pr.data
    h = new_helper(pr, data)
    rows = np.ascontiguousarray(lib.pack(units=h.internal_units, names=h.packed_order)[0], dtype="f8")
    n_lin = int(rng.integers(1, 3))
    seeds = [hl.seed_of(rng) for _ in range(N)]
    # pristine values: one new helper per row and per operation
    fresh_ll = np.array([np.array(new_helper(pr, data).batch_marginal_ln_likelihood(rows[i:i + 1]))[0] for i in range(N)])
    fresh_post = []
    for i in range(N):
        s, _ = new_helper(pr, data).batch_get_posterior_samples(rows[i:i + 1], n_lin, np.random.default_rng(seeds[i]))
        fresh_post.append(np.array(s))
    probe = rows[rng.permutation(N)][: max(4, N // 2)] * (1 + 0.01 * rng.random((max(4, N // 2), 1)))
    probe[:, 1] = np.clip(probe[:, 1], 0, 0.9)
    snap, masks = discover_scratch(pr, data, np.ascontiguousarray(probe), hl.seed_of(rng))
    n_cells = int(sum(m.sum() for m in masks.values()))
    inp = dict(problem=dict(p=pr.p, q=pr.q, K=K_kind, n=int(len(np.asarray(h.t))), N=N, n_lin=n_lin),
               scratch={k: int(m.sum()) for k, m in masks.items()})
    nontriv = distinct(fresh_ll)
    ctx.count("readset:cases")
    ctx.count("readset:scratch-cells", n_cells)
    ctx.count(f"readset:K={K_kind}")
    ctx.extra.setdefault("scratch_sets_seen", {})[K_kind] = sorted(masks)
    # -- (0a) poison every scratch cell before each per-sample step
    rel = "read-set: poisoned scratch cells never reach a result (Hist.step_out_indep_of_scratch)"
    hp = new_helper(pr, data)
    order = list(rng.permutation(N)) + [int(v) for v in rng.integers(0, N, N // 2)]
    for step, i in enumerate(order):
        i = int(i)
        poison(hp, masks, rng)
        if rng.random() < 0.6:
            got = np.array(hp.batch_marginal_ln_likelihood(rows[i:i + 1]))[0]
            ok = same_bits(got, fresh_ll[i])
            ctx.evaluated(rel, ("marg", K_kind, pr.q > 0, pr.p > 1) if nontriv else None,
                          sample=dict(inp, step=step, row=i) if step == 3 else None)
            ctx.count("readset:poisoned-marg")
            if not ok:
                ctx.violation(rel, g, dict(inp, step=step, row=i, op="marginal"), float(got), float(fresh_ll[i]),
                              "the marginal ln-likelihood of a sample must be the same number whatever the helper's "
                              f"work buffers contained before the step (scratch cells {sorted(masks)} were overwritten "
                              "with NaN/garbage): a value written by an earlier sample is read before it is rewritten",
                              tags=dict(relation="readset", op="marg"))
                return
        else:
            s, _ = hp.batch_get_posterior_samples(rows[i:i + 1], n_lin, np.random.default_rng(seeds[i]))
            ok = same_bits(np.array(s), fresh_post[i])
            ctx.evaluated(rel, ("post", K_kind, pr.q > 0, pr.p > 1) if nontriv else None)
            ctx.count("readset:poisoned-post")
            if not ok:
                ctx.violation(rel, g, dict(inp, step=step, row=i, op="posterior"), np.array(s)[0], fresh_post[i][0],
                              "posterior draws for a sample (same generator state) must not depend on what the helper's "
                              "work buffers contained before the step", tags=dict(relation="readset", op="post"))
                return
    # -- (0b) a dirty helper, random interleaving, whole batches, rebuild through __reduce__; vs pristine + model
    rel2 = "history on one helper: outputs equal pristine values (Hist.history_independence)"
    hd = new_helper(pr, data)
    ops, outs = [], []
    for step in range(int(rng.integers(6, 14))):
        i = int(rng.integers(0, N))
        if rng.random() < 0.5:
            outs.append(("marg", i, np.array(hd.batch_marginal_ln_likelihood(rows[i:i + 1]))[0]))
            ops.append({"k": "marg", "row": i})
        else:
            s, _ = hd.batch_get_posterior_samples(rows[i:i + 1], n_lin, np.random.default_rng(seeds[i]))
            outs.append(("post", i, np.array(s)))
            ops.append({"k": "post", "row": i})
    import core
    m = ctx.model({"op": "hist.ops", "fresh": [core.bits(v) for v in fresh_ll], "postFresh": list(range(1000, 1000 + N)),
                   "ops": ops})["out"]
    bad = None
    model_bad = None
    for (kind, i, val), mo in zip(outs, m):
        if kind == "marg":
            if not same_bits(val, fresh_ll[i]):
                bad = (kind, i, float(val), float(fresh_ll[i]))
            if mo != core.bits(fresh_ll[i]):
                model_bad = (kind, i, mo)
        else:
            if not same_bits(val, fresh_post[i]):
                bad = (kind, i, val[0], fresh_post[i][0])
            if mo != [1000 + i]:
                model_bad = (kind, i, mo)
    ctx.evaluated(rel2, ("ops", len(ops), K_kind) if nontriv else None)
    ctx.count("readset:history-ops", len(ops))
    if bad:
        ctx.violation(rel2, g, dict(inp, ops=ops), bad[2], bad[3], f"operation {bad[0]} on row {bad[1]} after the history "
                      "differs from the pristine value", tags=dict(relation="helper-history", op=bad[0]))
    elif model_bad:
        ctx.mismatch(rel2, g, dict(inp, ops=ops), [o[:2] for o in outs], m, "Lean machine and implementation disagree")
    # whole batch on the dirty helper, in a shuffled order; and on a helper rebuilt from __reduce__
    rel3 = "batch on a dirty / rebuilt helper equals per-row pristine values in input order (Hist.batching_independence)"
    perm = rng.permutation(N)
    got = np.array(hd.batch_marginal_ln_likelihood(np.ascontiguousarray(rows[perm])))
    hr = pickle.loads(pickle.dumps(hd))
    # a helper rebuilt from __reduce__ is, before its first use, cell for cell a pristine helper (whatever the
    # pickled one went through): `rebuild (reduce h) = init h.imm`.  (No cell-level claim is made about the
    # dirty helper itself: a cell that kept its initial value during the discovery probes may still be scratch.)
    rel4 = "helper rebuilt from __reduce__ equals a pristine helper (Hist.rebuild_reduce_imm)"
    ctx.evaluated(rel4, ("rebuild", K_kind, pr.p > 1, pr.q > 0))
    cur = array_attrs(hr)
    for k, v0 in snap.items():
        if k not in cur or cur[k].shape != v0.shape or neq(cur[k], v0).any():
            ctx.violation(rel4, g, dict(inp, attr=k), cur.get(k), v0, f"attribute {k} of a helper that went through "
                          "__reduce__/dill differs from the same attribute of a newly constructed helper",
                          tags=dict(relation="rebuild"))
            break
    got_r = np.array(hr.batch_marginal_ln_likelihood(np.ascontiguousarray(rows[perm])))
    ctx.evaluated(rel3, ("batch", K_kind) if nontriv else None)
    for name, gg in (("dirty", got), ("rebuilt", got_r)):
        if not same_bits(gg, fresh_ll[perm]):
            j = int(np.nonzero(bits(gg) != bits(fresh_ll[perm]))[0][0])
            ctx.violation(rel3, g, dict(inp, order=[int(v) for v in perm], helper=name), gg, fresh_ll[perm],
                          f"row at batch position {j} evaluated on a {name} helper differs from its pristine value",
                          tags=dict(relation="helper-batch", helper=name))


# ---------------------------------------------------------------------------------------------------------
# (1) histories on one TheJoker


def evaluated_rows(spec, N, parent_calls):
    """library rows whose likelihoods rejection_sample evaluates, in evaluation order"""
    o = spec["opts"]
    n = o.get("n_prior_samples") or N
    if o.get("randomize_prior_order"):
        ch = [c for c in parent_calls if c["method"] == "choice"]
        return [int(v) for v in np.asarray(ch[-1]["out"])] if ch else None
    return list(range(n))


def check_lls(ctx, g, rel, inp, got, rows, fresh, key, tags):
    """every returned likelihood equals the pristine value of its row, in order"""
    got = np.asarray(got, dtype="f8")
    want = np.asarray(fresh)[rows]
    nontriv = distinct(fresh)
    ctx.evaluated(rel, key if nontriv else None)
    if nontriv:
        ctx.count("lls-compared-nontrivial", len(rows))
    if got.shape != want.shape:
        ctx.violation(rel, g, inp, got, want, f"{len(got)} likelihoods returned for {len(rows)} rows requested", tags=tags)
        return False
    if not same_bits(got, want):
        j = int(np.nonzero(bits(got) != bits(want))[0][0])
        # is it an order problem or a value problem?  (both violate the property; say which)
        perm_ok = sorted(bits(got).tolist()) == sorted(bits(want).tolist())
        why = "values are a permutation of the expected ones: not in input order" if perm_ok else \
            f"position {j} (library row {rows[j]}): {float(got[j])!r} vs pristine {float(want[j])!r}"
        ctx.violation(rel, g, dict(inp, rows=rows[:12]), got, want,
                      "the likelihood of a prior sample must be the same number on every path and after every history, "
                      "values in input order: " + why, tags=tags)
        return False
    return True


def history_case(ctx, g):
    import histlib as hl
    import rec
    rng = ctx.case_rng("history", g["index"])
    pr = hl.small_problem(rng)
    N = int(rng.integers(16, 36))
    lib, phys, internal = hl.library(rng, pr, N, internal_units=bool(g["index"] % 3 != 2))
    datas = [pr.data, alt_data(pr, rng)]
    ncalls = int(rng.integers(20, 61)) if ctx.thorough else int(rng.integers(6, 13))
    seed = hl.seed_of(rng)
    with hl.Scratch("c05") as sc:
        path = sc.write_library(lib)
        ref = Ref(pr, lib, path, datas)
        parent = rec.RecGen(seed)
        pool = rec.RecPool(size=int(rng.integers(1, 5)), wrap_children=False)
        j = pr.joker(rng=parent, pool=pool)
        model_calls, model_expect = [], []
        for c in range(ncalls):
            d = int(rng.random() < 0.35)
            entry = ["marginal", "rejection", "iterative"][int(rng.choice(3, p=[0.4, 0.4, 0.2]))]
            if c < 3:
                # stratum: the first three calls of every history cover each entry point, in memory (where the
                # unit conversion is the sampler's own `pack` call), so that libraries in foreign units meet it
                entry = ["marginal", "rejection", "iterative"][(c + g["index"]) % 3]
                spec = hl.gen_spec(rng, N, entry=entry, source="object", in_memory=True)
            else:
                spec = hl.gen_spec(rng, N, entry=entry)
            if entry == "rejection":
                spec["opts"]["return_all_logprobs"] = True
            route = "mem" if spec["in_memory"] else "file"
            n_calls0, n_maps0 = len(parent.calls), len(pool.maps)
            out = hl.do_call(j, pr, spec, lib=lib, path=path, data=datas[d])
            new_calls, new_maps = parent.calls[n_calls0:], pool.maps[n_maps0:]
            fresh = ref.fresh(d, route)
            inp = dict(call=c, of=ncalls, spec=spec, data=d, N=N, internal_units=internal, seed=seed, pool_size=pool.size,
                       problem=dict(p=pr.p, q=pr.q, K=pr.desc["K"]["kind"]))
            nbc = spec["opts"].get("n_batches")
            key = (entry, route, spec["source"], "nb>N" if (nbc or 0) > N else ("nb=None" if nbc is None else "nb<=N"), d)
            tags = dict(entry=entry, route=route, source=spec["source"], relation="history")
            ctx.count(f"history:{entry}:{route}")
            ctx.count(f"history:data{d}")
            if not internal:
                ctx.count("history:foreign-units-calls")
                if spec["in_memory"]:
                    ctx.count(f"history:foreign-units-inmem:{entry}")
            rel = "every likelihood returned in a history equals the pristine value of its row, in input order"
            if entry == "marginal":
                rows = list(range(N))
                check_lls(ctx, g, rel, inp, out["lls"]["array"][1], rows, fresh, key, tags)
            elif entry == "rejection":
                rows = evaluated_rows(spec, N, new_calls)
                if rows is not None:
                    check_lls(ctx, g, rel, inp, out["lls"]["array"][1], rows, fresh, key, tags)
            else:
                rows = None
            # ln_likelihood column of the returned samples: value of the row the sample came from
            s = out.get("_obj")
            if s is not None and "ln_likelihood" in s.tbl.colnames and len(s) > 0:
                acc = hl.accepted_rows(s, ref.rows(d, route)[:, 0], spec["opts"].get("n_linear_samples", 1))
                if acc is not None:
                    check_lls(ctx, g, rel, dict(inp, column="ln_likelihood"), np.asarray(s.tbl["ln_likelihood"]), acc, fresh,
                              key + ("col",), tags)
                    ctx.count("history:ln_likelihood-columns")
            # the marginal stage as the Lean machine sees it: rows in request order, n_batches, pool size
            if not spec["in_memory"] and rows is not None and entry in ("marginal", "rejection"):
                ll_maps = [mm for mm in new_maps if mm["worker"] == "marginal_ln_likelihood_worker"]
                if len(ll_maps) == 1:
                    model_calls.append(dict(rows=rows, nb=spec["opts"].get("n_batches"), poolSize=pool.size,
                                            reuse=bool(c % 2), fresh_key=(d, route)))
                    sizes = [(sl[1] - sl[0]) if isinstance(sl, tuple) else int(len(sl)) for sl in ll_maps[0]["slices"]]
                    model_expect.append((np.asarray(out["lls"]["array"][1]), sizes, inp))
        # ---- Lean machine: one op per (data, route) table, calls in order
        import core
        rel_m = "task partition and concatenated values equal the Lean machine's (Batch.batchTasks + Hist.runBatches)"
        for fk in sorted({mc["fresh_key"] for mc in model_calls}):
            sel = [i for i, mc in enumerate(model_calls) if mc["fresh_key"] == fk]
            fresh = ref.fresh(*fk)
            m = ctx.model({"op": "hist.run", "fresh": [core.bits(v) for v in fresh],
                           "calls": [dict(rows=model_calls[i]["rows"], nb=model_calls[i]["nb"], poolSize=model_calls[i]["poolSize"],
                                          reuse=model_calls[i]["reuse"]) for i in sel]})["calls"]
            for i, mo in zip(sel, m):
                got, obs_sizes, inp = model_expect[i]
                ctx.evaluated(rel_m, ("hist.run", len(mo["tasks"]) > 1, fk[1]) if distinct(fresh) else None)
                impl_bits = [int(v) for v in bits(got)]
                mod_sizes = [b - a for a, b in mo["tasks"]]
                if impl_bits != mo["lls"] or obs_sizes != mod_sizes:
                    # the predicate itself was decided above (check_lls); a disagreement here with the predicate
                    # holding is a model/implementation mismatch
                    ctx.mismatch(rel_m, g, inp, dict(sizes=obs_sizes, lls=got[:6]), dict(sizes=mod_sizes, lls=mo["lls"][:6]),
                                 "batch sizes and concatenated likelihoods must equal the model's")
        if not getattr(ref, "slice_idx_agree", True):
            ctx.notes.append("read_batch slice and index forms return different rows for the same library (C12 territory)")


# ---------------------------------------------------------------------------------------------------------
# (2) accepted set across paths


def exact_accept(ll, mx, u):
    """re-decide exp(ll - mx) > u with 50-digit arithmetic; returns (decision, margin in ulps of u)"""
    from decimal import Decimal, getcontext
    getcontext().prec = 60
    a = (Decimal(float(ll)) - Decimal(float(mx))).exp()
    uu = Decimal(float(u))
    ulp = Decimal(float(np.spacing(max(float(u), 1e-300))))
    return a > uu, abs(a - uu) / ulp


def paths_case(ctx, g):
    import histlib as hl
    import rec
    import core
    rng = ctx.case_rng("paths", g["index"])
    # flatter likelihoods => intermediate acceptance
    pr = hl.small_problem(rng, err_scale=float(10 ** rng.uniform(0.3, 1.1)))
    N = int(rng.integers(24, 48))
    lib, phys, internal = hl.library(rng, pr, N, internal_units=bool(g["index"] % 3 != 2))
    narrow = (not internal) and g["index"] % 2 == 0
    if narrow:
        # a library whose nonlinear columns are float32 AND stored in other units than the kernel's (prior.sample(dtype=
        # float32) of a prior declared in years): the stored sample is the float32 number in its own unit
        import thejoker as tj
        lib32 = tj.JokerSamples(poly_trend=pr.p, n_offsets=pr.q)
        for nm in lib.par_names:
            col = lib[nm]
            lib32[nm] = col.astype(np.float32) if nm in ("P", "e", "omega", "M0", "s") else col
        lib = lib32
        ctx.count("paths:float32 library in foreign units")
    entry = ("rejection", "iterative")[g["index"] % 2]
    seed = hl.seed_of(rng)
    base = hl.gen_spec(rng, N, entry=entry, source="object", in_memory=False)
    o = base["opts"]
    if g["index"] % 4 == 0:
        # a quarter of the cases without the truncation / shuffle options
        for k in ("randomize_prior_order", "n_prior_samples", "max_prior_samples"):
            o.pop(k, None)
    else:
        orng = ctx.case_rng("paths-options", g["index"])
        if orng.random() < 0.6:
            o["randomize_prior_order"] = True
        if entry == "rejection" and orng.random() < 0.6:
            o["n_prior_samples"] = int(orng.integers(max(1, N // 2), N + 1))
    if entry == "rejection":
        o["return_all_logprobs"] = True
    else:
        # make a second round likely: ask for more than the first small batch can give
        o["init_batch_size"] = int(rng.integers(3, 7))
        o["n_requested_samples"] = o["init_batch_size"] + int(rng.integers(1, 4))   # round 1 can never suffice
    # variants that the documentation makes equivalent
    variants = []
    for source in ("object", "file"):
        for nb in (None, 1, 2, int(rng.integers(3, N + 4))):
            v = copy.deepcopy(base)
            v["source"] = source
            v["opts"]["n_batches"] = nb
            variants.append(v)
    # the in-memory path takes the same options (n_prior_samples, randomize_prior_order, max_prior_samples) and must
    # evaluate and accept the same prior samples with equal seeds; only n_batches has no meaning there
    for source in ("object", "file"):
        v = copy.deepcopy(base)
        v["in_memory"] = True
        v["source"] = source
        v["opts"].pop("n_batches", None)
        variants.append(v)
    if o.get("randomize_prior_order") or o.get("n_prior_samples") is not None or o.get("max_prior_samples") is not None:
        ctx.count("paths:in-memory variant with n_prior_samples / max_prior_samples / randomize_prior_order")
    results = []
    with hl.Scratch("c05") as sc:
        path = sc.write_library(lib)
        ref = Ref(pr, lib, path, [pr.data])
        # the same stored sample is the same number in memory and through the cache: converted rows and values, bit for bit
        rel0 = "marginal ln-likelihood of a stored sample: in memory = through the HDF5 cache (same number)"
        fm, ff = ref.fresh(0, "mem"), ref.fresh(0, "file")
        ctx.evaluated(rel0, ("paths", g["index"]) if not internal else None)
        if not same_bits(fm, ff):
            k = int(np.nonzero(bits(np.asarray(fm)) != bits(np.asarray(ff)))[0][0])
            ctx.violation(rel0, g, dict(N=N, internal_units=internal, float32_columns=narrow, row=k,
                                        stored={nm: (float(np.asarray(lib[nm].value)[k]), str(lib[nm].unit)) for nm in ("P", "e", "omega", "M0", "s")},
                                        problem=dict(p=pr.p, q=pr.q, K=pr.desc["K"]["kind"])),
                          dict(ll_in_memory=float(fm[k]), row_in_memory=ref.rows(0, "mem")[k]),
                          dict(ll_cache=float(ff[k]), row_cache=ref.rows(0, "file")[k]),
                          "the marginal ln-likelihood of a prior sample is the same number whether it is evaluated in memory or "
                          f"through an HDF5 cache: row {k} gives {float(fm[k])!r} in memory and {float(ff[k])!r} through the cache "
                          f"({int(np.sum(bits(np.asarray(fm)) != bits(np.asarray(ff))))} of {N} rows differ)",
                          tags=dict(relation="mem-vs-cache", float32=narrow))
            return
        for v in variants:
            parent = rec.RecGen(seed)
            j = pr.joker(rng=parent, pool=rec.RecPool(size=int(rng.integers(1, 4)), wrap_children=False))
            try:
                out = hl.do_call(j, pr, v, lib=lib, path=path)
            except RuntimeError as e:
                # non-finite likelihoods: the cache path raises RuntimeError, the in-memory path *returns* one
                # (C14's business); for path independence both are the outcome "RuntimeError"
                out = {"samples": None, "lls": None, "_obj": None, "returned": "RuntimeError"}
            if str(out.get("returned") or "").startswith("RuntimeError"):
                out["returned"] = "RuntimeError"
            route = "mem" if v["in_memory"] else "file"
            s = out.get("_obj")
            acc = hl.accepted_rows(s, ref.rows(0, route)[:, 0], v["opts"].get("n_linear_samples", 1)) if s is not None else None
            calls_first = list(parent.calls)
            # the SAME call once more on the same TheJoker (its generator has advanced): "regardless of what the same sampler
            # evaluated before" - the second call's accepted set must not depend on the path either
            try:
                out2 = hl.do_call(j, pr, v, lib=lib, path=path)
                s2 = out2.get("_obj")
                acc2 = hl.accepted_rows(s2, ref.rows(0, route)[:, 0], v["opts"].get("n_linear_samples", 1)) if s2 is not None else None
                ret2 = out2.get("returned")
            except RuntimeError:
                acc2, ret2 = None, "RuntimeError"
            if str(ret2 or "").startswith("RuntimeError"):
                ret2 = "RuntimeError"
            results.append(dict(spec=v, route=route, acc=acc, out=out, calls=calls_first, returned=out.get("returned"), acc2=acc2, returned2=ret2))
    inp = dict(base=base, N=N, seed=seed, internal_units=internal, problem=dict(p=pr.p, q=pr.q, K=pr.desc["K"]["kind"]))
    rel = "equal seeds => identical accepted prior samples on every path (Hist.accepted_set_path_independent)"
    r0 = results[0]
    n_eval = None
    if entry == "rejection":
        n_eval = len(r0["out"]["lls"]["array"][1]) if r0["out"].get("lls") else None
    else:
        us = [c for c in r0["calls"] if c["method"] == "uniform"]
        n_eval = int(np.size(us[-1]["out"])) if us else None
        if len(us) >= 2:
            ctx.count("paths:iterative-multi-round")
    nontriv = r0["acc"] is not None and n_eval is not None and 0 < len(set(r0["acc"])) < n_eval
    for r in results[1:]:
        key = (entry, r["route"], r["spec"]["source"], r["spec"]["opts"].get("n_batches") is None,
               bool(o.get("randomize_prior_order")))
        ctx.evaluated(rel, key if nontriv else None, sample=dict(inp, variant=r["spec"], accepted=r["acc"]))
        ctx.count(f"paths:{entry}:{r['route']}")
        if nontriv:
            ctx.count("paths:nontrivial")
        if r["acc"] != r0["acc"] or r["returned"] != r0["returned"]:
            ctx.violation(rel, g, dict(inp, path_a=r0["spec"], path_b=r["spec"]), dict(accepted=r["acc"], returned=r["returned"]),
                          dict(accepted=r0["acc"], returned=r0["returned"]),
                          "with equal seeds the accepted prior samples must be identical whether the library is evaluated in "
                          "memory or through the HDF5 cache, from an object or a file name, with any n_batches: "
                          f"path A accepted rows {r0['acc']}, path B accepted rows {r['acc']}",
                          tags=dict(entry=entry, route_a=r0["route"], route_b=r["route"], relation="accepted-set"))
            break
    else:
        rel_h = "equal seeds => identical accepted prior samples on every path, also for the SECOND call on the same TheJoker"
        for r in results[1:]:
            ctx.evaluated(rel_h, (entry, r["route"], r["spec"]["source"]) if r0["acc2"] else None)
            ctx.count(f"paths-second-call:{entry}:{r['route']}")
            if r["acc2"] != r0["acc2"] or r["returned2"] != r0["returned2"]:
                cross = r["route"] != r0["route"]
                ctx.violation(rel_h, g, dict(inp, path_a=r0["spec"], path_b=r["spec"]), dict(accepted_second_call=r["acc2"], returned=r["returned2"]),
                              dict(accepted_second_call=r0["acc2"], returned=r0["returned2"]),
                              "two TheJoker objects with equal seeds, each called twice the same way: the second calls must accept the same prior "
                              f"samples on every path: path A {r0['acc2']}, path B {r['acc2']} (the first calls agreed)",
                              tags=dict(entry=entry, route_a=r0["route"], route_b=r["route"], relation="accepted-set-second-call",
                                        what="parent generator consumed differently in memory and through the cache" if cross else "same family"))
                break
    # the rejection step itself against Hist.accepted on the recorded uniforms
    if entry == "rejection":
        rel2 = "accepted positions = Hist.accepted(lls, recorded uniforms)"
        for r in results[:1] + results[-1:]:
            if not r["out"].get("lls"):
                continue
            lls = np.asarray(r["out"]["lls"]["array"][1])
            us = [c for c in r["calls"] if c["method"] == "uniform"]
            if not us or not np.all(np.isfinite(lls)) or r["acc"] is None:
                continue
            uu = np.asarray(us[-1]["out"], dtype="f8")
            maxp = r["spec"]["opts"].get("max_posterior_samples") or len(lls)
            m = ctx.model({"op": "hist.accepted", "lls": core.bits_list(lls), "uu": core.bits_list(uu), "maxPost": int(maxp)})["accepted"]
            rows_eval = evaluated_rows(r["spec"], N, r["calls"])
            if rows_eval is None or len(rows_eval) != len(lls):
                # a shuffle was requested but no choice() was drawn, or another number of rows was evaluated: the
                # accepted-set relation above decides (the evaluated rows cannot be reconstructed here)
                ctx.count("paths:evaluated rows not reconstructible")
                continue
            model_rows = [rows_eval[k] for k in m]
            ctx.evaluated(rel2, (r["route"], len(m) not in (0, len(lls))))
            if model_rows != r["acc"]:
                # re-decide exactly every position on which they differ
                mx = lls.max()
                exact = [k for k in range(len(lls)) if exact_accept(lls[k], mx, uu[k])[0]][:maxp]
                exact_rows = [rows_eval[k] for k in exact]
                close = [k for k in range(len(lls)) if exact_accept(lls[k], mx, uu[k])[1] < 4]
                if exact_rows == r["acc"] or close:
                    ctx.count("paths:float-threshold-redecided")
                else:
                    ctx.mismatch(rel2, g, inp, r["acc"], model_rows, "accepted rows must follow exp(ll - max) > u with the "
                                 "recorded uniforms (C02 decides the rule itself; here only path independence is claimed)")


# ---------------------------------------------------------------------------------------------------------
# (3) worker processes


def mpool_case(ctx, g):
    import histlib as hl
    rng = ctx.case_rng("mpool", g["index"])
    pr = hl.small_problem(rng, n=int(rng.integers(3, 6)))
    N = int(rng.integers(14, 26))
    lib, phys, internal = hl.library(rng, pr, N, internal_units=bool(g["index"] % 2 == 0))
    k = int(rng.integers(2, 5)) if not ctx.thorough else int(rng.integers(2, 9))
    seed = hl.seed_of(rng)
    with hl.Scratch("c05") as sc:
        path = sc.write_library(lib)
        ref = Ref(pr, lib, path, [pr.data])
        fresh = ref.fresh(0, "file")
        pool = hl.multi_pool(k)
        try:
            j = pr.joker(rng=np.random.default_rng(seed), pool=pool)
            nbs = [None, N + 2] + [int(v) for v in rng.integers(2, N + 1, 1 if not ctx.thorough else 3)]
            for nb in nbs:
                for source in (("object", "file") if nb is None or ctx.thorough else ("file",)):
                    spec = dict(entry="marginal", source=source, in_memory=False, opts=dict(n_batches=nb))
                    out = hl.do_call(j, pr, spec, lib=lib, path=path)
                    inp = dict(spec=spec, N=N, processes=k, internal_units=internal, problem=dict(p=pr.p, q=pr.q))
                    ctx.count("mpool:marginal-calls")
                    check_lls(ctx, g, "multi-process: every likelihood equals the pristine value of its row, every batch position",
                              inp, out["lls"]["array"][1], list(range(N)), fresh, ("mpool", source, nb is None, k),
                              dict(entry="marginal", route="file", pool="multi", relation="mpool"))
            # accepted set: multi-process vs serial, equal seeds
            spec = hl.gen_spec(rng, N, entry="rejection", source="object", in_memory=False)
            spec["opts"]["n_batches"] = int(rng.integers(2, 6))
            spec["opts"]["return_all_logprobs"] = True
            j.rng = np.random.default_rng(seed)
            out_m = hl.do_call(j, pr, spec, lib=lib, path=path)
        finally:
            pool.terminate()
            pool.join()
        js = pr.joker(rng=np.random.default_rng(seed))
        spec_s = copy.deepcopy(spec)
        spec_s["opts"]["n_batches"] = None
        out_s = hl.do_call(js, pr, spec_s, lib=lib, path=path)
        rows_file = ref.rows(0, "file")[:, 0]
        acc_m = hl.accepted_rows(out_m["_obj"], rows_file, spec["opts"].get("n_linear_samples", 1))
        acc_s = hl.accepted_rows(out_s["_obj"], rows_file, spec["opts"].get("n_linear_samples", 1))
        rel = "equal seeds => identical accepted prior samples on every path (Hist.accepted_set_path_independent)"
        inp = dict(spec=spec, N=N, processes=k, seed=seed)
        n_eval = len(out_m["lls"]["array"][1])
        ctx.evaluated(rel, ("mpool", spec["opts"].get("randomize_prior_order", False)) if acc_s and 0 < len(set(acc_s)) < n_eval else None)
        ctx.count("mpool:accepted-set-comparisons")
        if acc_m != acc_s or not same_bits(out_m["lls"]["array"][1], out_s["lls"]["array"][1]):
            ctx.violation(rel, g, inp, dict(accepted=acc_m), dict(accepted=acc_s), "multi-process pool with n_batches="
                          f"{spec['opts']['n_batches']} and serial pool must accept the same prior samples for equal seeds",
                          tags=dict(entry="rejection", pool="multi", relation="accepted-set"))


def rewrite_case(ctx, g):
    """History over ONE cache-file name whose content changes between calls: the user re-writes the same file with
    the same physical rows in other (valid) units, or with other rows.  Every call must return the values a fresh
    process-state-free evaluation gives for the file's *current* content (reference: the same content under a
    never-used file name, same route, so the comparison is bit for bit)."""
    import astropy.units as u
    import histlib as hl
    import thejoker as tj
    rng = ctx.case_rng("rewrite", g["index"])
    pr = hl.small_problem(rng)
    N = int(rng.integers(12, 30))
    libA, phys, _ = hl.library(rng, pr, N, internal_units=True)

    def reexpressed(lib):
        out = tj.JokerSamples(poly_trend=pr.p, n_offsets=pr.q)
        cu = dict(P=u.Unit(str(rng.choice(["yr", "hour", "day"]))), omega=u.Unit(str(rng.choice(["deg", "rad"]))),
                  M0=u.Unit(str(rng.choice(["deg", "rad"]))), s=u.Unit(str(rng.choice(["m/s", "km/s", "cm/s"]))))
        if cu["P"] == u.day and cu["omega"] == u.rad:
            cu["P"] = u.yr
        for nm in lib.par_names:
            out[nm] = lib[nm].to(cu[nm]) if nm in cu else lib[nm]
        return out, {k: str(v) for k, v in cu.items()}

    variants = [("canonical", libA, None)]
    libB, unitsB = reexpressed(libA)
    variants.append(("re-expressed", libB, unitsB))
    libC, _, _ = hl.library(rng, pr, N, internal_units=True)      # other rows, same units
    variants.append(("other-rows", libC, None))
    libD, unitsD = reexpressed(libC)
    variants.append(("other-rows re-expressed", libD, unitsD))
    order = [0, 1, 2, 0, 3, 1][: (6 if ctx.thorough else 4)]
    rel = "a cache file re-written under the same name is read as its current content, whatever was read from that name before"
    with hl.Scratch("c05rw") as sc:
        j = pr.joker(rng=np.random.default_rng(hl.seed_of(rng)))
        same = os.path.join(sc.userdir, "library.hdf5")
        for step, vi in enumerate(order):
            name, lib, units = variants[vi]
            lib.write(same, overwrite=True)
            nb = int(rng.integers(1, 4))
            got = np.asarray(j.marginal_ln_likelihood(pr.data, same, n_batches=nb))
            fresh_name = os.path.join(sc.userdir, f"fresh_{step}.hdf5")
            lib.write(fresh_name, overwrite=True)
            want = np.asarray(pr.joker(rng=np.random.default_rng(0)).marginal_ln_likelihood(pr.data, fresh_name))
            ctx.evaluated(rel, ("rewrite", g["index"], step) if step > 0 and distinct(want) else None,
                          sample=dict(step=step, content=name, units=units, got=got[:3], want=want[:3]) if step == 1 else None)
            ctx.count("rewrite:steps")
            if units is not None and step > 0:
                ctx.count("rewrite:unit-change")
            if not same_bits(got, want):
                ctx.violation(rel, g, dict(step=step, order=[variants[k][0] for k in order[: step + 1]], units=units, N=N, n_batches=nb,
                                           problem=dict(p=pr.p, q=pr.q, K=pr.desc["K"]["kind"])),
                              dict(lls=got[:8]), dict(lls=want[:8]),
                              "marginal ln-likelihood through a cache file must not depend on what was read from the same file "
                              "name earlier (call history)", tags=dict(relation="rewrite", content=name))
                return
            # the samplers on the same name, with the log-probabilities attached: every column of the returned table
            # (incl. ln_prior / ln_likelihood, which are read back from the file) must be what the file holds NOW
            route = str(rng.choice(["rejection", "iterative", "none"], p=[0.5, 0.4, 0.1]))
            if route == "none":
                continue
            sd = hl.seed_of(rng)
            kw = dict(return_logprobs=True)
            if rng.random() < 0.4:
                kw["n_linear_samples"] = 2
            if rng.random() < 0.3:
                kw["randomize_prior_order"] = True

            def call(jk, path):
                if route == "rejection":
                    return jk.rejection_sample(pr.data, path, n_batches=nb, **kw)
                return jk.iterative_rejection_sample(pr.data, path, n_requested_samples=int(max(1, N // 4)),
                                                     init_batch_size=int(max(2, N // 3)), **kw)
            try:
                got_s = call(pr.joker(rng=np.random.default_rng(sd)), same)
                want_s = call(pr.joker(rng=np.random.default_rng(sd)), fresh_name)
            except Exception as e:
                raise core.Infra(f"rewrite: sampler call failed: {e!r}")
            ctx.count(f"rewrite:sampler:{route}")
            if step > 0:
                ctx.count("rewrite:sampler-after-rewrite")
            bad = None
            if got_s.tbl.colnames != want_s.tbl.colnames or len(got_s) != len(want_s):
                bad = f"columns/rows {got_s.tbl.colnames} x {len(got_s)} vs {want_s.tbl.colnames} x {len(want_s)}"
            else:
                for nm in want_s.tbl.colnames:
                    a, b = got_s[nm], want_s[nm]
                    if getattr(a, "unit", None) != getattr(b, "unit", None) or not same_bits(np.asarray(getattr(a, "value", a)),
                                                                                             np.asarray(getattr(b, "value", b))):
                        bad = f"column {nm} differs (first values {np.asarray(getattr(a, 'value', a))[:3]} vs {np.asarray(getattr(b, 'value', b))[:3]})"
                        break
            ctx.evaluated(rel, ("rewrite-sampler", g["index"], step) if step > 0 else None)
            if bad is not None:
                ctx.violation(rel, g, dict(step=step, order=[variants[k][0] for k in order[: step + 1]], units=units, N=N, n_batches=nb,
                                           sampler=route, options=kw, seed=sd,
                                           problem=dict(p=pr.p, q=pr.q, K=pr.desc["K"]["kind"])),
                              dict(rows=len(got_s)), dict(rows=len(want_s)),
                              f"{route} sampling (return_logprobs) through a cache file re-written under the same name must equal "
                              "the same call on the same content under a never-used name (equal seeds): " + bad,
                              tags=dict(relation="rewrite-sampler", content=name, sampler=route))
                return


def run_case(ctx, g):
    import time
    t0 = time.time()
    ctx.seed = g.get("seed", ctx.seed)
    try:
        dict(readset=readset_case, history=history_case, paths=paths_case, mpool=mpool_case, rewrite=rewrite_case)[g["kind"]](ctx, g)
    finally:
        w = ctx.extra.setdefault("wall_by_kind", {})
        w[g["kind"]] = round(w.get(g["kind"], 0) + time.time() - t0, 2)


def post(ctx):
    ctx.rule = RULE
    c = ctx.counters
    ctx.extra["exhaustive"] = False
    ctx.assumptions = [
        "the kernel is observed through the source twin translated from the current fast_likelihood.pyx; the helper's "
        "array attributes are the twin's numpy arrays (typed memoryviews in the compiled class)",
        "OS process scheduling and dill pickling of pymc objects are exercised (MultiPool), not modelled",
        "pristine reference = a newly constructed helper per row; libraries in foreign units are compared per conversion "
        "route (pack vs read_batch), bit for bit",
    ]
    ctx.require("read-set cases", c["readset:cases"], 6)
    ctx.require("scratch cells poisoned per case (avg >= 20)", c["readset:scratch-cells"], 20 * max(1, c["readset:cases"]))
    ctx.require("poisoned marginal steps", c["readset:poisoned-marg"], 40)
    ctx.require("poisoned posterior steps", c["readset:poisoned-post"], 25)
    ctx.require("read-set with FixedCompanionMass K prior", c["readset:K=fcm"], 3)
    ctx.require("read-set with Normal K prior", c["readset:K=normal"], 1)
    ctx.require("history calls on the cache-file route", sum(v for k, v in c.items() if k.startswith("history:") and k.endswith(":file")), 20)
    ctx.require("history calls on the in-memory route", sum(v for k, v in c.items() if k.startswith("history:") and k.endswith(":mem")), 5)
    ctx.require("history calls on the second data set", c["history:data1"], 8)
    ctx.require("history calls on a library in foreign units", c["history:foreign-units-calls"], 10)
    for e in ("marginal", "rejection", "iterative"):
        ctx.require(f"in-memory {e} calls on a library in foreign units", c[f"history:foreign-units-inmem:{e}"], 2)
    ctx.require("non-trivial likelihood comparisons", c["lls-compared-nontrivial"], 500)
    ctx.require("accepted-set comparisons with 0 < accepted < evaluated", c["paths:nontrivial"], 12)
    ctx.require("in-memory vs cache accepted-set comparisons", c["paths:rejection:mem"] + c["paths:iterative:mem"], 2)
    ctx.require("in-memory vs cache accepted-set comparisons of a second call on the same TheJoker",
                c["paths-second-call:rejection:mem"] + c["paths-second-call:iterative:mem"], 2)
    ctx.require("iterative cases needing >= 2 rounds", c["paths:iterative-multi-round"], 2)
    ctx.require("same-name cache file re-written in other units between calls", c["rewrite:unit-change"], 4)
    ctx.require("sampler with log-probabilities on a re-written cache file", c["rewrite:sampler-after-rewrite"], 6)
    ctx.require("float32 libraries in foreign units (in memory vs cache)", c["paths:float32 library in foreign units"], 1)
    ctx.require("in-memory path compared under n_prior_samples / max_prior_samples / randomize_prior_order",
                c["paths:in-memory variant with n_prior_samples / max_prior_samples / randomize_prior_order"], 3)
    ctx.require("multi-process marginal calls", c["mpool:marginal-calls"], 6)
    ctx.require("multi-process accepted-set comparisons", c["mpool:accepted-set-comparisons"], 2)
