"""C03 - linear parameters are drawn from the exact conditional posterior N(a, A).

Observables: the (mean, cov, size) arguments the sampler hands to Generator.multivariate_normal (recorded by a
recording Generator; for the file/pool path the child generators of each task are recording too), and the returned
table.  Oracle: exact rational (a, A) from the *declared* problem (same jitter-inflated covariance, same prior,
K-variance rule including the cap).  Relations:
  R1 post.params   recorded (mean, cov) ~ exact (a, A)     (tolerance scaled by cond(A^-1))
  R2 post.emit     returned linear columns are bit-identical to the recorded draws, column j <-> design column j,
                   n_linear_samples consecutive rows per accepted sample, nonlinear columns = the accepted library row
  M  model.sanity  Lean Q model (a, A) == exact oracle on the model's own inputs"""
import tempfile
from fractions import Fraction as F

import numpy as np

import core
import kern
import oracle
import rec
import scen

NEEDS_KERNEL = True
R1, R2 = "post.params~(a,A)", "post.emit=draws"
R3 = "kernel.a,A(exact twin)=Lean Q model"
RULE = ("random problems x hand-built libraries, in-memory and file/pool paths, n_linear_samples 1..4; non-trivial iff "
        "un-capping lambda_K or dropping the jitter in the oracle moves (a, A) by > 100x tolerance (measured)")


def plan(ctx):
    return [("post", i) for i in range(150 if ctx.thorough else 22)]


def linear_names(pr):
    return ["K", "v0"] + [f"dv0_{j+1}" for j in range(pr.q)] + [f"v{l}" for l in range(1, pr.p)]


def fstr(q):
    q = F(q)
    return f"{q.numerator}/{q.denominator}"


_hx = {}


def exact_a_vs_lean(ctx, g, pr, th, inp):
    """R3: posterior mean / covariance left in the exact twin's work arrays by likelihood_worker(1) must equal the
    Lean Q model's (a, A) computed from the helper's own inputs (pure model<->code tie: ctx.mismatch)"""
    import exact
    if id(pr) not in _hx:
        _hx.clear()
        _hx[id(pr)] = kern.exact_helper(pr)
    hx = _hx[id(pr)]
    need = ["M_T", "rv", "ivar", "mu", "Lambda", "A", "a", "n_linear", "n_times", "test_likelihood_worker"]
    if not all(hasattr(hx, nm) for nm in need):
        ctx.count("buffers_unavailable")
        return
    row = np.array([th["P"], th["e"], th["omega"], th["M0"], th["s"]])
    try:
        hx.test_likelihood_worker(exact.farr(row))
    except ZeroDivisionError:
        return
    n, k = int(hx.n_times), int(hx.n_linear)
    MT = np.asarray(hx.M_T)
    m = ctx.model({"op": "kernel.evalq", "n": n, "k": k,
                   "M": [fstr(MT[j, i]) for i in range(n) for j in range(k)], "y": [fstr(v) for v in np.asarray(hx.rv)],
                   "ivar": [fstr(v) for v in np.asarray(hx.ivar)], "s": fstr(F(float(row[4]))),
                   "mu": [fstr(v) for v in np.asarray(hx.mu)[:k]], "lam": [fstr(v) for v in np.asarray(hx.Lambda)[:k]]})
    if "singular" in m:
        return
    diffs = []
    if any(F(v) != core.rat(w) for v, w in zip(np.asarray(hx.a), m["a"])):
        diffs.append("a")
    A = np.asarray(hx.A)
    if any(F(A[i, j]) != core.rat(m["A"][i][j]) for i in range(k) for j in range(k)):
        diffs.append("A")
    ctx.evaluated(R3, ("buf", g["index"], tuple(row)))
    if diffs:
        ctx.mismatch(R3, g, inp, dict(differing=diffs), None,
                     "a, A of the exact-mode kernel twin must equal the Lean model's as rationals")


def run_case(ctx, g):
    import astropy.units as u
    ctx.seed = g.get("seed", ctx.seed)
    rng = ctx.case_rng(g["kind"], g["index"])
    weak = rng.random() < 0.3
    pr = scen.make_problem(rng, n=int(rng.integers(1, 11)), cap=bool(rng.random() < 0.5),
                           err_scale=(float(10 ** rng.uniform(0.5, 1.5)) if weak else None))
    c = kern.canon(pr)
    N = 24
    lib, phys = scen.make_library(rng, pr, N)
    L = int(rng.integers(1, 5))
    path = str(rng.choice(["mem", "file"]))
    d = pr.desc
    ctx.count("path=" + path); ctx.count(f"L={L}"); ctx.count("K=" + d["K"]["kind"]); ctx.count(f"q={pr.q}")
    if weak:
        ctx.count("weak_data")
    gen = rec.RecGen(int(rng.integers(0, 2**31)))
    if path == "mem":
        jk = pr.joker(rng=gen)
        out = jk.rejection_sample(pr.data, lib, n_linear_samples=L, in_memory=True)
        mvn = gen.of("multivariate_normal")
    else:
        pool = rec.RecPool(size=int(rng.integers(1, 4)))
        with tempfile.TemporaryDirectory(prefix="verif_c03_") as td:
            jk = pr.joker(rng=gen, pool=pool, tempfile_path=td)
            out = jk.rejection_sample(pr.data, lib, n_linear_samples=L, n_batches=int(rng.integers(1, 4)))
        mvn = []
        for m in pool.maps:
            for ch in m["children"]:
                mvn += ch.of("multivariate_normal")
    names = linear_names(pr)
    du = pr.data_unit
    ret_P = out["P"].to_value(u.day)
    n_acc = len(mvn)
    inp0 = dict(problem=dict(p=pr.p, q=pr.q, n=c["n"], desc=d, data_form=str(pr.keys), surveys=[
        dict(unit=s["unit"], t=s["t"], rv=s["rv"], err=s["err"]) for s in pr.surveys]), L=L, path=path, lib_units=phys["units"])
    tags0 = dict(p=pr.p, q=pr.q, K=d["K"]["kind"], path=path)
    if len(out) != n_acc * L:
        ctx.evaluated(R2, None)
        ctx.violation(R2, g, inp0, dict(rows=len(out), mvn_calls=n_acc, L=L), None,
                      "each accepted sample must yield exactly n_linear_samples consecutive rows", tags=tags0)
        return
    for r, call in enumerate(mvn):
        mean, cov = np.array(call["args"][0], dtype=float), np.array(call["args"][1], dtype=float)
        draws = np.array(call["out"], dtype=float).reshape(L, -1)
        size = call["kwargs"].get("size", call["args"][2] if len(call["args"]) > 2 else None)
        # which library row is this?  (returned nonlinear columns must be those of one library row)
        i = int(np.argmin(np.abs(phys["P"] - ret_P[r * L]) / phys["P"]))
        th = kern.theta_of(phys, i)
        inp = dict(inp0, theta=th, row=i)
        # ---- R2: emission layout ----
        ok_emit = None
        block = slice(r * L, (r + 1) * L)
        for name, ref, unit in [("P", th["P"], u.day), ("e", th["e"], u.one), ("omega", th["omega"], u.rad),
                                ("M0", th["M0"], u.rad), ("s", th["s"], du)]:
            got = np.atleast_1d(out[name].to_value(unit))[block]
            if not np.all(np.abs(got - ref) <= 4e-16 * max(abs(ref), 1e-300) * 8 + (0 if ref else 1e-300)):
                ok_emit = f"nonlinear column {name}: {got.tolist()} is not the library value {ref}"
        for j, name in enumerate(names):
            unit = du if not name.startswith("v") or name == "v0" else du / u.day ** int(name[1:])
            got = np.atleast_1d(out[name].to_value(unit))[block]
            if not np.array_equal(got, draws[:, j]):
                ok_emit = ok_emit or f"linear column {name} (design column {j}) != recorded draws: {got.tolist()} vs {draws[:, j].tolist()}"
        if size != L:
            ok_emit = ok_emit or f"size argument {size} != n_linear_samples {L}"
        ctx.evaluated(R2, (g["index"], r), sample=dict(theta=th, L=L, path=path, draws=draws[:1].tolist()) if r == 0 else None)
        if ok_emit:
            ctx.violation(R2, g, inp, dict(returned={nm: np.atleast_1d(out[nm].value)[block] for nm in out.par_names}),
                          dict(draws=draws), "draws are emitted unaltered in design-matrix column order and units with an "
                          "unchanged copy of the nonlinear parameters: " + ok_emit, tags=tags0)
        # ---- R1: parameters of the distribution ----
        M = kern.design(pr, c, th)
        var = kern.var_exact(c, th["s"])
        lam = kern.lam_exact(pr, c, th)
        mu = [F(float(v)) for v in c["mu"]]
        post = oracle.posterior(M, c["y"], var, mu, lam)
        if post is None:
            ctx.count("oracle_singular")
            continue
        a = np.array([float(v) for v in post["a"]])
        A = np.array([[float(v) for v in row] for row in post["A"]])
        cA, _ = oracle.conds(M, [float(v) for v in var], [float(v) for v in lam])
        epsc = 50 * 2.2e-16 * cA + 1e-11
        sd = np.sqrt(np.diag(A))
        bad = None
        if mean.shape != a.shape or cov.shape != A.shape:
            bad = f"shape {mean.shape}/{cov.shape}"
        else:
            em = np.max(np.abs(mean - a) / (np.abs(a) + sd))
            ec = np.max(np.abs(cov - A) / np.outer(sd, sd))
            mg = ctx.extra.setdefault("margins", dict(max_err_over_tol=0.0))
            mg["max_err_over_tol"] = max(mg["max_err_over_tol"], float(max(em, ec) / epsc))
            if not (em <= epsc and ec <= epsc):
                bad = f"relative deviation mean {em:.3g}, cov {ec:.3g} > {epsc:.3g} (cond A^-1 = {cA:.3g})"
        # non-triviality (measured): would the un-capped / un-jittered posterior differ?
        key = None
        if r < 3:
            K = d["K"]
            if K["kind"] == "fcm":
                s0, P0, mk = pr.fcm()
                unc = F(s0) ** 2 / (1 - F(th["e"]) ** 2) * F(float(np.float64(th["P"]) / np.float64(P0)) ** (-2 / 3.))
                if unc != lam[0]:
                    p2 = oracle.posterior(M, c["y"], var, mu, [unc] + list(lam[1:]))
                    A2 = np.array([[float(v) for v in row] for row in p2["A"]])
                    if np.max(np.abs(A2 - A) / np.outer(sd, sd)) > 100 * epsc:
                        ctx.count("discriminates:cap"); key = (g["index"], r)
            if th["s"] > 0:
                p3 = oracle.posterior(M, c["y"], kern.var_exact(c, 0.0), mu, lam)
                A3 = np.array([[float(v) for v in row] for row in p3["A"]])
                if np.max(np.abs(A3 - A) / np.outer(sd, sd)) > 100 * epsc:
                    ctx.count("discriminates:jitter"); key = (g["index"], r)
            # model sanity: Lean Q model on its own inputs
            iv = np.array([1.0 / float(v) ** 2 for v in c["sigma"]])
            lam_d = np.array([float(v) for v in lam])
            mres = kern.lean_eval(ctx, M, c["y"], iv, th["s"], c["mu"], lam_d)
            if "singular" not in mres:
                var_m = [1 / F(float(v)) + F(th["s"]) ** 2 for v in iv]
                pm = oracle.posterior(M, c["y"], var_m, mu, [F(float(v)) for v in lam_d])
                ctx.count("model_sanity_checks")
                if [core.rat(v) for v in mres["a"]] != pm["a"] or [[core.rat(v) for v in row] for row in mres["A"]] != pm["A"]:
                    raise core.Infra(f"Lean kernel model (a, A) disagrees with the exact oracle (case {g}, row {i})")
        if r < 2:
            exact_a_vs_lean(ctx, g, pr, th, inp)
        ctx.evaluated(R1, key, sample=dict(theta=th, mean=mean, a=a) if r == 0 else None)
        if bad:
            ctx.violation(R1, g, inp, dict(mean=mean, cov=cov), dict(a=a, A=A, tol=epsc),
                          "linear parameters must be drawn from N(a, A), A = (Lambda^-1 + M^T C_s^-1 M)^-1, "
                          "a = A (Lambda^-1 mu + M^T C_s^-1 y), same C_s and prior (incl. the K cap) as the marginal "
                          "likelihood: " + bad, tags=dict(tags0, cap=(key is not None)))


def post(ctx):
    ctx.rule = RULE
    c = ctx.counters
    if not ctx.replay_mode:
        ctx.require("cap-discriminating cases", c["discriminates:cap"], 3)
        ctx.require("jitter-discriminating cases", c["discriminates:jitter"], 3)
        ctx.require("file/pool path cases", c["path=file"], 3)
        ctx.require("in-memory path cases", c["path=mem"], 3)
        ctx.require("weakly informative data", c["weak_data"], 2)
        ctx.require("model sanity checks", c["model_sanity_checks"], 10)
