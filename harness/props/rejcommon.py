"""Shared machinery of the C02 / C06 / C14 correspondences (rejection step, logprob columns, iterative sampler).

* problems + hand-built libraries with distinct, recognisable rows (canonical units, so that "bit-identical to
  the library row" is meaningful: every unit conversion on the way is a multiplication by exactly 1.0);
* a thin proxy around the real CJokerHelper whose ``batch_marginal_ln_likelihood`` returns an *engineered*
  likelihood profile as a function of the row's P value (or the real value, recorded) and logs which rows were
  evaluated, in which order, interleaved with the draws logged by the recording generator;
* an oracle for the acceptance rule in 60-digit decimal arithmetic that is independent of the Lean model;
* canonicalisation of what the samplers return.

thejoker is only imported inside functions (check.py installs the source twin first)."""
import contextlib
import decimal
import os
import shutil
import tempfile

import numpy as np

import core
import rec
import scen

D = decimal.Decimal
_CTX = decimal.Context(prec=60, Emin=-999999999, Emax=999999999)
NONLIN = ("P", "e", "omega", "M0", "s")


# ------------------------------------------------------------------------------------------------
# scratch directory (everything the samplers write goes here; removed in cleanup())

_scratch = {"dir": None, "old_tmp": None}


def scratch_dir():
    if _scratch["dir"] is None:
        base = os.path.join(core.VERIF, ".scratch")
        os.makedirs(base, exist_ok=True)
        _scratch["dir"] = tempfile.mkdtemp(prefix=f"rej-{os.getpid()}-", dir=base)
        _scratch["old_tmp"] = tempfile.tempdir
        tempfile.tempdir = _scratch["dir"]      # NamedTemporaryFile in tempfile_decorator lands here
    return _scratch["dir"]


def cleanup():
    if _scratch["dir"] is not None:
        tempfile.tempdir = _scratch["old_tmp"]
        shutil.rmtree(_scratch["dir"], ignore_errors=True)
        _scratch["dir"] = None
    base = os.path.join(core.VERIF, ".scratch")
    try:
        os.rmdir(base)
    except OSError:
        pass


# ------------------------------------------------------------------------------------------------
# problems and libraries

PROBLEM_SHAPES = [
    dict(p=1, q=0, K_kind="fcm", s_kind="zero"),
    dict(p=2, q=1, K_kind="normal", s_kind="const"),
    dict(p=1, q=1, K_kind="fcm", s_kind="sampled"),
    dict(p=3, q=0, K_kind="fcm", s_kind="const"),
]
_problems = {}


def problem(ctx, k):
    """problem number k of this seed (deterministic in (seed, k); cached)"""
    key = (ctx.seed, k)
    if key not in _problems:
        rng = np.random.default_rng(np.random.SeedSequence([ctx.seed, 0xC0FFEE, k]))
        sh = PROBLEM_SHAPES[k % len(PROBLEM_SHAPES)]
        _problems[key] = scen.make_problem(rng, n=int(rng.integers(5, 10)), units="canonical", means=False, cap=False,
                                           err_scale=0.3, **sh)
    return _problems[key]


class Library:
    """N distinct rows; cols = float64 arrays in internal units; lnp = recognisable ln_prior values"""

    def __init__(self, rng, pr, N, with_ln_prior=True, foreign=False):
        """foreign=True stores the columns in other (valid) units than the kernel's internal ones: the sampler then
        has to convert them (pack / read_batch) and "the values of one evaluated prior sample" is checked physically,
        to 4 ulp, instead of bit for bit"""
        self.foreign = bool(foreign)
        for _ in range(20):
            samples, phys = scen.make_library(rng, pr, N, units="canonical", ln_prior=False)
            if len(set(core.bits_list(phys["P"]))) == N:
                break
        else:
            raise core.Infra("could not build a library with distinct periods")
        self.N = N
        self.pr = pr
        if self.foreign:
            import astropy.units as u
            import thejoker as tj
            internal = dict(P=u.day, e=u.one, omega=u.rad, M0=u.rad, s=pr.data_unit)
            store = dict(P=u.Unit(str(rng.choice(["yr", "hour"]))), e=u.one, omega=u.Unit(str(rng.choice(["deg", "rad"]))),
                         M0=u.deg, s=u.Unit("m/s") if pr.data_unit != u.Unit("m/s") else u.Unit("km/s"))
            conv = tj.JokerSamples(poly_trend=pr.p, n_offsets=pr.q)
            for k in NONLIN:
                conv[k] = samples[k].to(store[k])
            samples = conv
            # the physical value of a stored column is what a correct conversion back gives
            phys = {k: np.asarray(samples[k].to_value(internal[k]), dtype="f8") for k in NONLIN}
            self.store_units = {k: str(v) for k, v in store.items()}
        self.cols = {k: np.array(phys[k], dtype="f8") for k in NONLIN}
        # recognisable, pairwise distinct, not monotone in the row number
        self.lnp = np.array([((j * 7919) % 10007) + 0.25 + j * 1e-3 for j in range(N)], dtype="f8")
        self.lnp_unit = None
        if with_ln_prior:
            samples["ln_prior"] = self.lnp.copy()
            if self.foreign and rng.random() < 0.5:
                # a user-attached ln_prior that carries a scaled dimensionless unit (what e.g. -0.5*((P - 40 d)/(0.1 yr))**2 is:
                # astropy never reduces d2/yr2 by itself); the scale is a power of two, so the stored number is exact
                import astropy.units as u
                samples["ln_prior"] = (self.lnp / 1024.0) * u.Unit(1024 * u.one)
                self.lnp_unit = "1024"
        self.samples = samples
        self.has_lnp = with_ln_prior
        self.row_of = {core.bits(p): j for j, p in enumerate(self.cols["P"])}
        self._file = None

    def find_row(self, p):
        """library row whose period is p (bit-identical, or - for libraries in foreign units, where the two
        conversion routes may differ by an ulp - the unique row within 1e-13 relative)"""
        j = self.row_of.get(core.bits(p), -1)
        if j >= 0 or not self.foreign:
            return j
        P = self.cols["P"]
        k = int(np.argmin(np.abs(P - p)))
        return k if abs(P[k] - p) <= 1e-13 * abs(P[k]) else -1

    def same_value(self, k, got, j):
        want = self.cols[k][j]
        if core.bits(got) == core.bits(want):
            return True
        return self.foreign and abs(got - want) <= 9e-16 * abs(want)

    def filename(self):
        if self._file is None:
            self._file = os.path.join(scratch_dir(), f"lib-{id(self)}.hdf5")
            self.samples.write(self._file, overwrite=True)
        return self._file

    def drop_file(self):
        if self._file is not None and os.path.exists(self._file):
            os.unlink(self._file)
        self._file = None


# ------------------------------------------------------------------------------------------------
# likelihood profiles (ln-likelihood per library row)

def make_profile(rng, kind, N):
    off = float(rng.choice([0.0, -17.25, -1234.5, 88.125]))
    if kind == "flat":
        ll = np.full(N, off)
    elif kind == "spike":
        ll = off - rng.uniform(30.0, 900.0, N)
        ll[int(rng.integers(0, N))] = off
    elif kind == "ties":
        vals = off - np.array([0.0, 0.0, 0.5, 1.0, 3.0, 8.0])
        ll = rng.choice(vals, size=N)
        k = min(N, int(rng.integers(1, 4)))
        ll[rng.choice(N, size=k, replace=False)] = off        # at least one (often several) rows tied at the maximum
    elif kind == "neginf":
        ll = off - rng.exponential(2.0, N)
        m = rng.random(N) < 0.35
        ll[m] = -np.inf
        ll[int(rng.integers(0, N))] = off - float(rng.exponential(1.0))   # at least one finite value
    elif kind == "graded":
        ll = off - rng.exponential(float(rng.choice([0.3, 2.0, 6.0])), N)
    elif kind == "sparse":     # few good rows among hopeless ones (drives the iterative sampler's growth)
        ll = off - 40.0 - rng.uniform(0, 5, N)
        rho = float(rng.choice([0.01, 0.03, 0.1]))
        m = rng.random(N) < rho
        ll[m] = off - rng.exponential(0.7, int(m.sum()))
        ll[int(rng.integers(0, max(1, N // 8)))] = off
    else:
        raise ValueError(kind)
    return np.array(ll, dtype="f8")


class Proxy:
    """thin wrapper around the real helper; only the marginal likelihood is intercepted"""

    def __init__(self, real, lib, profile, log):
        self._real, self._lib, self._profile, self._log = real, lib, profile, log

    def __getattr__(self, k):
        return getattr(self._real, k)

    def batch_marginal_ln_likelihood(self, chunk):
        chunk = np.asarray(chunk)
        rows = [self._lib.find_row(p) for p in chunk[:, 0]]
        real = None
        if self._profile is None or any(r < 0 for r in rows):
            real = np.array(self._real.batch_marginal_ln_likelihood(np.ascontiguousarray(chunk, dtype="f8")))
        if self._profile is None:
            out = real
        else:
            out = np.array([self._profile[r] if r >= 0 else real[i] for i, r in enumerate(rows)], dtype="f8")
        self._log.append(dict(method="ll", rows=rows, chunk=chunk.copy(), out=np.array(out, copy=True)))
        return out


@contextlib.contextmanager
def proxied(lib, profile, log):
    import thejoker as tj
    orig = tj.TheJoker._make_joker_helper

    def mk(self, data):
        return Proxy(orig(self, data), lib, profile, log)

    tj.TheJoker._make_joker_helper = mk
    try:
        yield
    finally:
        tj.TheJoker._make_joker_helper = orig


class CraftGen(rec.RecGen):
    """recording generator whose uniform draws can be overwritten at chosen positions with legal values of
    uniform[0,1) (used to place u = 0.0 on rows with ln-likelihood -inf)"""

    def __new__(cls, seed=0, craft=None):
        return super().__new__(cls, seed)

    def __init__(self, seed=0, craft=None):
        super().__init__(seed)
        self.craft = craft

    def uniform(self, *a, **k):
        out = np.random.Generator.uniform(self, *a, **k)
        if self.craft is not None:
            out = self.craft(self, np.array(out, copy=True))
        self._log("uniform", a, k, out)
        return out

    def random(self, *a, **k):
        out = np.random.Generator.random(self, *a, **k)
        if self.craft is not None and np.ndim(out) == 1:
            out = self.craft(self, np.array(out, copy=True))
        self._log("random", a, k, out)
        return out


def run_call(pr, lib, profile, gen, method, kwargs, pool=None, source="object"):
    """run TheJoker.<method>(data, prior_samples, **kwargs) on the proxied helper; returns (result | exception, raised?)
    The event log (draws of `gen` + evaluations of the helper, interleaved) is gen.calls."""
    scratch_dir()
    j = pr.joker(rng=gen, pool=pool, tempfile_path=scratch_dir())
    prior_samples = lib.filename() if source == "file" else lib.samples
    with proxied(lib, profile, gen.calls):
        try:
            return getattr(j, method)(pr.data, prior_samples, **kwargs), False
        except Exception as e:  # noqa: BLE001  (an exception is an observation)
            return e, True


# ------------------------------------------------------------------------------------------------
# observations

def split_events(events):
    """rounds = [(rows evaluated (list), uniforms (array) | None)], choice outputs, other notes"""
    rounds, cur, choices, uniforms = [], [], [], []
    for c in events:
        m = c["method"]
        if m == "ll":
            cur += list(c["rows"])
        elif m in ("uniform", "random"):
            ok = True
            if m == "uniform":
                a, k = c["args"], c["kwargs"]
                lo = a[0] if len(a) > 0 else k.get("low", 0.0)
                hi = a[1] if len(a) > 1 else k.get("high", 1.0)
                ok = (lo == 0.0 and hi == 1.0)
            rounds.append((cur, np.atleast_1d(np.array(c["out"], dtype="f8")) if ok else None))
            uniforms.append(c)
            cur = []
        elif m == "choice":
            choices.append(c)
    tail = cur     # evaluations after the last uniform draw (a guard fired / an exception)
    return rounds, tail, choices


def table_rows(lib, s, n_linear):
    """canonicalise a returned JokerSamples: list of library row numbers (one per nonlinear sample) or a
    description of what is wrong with the table"""
    import astropy.units as u
    names = s.tbl.colnames
    for k in NONLIN:
        if k not in names:
            return None, f"column {k} missing"
    n = len(s)
    arr = {}
    units = dict(P=u.day, e=u.one, omega=u.rad, M0=u.rad, s=lib.pr.data_unit)
    for k in NONLIN:
        col = s[k]
        arr[k] = np.atleast_1d(np.asarray(col.to_value(units[k]) if hasattr(col, "to_value") else col, dtype="f8"))
    if n_linear < 1 or n % n_linear != 0:
        return None, f"{n} rows is not a multiple of n_linear_samples={n_linear}"
    rows = []
    for r in range(n):
        j = lib.find_row(arr["P"][r])
        if j < 0:
            return None, f"returned row {r}: P={arr['P'][r]!r} is not the P of any library row (modified or invented)"
        for k in NONLIN:
            if not lib.same_value(k, arr[k][r], j):
                return None, (f"returned row {r}: {k}={arr[k][r]!r} differs from library row {j} "
                              f"({lib.cols[k][j]!r}) that has its P")
        rows.append(j)
    groups = []
    for g in range(n // n_linear):
        blk = rows[g * n_linear:(g + 1) * n_linear]
        if len(set(blk)) != 1:
            return None, f"rows {g*n_linear}..{(g+1)*n_linear-1} are not {n_linear} copies of one nonlinear sample: {blk}"
        groups.append(blk[0])
    return groups, None


# ------------------------------------------------------------------------------------------------
# the acceptance rule, decided in 60-digit decimal arithmetic (independent of the Lean model)

def decide(ll, m, u):
    """True / False = exp(ll - m) > u decided with margin; None = borderline (within the round-off of the float
    computation fl(exp(fl(ll - m))) the code performs: relative (|d| + 8) * 2^-52, or both sides below 1e-300)."""
    if ll == -np.inf:
        return bool(0.0 > u)          # exp(-inf) is exactly 0
    if not (np.isfinite(ll) and np.isfinite(m) and np.isfinite(u)):
        raise ValueError("decide: outside the domain of the rule")
    d = _CTX.subtract(D(float(ll)), D(float(m)))
    E = _CTX.exp(d)
    U = D(float(u))
    tiny = D("1e-300")
    if E < tiny and U < tiny:
        return None
    tol = (abs(d) + 8) * D(2) ** -52
    if abs(E - U) <= tol * max(E, U):
        return None
    return bool(E > U)


def oracle_accept(lls, uu):
    """(sure accepted positions, borderline positions) for the likelihoods / uniforms of one test"""
    finite = [x for x in lls if x != -np.inf]
    if not finite:
        raise ValueError("no finite likelihood")
    m = max(finite)
    sure, border = [], []
    for i, (l, u) in enumerate(zip(lls, uu)):
        r = decide(l, m, u)
        if r is None:
            border.append(i)
        elif r:
            sure.append(i)
    return sure, border


def consistent_selection(sure, border, k, observed):
    """is `observed` (list of positions) == first k of (sure + some subset of border, sorted)?"""
    if len(border) > 10:
        return None
    obs = list(observed)
    for mask in range(1 << len(border)):
        acc = sorted(sure + [b for i, b in enumerate(border) if mask >> i & 1])
        if (acc if k is None else acc[:k]) == obs:
            return True
    return False


def outcome(res, raised):
    """small enum for what a call produced"""
    import thejoker as tj
    if raised:
        if isinstance(res, ValueError):
            return "value"
        if isinstance(res, RuntimeError):
            return "runtime"
        return "raised:" + type(res).__name__
    if isinstance(res, tuple) and len(res) == 2 and isinstance(res[0], tj.JokerSamples):
        return "ok+all"
    if isinstance(res, tj.JokerSamples):
        return "ok"
    return "returned:" + type(res).__name__


def f8list(a):
    return [float(x) for x in np.asarray(a, dtype="f8").ravel()]


def hexlist(a):
    return [float(x).hex() for x in np.asarray(a, dtype="f8").ravel()]


# ------------------------------------------------------------------------------------------------
# reporting: keep the five VIOLATION lines of a run informative (at most two replays per distinct signature)

_sig_count = {}


def report(ctx, sig, *args, **kw):
    """ctx.violation, but after two reports with the same signature further ones are only counted (the run still
    fails: the first ones are kept).  Known-finding matching is unaffected (it happens inside ctx.violation)."""
    k = (ctx.prop, ctx.seed, sig)
    _sig_count[k] = _sig_count.get(k, 0) + 1
    if _sig_count[k] > 2 and any(v["verdict"] == "violation" for v in ctx.violations):
        ctx.count(f"further violations of the same kind (not listed): {sig}")
        return "suppressed"
    return ctx.violation(*args, **kw)
