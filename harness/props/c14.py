"""C14 - iterative rejection sampling respects request, budget and acceptance rule.

Tie: TheJoker.iterative_rejection_sample (in-memory, JokerSamples-through-tempfile, cache file) on libraries with
engineered likelihood profiles (sparse good rows => growth rounds; flat => no growth; spike => budget exhaustion;
NaN / +inf / -inf => the non-finite guard), recording generator + proxy around the helper give the observed trace
(rows evaluated per round, uniforms per round, the `choice` permutation).  The Lean machine Iter.iterativeSample
(growth policy := the observed batch sizes, then clamped by the model itself) replays the trace and must give the
same error class / batch boundaries / returned rows.  Independently of the model the property's predicate is
decided on the implementation's output: the call returned a JokerSamples or raised; too-small library raises;
evaluated rows <= max_prior_samples (or library size), valid and pairwise distinct; at most n_requested samples
with n_linear copies each, bit-identical to library rows; returned positions = first n_requested of the positions
accepted by the C02 rule over ALL evaluated likelihoods with the LAST round's uniforms (60-digit re-decision).

The growth policy is free (any batch size the code chooses is accepted as long as the budget is respected)."""
import numpy as np

import core
import rec
from props import rejcommon as rc

NEEDS_KERNEL = True
REL = "iterative_rejection_sample=Iter.iterativeSample"
KINDS = ["sparse", "sparse", "graded", "flat", "spike", "neginf", "nonfinite", "small"]
RULE = ("one case = library x profile x options x seed x path; non-trivial = at least one growth round or budget "
        "exhaustion or an error exit; distinct = distinct (kind, path, shuffle, #rounds bucket, exit kind, n_linear>1)")


def plan(ctx):
    n = 6000 if ctx.thorough else 360
    return [("it", i) for i in range(n)]


def gen_case(ctx, g, rng, logprobs=False, kinds=KINDS):
    index = g["index"]
    kind = kinds[index % len(kinds)]
    pr = rc.problem(ctx, index % len(rc.PROBLEM_SHAPES))
    big = ctx.thorough and rng.random() < 0.15
    N = int(rng.integers(50, 5001 if big else 601))
    foreign = bool(rng.random() < 0.35)
    lib = rc.Library(rng, pr, N, with_ln_prior=True, foreign=foreign)
    ctx.count('library_in_foreign_units' if foreign else 'library_in_internal_units')
    path = str(rng.choice(["inmem", "object", "file"], p=[0.4, 0.35, 0.25]))
    nonfinite = None
    if kind == "nonfinite":
        profile = rc.make_profile(rng, "graded", N)
        nonfinite = str(rng.choice(["nan", "posinf", "neginf"]))
        where = int(rng.integers(0, N)) if rng.random() < 0.5 else int(rng.integers(0, min(N, 12)))
        profile[where] = dict(nan=np.nan, posinf=np.inf, neginf=-np.inf)[nonfinite]
        if rng.random() < 0.3:
            profile[int(rng.integers(0, N))] = dict(nan=np.nan, posinf=np.inf, neginf=-np.inf)[nonfinite]
    elif kind == "small":
        profile = rc.make_profile(rng, "graded", N)
    else:
        profile = rc.make_profile(rng, kind, N)
    req = int(rng.integers(1, 65))
    if kind in ("sparse", "spike"):
        req = int(rng.integers(2, 25))
    kw = dict(n_requested_samples=req)
    # initial batch: explicit, or growth_factor * req
    growth = int(rng.choice([1, 2, 3, 5, 8, 16, 128]))
    if rng.random() < 0.6:
        init = int(rng.integers(1, max(2, N // 4)))
        kw["init_batch_size"] = init
    else:
        init = None
        if growth * req > N and rng.random() < 0.8:
            growth = max(1, N // (2 * req))
    kw["growth_factor"] = growth
    r = rng.random()
    if r < 0.4:
        max_prior = None
    elif r < 0.93:
        max_prior = int(rng.integers(max(1, N // 10), N + 1))
    else:
        max_prior = N + int(rng.integers(1, 50))       # larger than the library: predicate-only checks
    if kind == "small":                               # library / budget too small for the request
        budget = N if max_prior is None else min(max_prior, N)
        if init is not None:
            kw["init_batch_size"] = budget + int(rng.integers(1, 20))
        else:
            kw["growth_factor"] = budget // req + 1 + int(rng.integers(0, 3))
    kw["max_prior_samples"] = max_prior
    n_linear = int(rng.integers(1, 4))
    kw["n_linear_samples"] = n_linear
    shuffle = bool(rng.random() < 0.5)
    kw["randomize_prior_order"] = shuffle
    pool, n_batches = None, None
    if path != "inmem" and rng.random() < 0.4:
        pool = rec.RecPool(size=int(rng.integers(1, 5)))
        n_batches = None if rng.random() < 0.5 else int(rng.integers(1, 5))
    kw["n_batches"] = n_batches
    kw["in_memory"] = path == "inmem"
    if logprobs:
        kw["return_logprobs"] = True
    gseed = int(rng.integers(0, 2 ** 31))
    return dict(kind=kind, pr=pr, lib=lib, profile=profile, path=path, kw=kw, n_linear=n_linear, req=req,
                max_prior=max_prior, shuffle=shuffle, pool=pool, gseed=gseed, N=N, nonfinite=nonfinite)


def describe(c, extra=None):
    d = dict(profile=c["kind"], nonfinite=c["nonfinite"], path=c["path"], N=c["N"], options=dict(c["kw"]),
             pool=None if c["pool"] is None else dict(size=c["pool"].size), generator_seed=c["gseed"],
             problem=dict(p=c["pr"].p, q=c["pr"].q))
    if c["N"] <= 64:
        d["profile_ll_hex"] = rc.hexlist(c["profile"])
    if extra:
        d.update(extra)
    return d


def observe(c):
    """run the call; returns dict(res, raised, out, rounds, tail, choices)"""
    gen = rc.CraftGen(c["gseed"])
    source = "file" if c["path"] == "file" else "object"
    res, raised = rc.run_call(c["pr"], c["lib"], c["profile"], gen, "iterative_rejection_sample", c["kw"],
                              pool=c["pool"], source=source)
    rounds, tail, choices = rc.split_events(gen.calls)
    return dict(res=res, raised=raised, out=rc.outcome(res, raised), rounds=rounds, tail=tail, choices=choices)


def model_op(c, ob):
    kw = c["kw"]
    sizes = [len(r) for r, _ in ob["rounds"]] + ([len(ob["tail"])] if ob["tail"] else [])
    uus = [core.bits_list(u) if u is not None else [] for _, u in ob["rounds"]]
    idx = [int(v) for v in ob["choices"][-1]["out"]] if ob["choices"] else None
    if idx is None and c["shuffle"]:
        ev = [r for rr, _ in ob["rounds"] for r in rr] + list(ob["tail"])
        if ev != list(range(len(ev))) and len(set(ev)) == len(ev) and all(0 <= r < c["N"] for r in ev):
            # shuffled without a `choice` draw: the model takes the observed order (completed arbitrarily)
            seen = set(ev)
            idx = ev + [r for r in range(c["N"]) if r not in seen]
    return {"op": "iter.sample", "libLL": core.bits_list(c["profile"]), "lnp": core.bits_list(c["lib"].lnp),
            "req": c["req"], "maxPrior": c["max_prior"], "initBatch": kw.get("init_batch_size"),
            "growth": int(kw["growth_factor"]), "nLinear": c["n_linear"], "maxiter": 128,
            "guard": c["path"] == "inmem", "idx": idx, "sizes": sizes[1:], "uus": uus}


def run_case(ctx, g):
    ctx.seed = g.get("seed", ctx.seed)
    rng = ctx.case_rng(g["kind"], g["index"])
    c = gen_case(ctx, g, rng)
    try:
        prelude(ctx, g, c)
        _run(ctx, g, c)
    finally:
        c["lib"].drop_file()


def prelude(ctx, g, c):
    """call history in one process: before the case proper, the sampler is called once on ANOTHER library of the same size
    (same effective budget) whose likelihoods are all higher and which is evaluated deeply; state that survives between calls
    (module-level caches, workspaces keyed by size) would make the case proper judge against the wrong maximum"""
    prng = ctx.case_rng("it:prelude", g["index"])
    if prng.random() >= 0.4 or c["pool"] is not None:
        return
    N = c["N"]
    lib0 = rc.Library(prng, c["pr"], N, with_ln_prior=True)
    prof = np.asarray(c["profile"], dtype="f8")
    prof0 = np.where(np.isfinite(prof), prof, 0.0) + 40.0 + prng.uniform(0, 5, N)       # all finite, all higher
    kw0 = dict(n_requested_samples=max(1, N // 2), init_batch_size=max(1, N // 6), n_linear_samples=1,
               in_memory=c["path"] == "inmem")
    if c["kw"].get("max_prior_samples") is not None:
        kw0["max_prior_samples"] = c["kw"]["max_prior_samples"]
        if kw0["init_batch_size"] > kw0["max_prior_samples"]:
            kw0["init_batch_size"] = max(1, int(kw0["max_prior_samples"]) // 2)
    gen0 = rc.CraftGen(int(prng.integers(0, 2 ** 31)))
    res, raised = rc.run_call(c["pr"], lib0, prof0, gen0, "iterative_rejection_sample", kw0, pool=None,
                              source="object" if c["path"] != "file" else "file")
    lib0.drop_file()
    ctx.count(f"prelude: an earlier call on another library of the same size ({c['path']})" + (" (raised)" if raised else ""))


def _run(ctx, g, c):
    lib, N, kw, req = c["lib"], c["N"], c["kw"], c["req"]
    ob = observe(c)
    out, rounds, tail = ob["out"], ob["rounds"], ob["tail"]
    tags = dict(path=c["path"], profile=c["kind"], shuffle=c["shuffle"])
    if c["nonfinite"]:
        tags["nonfinite"] = c["nonfinite"]
    ctx.count(f"kind:{c['kind']}")
    ctx.count(f"path:{c['path']}")
    budget = N if c["max_prior"] is None else c["max_prior"]
    over = budget > N
    eff_budget = min(budget, N)
    init = kw.get("init_batch_size")
    init = kw["growth_factor"] * req if init is None else init
    evaluated = [r for rr, _ in rounds for r in rr] + list(tail)
    sizes = [len(r) for r, _ in rounds] + ([len(tail)] if tail else [])
    inp = describe(c, dict(budget=budget, init_batch=init, observed_batches=sizes[:40]))
    if ob["choices"] and N <= 64:
        inp["choice"] = [int(v) for v in ob["choices"][-1]["out"]]
    if rounds and len(evaluated) <= 64:
        inp["uniforms_hex_by_round"] = [None if u is None else rc.hexlist(u) for _, u in rounds]
    impl = dict(outcome=out, evaluated=len(evaluated), batches=sizes[:40],
                message=str(ob["res"])[:200] if out not in ("ok",) else None)

    def viol(what, extra_tags=None, model=None, impl_extra=None):
        t = dict(tags)
        t.update(extra_tags or {})
        i = dict(impl)
        i.update(impl_extra or {})
        rc.report(ctx, (what[:60], t.get("path"), t.get("returned")), REL, g, inp, i, model, what, tags=t)

    nonfin_seen = any(not np.isfinite(c["profile"][r]) for r in evaluated if 0 <= r < N)

    # ---- P1: a JokerSamples or a raised exception, nothing else
    if out.startswith("returned:") or out == "ok+all":
        ctx.evaluated(REL, (c["kind"], c["path"], "bad-return"))
        viol(f"every failure surfaces as a raised exception: the call never returns anything but a JokerSamples; "
             f"it returned {out[9:] if out.startswith('returned:') else 'a tuple'}: {str(ob['res'])[:160]}",
             extra_tags=dict(returned=out.split(':')[-1], in_memory=c["path"] == "inmem",
                             nonfinite_ll=bool(nonfin_seen)))
        return

    # ---- P3: budget and no row twice
    bad_rows = [r for r in evaluated if not (0 <= r < N)]
    if len(evaluated) > eff_budget or bad_rows or len(set(evaluated)) != len(evaluated):
        ctx.evaluated(REL, (c["kind"], c["path"], "budget"))
        why = (f"evaluated {len(evaluated)} prior samples with max_prior_samples={c['max_prior']} and a library of {N}"
               if len(evaluated) > eff_budget else
               ("evaluated a row that is not in the library" if bad_rows else "evaluated a library row twice"))
        viol("never evaluates more than max_prior_samples (or the library size) and never the same library row twice: "
             + why, extra_tags=dict(budget_exceeded=len(evaluated) > eff_budget, in_memory=c["path"] == "inmem"))
        return

    # ---- P2: a library (or budget) too small for the request raises
    if init > eff_budget and not over:
        ctx.count("exit:small-library")
        ctx.evaluated(REL, (c["kind"], c["path"], "small"), sample=dict(inp, outcome=out))
        if not ob["raised"]:
            viol("a library too small for the request (initial batch larger than max_prior_samples / the library) "
                 "makes it raise", extra_tags=dict(small_library=True))
            return
        m = ctx.model(model_op(c, ob))
        if out != "value" or m.get("err") != "value":
            ctx.mismatch(REL, g, inp, impl, m, "too-small library: ValueError on both sides", tags)
        return

    if over:
        ctx.count("max_prior_samples > library size (predicate-only)")
        # "never more than max_prior_samples (or the library size)": a budget above the library size is the library size
        if init <= N and out != "ok" and not nonfin_seen:
            ctx.evaluated(REL, (c["kind"], c["path"], "over-budget"))
            viol(f"max_prior_samples={c['max_prior']} above the library size {N} means 'the whole library': the request "
                 f"(initial batch {init} <= {N}) must be served as with max_prior_samples=None; the call ended with {out}: "
                 f"{str(ob['res'])[:160]}", extra_tags=dict(over_budget=True))
            return

    hard_nonfin = any(np.isnan(c["profile"][r]) or c["profile"][r] == np.inf for r in evaluated)
    if nonfin_seen:
        ctx.count("non-finite likelihood evaluated")
        if c["path"] == "inmem":
            ctx.count("guard:inmem non-finite")

    groups = None
    if out == "ok":
        # ---- P4: at most n_requested samples, n_linear copies each, library rows unmodified
        groups, why = rc.table_rows(lib, ob["res"], c["n_linear"])
        if groups is None:
            ctx.evaluated(REL, None)
            viol("each returned sample is an evaluated prior sample, unmodified, with its n_linear_samples rows: " + why)
            return
        if len(groups) > req:
            ctx.evaluated(REL, None)
            viol(f"returns at most n_requested_samples={req} nonlinear samples (got {len(groups)})",
                 impl_extra=dict(rows=groups[:80]))
            return
        # ---- P6: every round draws uniforms for everything evaluated so far, from the sampler's generator
        cum, okdraw = 0, not tail
        for rr, u in rounds:
            cum += len(rr)
            if u is None or len(u) != cum:
                okdraw = False
        if not okdraw or not rounds:
            ctx.evaluated(REL, None)
            viol("each round applies the C02 rule with fresh uniform(0,1) draws (sampler's generator) for ALL samples "
                 f"evaluated so far; observed draw sizes {[None if u is None else len(u) for _, u in rounds]} for batches {sizes}")
            return
        pos_of = {r: p for p, r in enumerate(evaluated)}
        if any(r not in pos_of for r in groups):
            ctx.evaluated(REL, None)
            viol("every returned sample is an evaluated prior sample", impl_extra=dict(rows=groups[:80]))
            return
        positions = [pos_of[r] for r in groups]
        # ---- P5: accepted by the rule against the max over everything evaluated, last round's uniforms
        if not hard_nonfin:
            lls = [float(c["profile"][r]) for r in evaluated]
            uu = rounds[-1][1]
            sure, border = rc.oracle_accept(lls, uu)
            sel = rc.consistent_selection(sure, border, req, positions)
            if sel is None:
                ctx.count("too many borderline decisions (skipped)")
            elif not sel:
                want = sorted(sure)[:req]
                ctx.evaluated(REL, None)
                viol("returned samples = the first n_requested (exactly that many whenever that many pass) of the "
                     "evaluated samples accepted by exp(ll - max over ALL evaluated) > u with the last round's uniforms: "
                     f"returned positions {positions[:16]}.. rule gives {want[:16]}.. ({len(sure)} pass, request {req}, "
                     f"borderline {border})", impl_extra=dict(rows=groups[:80], positions=positions[:80]),
                     extra_tags=dict(rule="selection"))
                return
            n_acc = len(sure)
        else:
            ctx.count("rule undefined (NaN/+inf among evaluated), selection not checked")
            n_acc = None
        exhausted = len(evaluated) >= eff_budget
        if len(groups) >= req:
            exit_kind = "enough"
        elif exhausted:
            exit_kind = "budget-exhausted"
        else:
            exit_kind = "policy-stop"
        ctx.count(f"exit:{exit_kind}")
        if c["n_linear"] > 1:
            ctx.count("opt:n_linear>1")
    else:
        exit_kind = out
        ctx.count(f"exit:{out}")

    growth_rounds = max(0, len(sizes) - 1)
    ctx.count("growth rounds: 0" if growth_rounds == 0 else ("growth rounds: 1" if growth_rounds == 1 else "growth rounds: 2+"))
    if c["shuffle"] and (ob["choices"] or evaluated != list(range(len(evaluated)))):
        ctx.count("opt:shuffle (rows evaluated in a drawn order)")
    if c["max_prior"] is not None and not over:
        ctx.count("opt:max_prior_samples<=N")
    if c["pool"] is not None:
        ctx.count("opt:pool")
    nontriv = growth_rounds > 0 or exit_kind != "enough"
    key = (c["kind"], c["path"], c["shuffle"], min(growth_rounds, 3), exit_kind, c["n_linear"] > 1) if nontriv else None
    ctx.evaluated(REL, key, sample=dict(inp, outcome=out, returned_rows=None if groups is None else groups[:8]))

    # ---- correspondence with the Lean machine (trace replay); the machine clamps an over-size budget like the code
    m = ctx.model(model_op(c, ob))
    merr = m.get("err")
    mclass = {"value": "value", "runtime": "runtime", "maxiter": "runtime", None: "ok"}.get(merr, "bad")
    if mclass == "bad":
        ctx.mismatch(REL, g, inp, impl, m, "the observed trace must be a run of the Lean machine", tags)
        return
    if mclass != out:
        if out.startswith("raised:") and mclass != "ok":
            ctx.mismatch(REL, g, inp, impl, m, "error class differs between model and implementation", tags)
        else:
            ctx.mismatch(REL, g, inp, impl, m, "model and implementation must exit the same way (samples vs error)", tags)
        return
    if out == "ok":
        starts, blocks = 0, []
        for s_ in sizes:
            blocks.append([starts, s_])
            starts += s_
        border_excuse = False
        if m.get("full") != groups:
            lls = [float(c["profile"][r]) for r in evaluated]
            if not hard_nonfin and rc.oracle_accept(lls, rounds[-1][1])[1]:
                border_excuse = True
                ctx.count("borderline exp(d) vs u decisions excused")
        if border_excuse:
            return
        if m.get("blocks") != blocks or m.get("full") != groups or m.get("evalRows") != evaluated:
            ctx.mismatch(REL, g, inp, dict(impl, blocks=blocks[:40], rows=groups[:80]),
                         dict(blocks=m.get("blocks"), full=m.get("full"), evaluated=m.get("evaluated")),
                         "the Lean machine replaying the observed trace must evaluate the same blocks and return the same rows", tags)


def post(ctx):
    ctx.require("in-memory cases preceded by a call on another library of the same size",
                ctx.counters["prelude: an earlier call on another library of the same size (inmem)"], 15)
    ctx.rule = RULE
    need = 30 if ctx.thorough else 10
    for k in ("growth rounds: 0", "growth rounds: 1", "growth rounds: 2+", "exit:enough", "exit:budget-exhausted",
              "exit:small-library", "non-finite likelihood evaluated", "guard:inmem non-finite",
              "opt:shuffle (rows evaluated in a drawn order)", "opt:max_prior_samples<=N", "opt:pool", "opt:n_linear>1",
              "path:inmem", "path:object", "path:file"):
        ctx.require(k, ctx.counters[k], need)
    ctx.assumptions = core.TRUSTED_BASE + [
        "the growth policy is not part of the property: the model takes the observed batch sizes as the policy's values "
        "and re-applies the clamp to the budget itself",
        "acceptance decisions closer than (|d|+8)*2^-52 relative are re-decided in 60-digit decimal arithmetic and excused",
    ]
    rc.cleanup()
