"""C02 - the rejection step keeps prior sample i exactly when exp(ll_i - max ll) exceeds its own uniform draw,
returns library rows unaltered in evaluation order, truncates to the first accepted / first evaluated rows.

Tie: TheJoker.rejection_sample (in-memory, JokerSamples-through-tempfile, cache file) on libraries with engineered
likelihood profiles (a proxy around the real helper returns the profile as a function of the row's P), with a
recording generator; the Lean model Reject.rejectionSample (Float, expf = Float.exp, numpy max) is fed the declared
options, the profile and the recorded draws (choice permutation, uniforms) and must return exactly the rows the
implementation returned.  Independently of the model the property's predicate is decided on the implementation's
output: rows bit-identical to library rows, n_linear copies, evaluated rows = first N rows / permutation prefix,
evaluation order, selection = first k accepted where acceptance is re-decided in 60-digit decimal arithmetic
(decisions within the round-off of the float computation are excused, never blamed).

Tolerances: none on rows (bit patterns); acceptance decisions: relative (|d|+8)*2^-52 on exp(d) vs u (float
subtraction + few-ulp exp), plus the underflow zone below 1e-300."""
import numpy as np

import core
import rec
from props import rejcommon as rc

NEEDS_KERNEL = True
REL = "rejection_sample=Reject.rejectionSample"
PROFILES = ["flat", "spike", "ties", "neginf", "graded", "real"]
RULE = ("one case = one library x profile x option combination x seed x path; non-trivial = some evaluated row rejected "
        "and some accepted; distinct = distinct (profile, path, shuffle, n_prior<N, truncation binding, n_linear>1, size bucket)")


def plan(ctx):
    n = 6000 if ctx.thorough else 330
    m = 800 if ctx.thorough else 48
    t = 300 if ctx.thorough else 36
    return [("rs", i) for i in range(n)] + [("craft", i) for i in range(m)] + [("thresh", i) for i in range(t)]


def pick_size(rng, kind, thorough):
    r = rng.random()
    if r < 0.05:
        return 1
    if r < 0.45:
        return int(rng.integers(2, 41))
    if r < 0.88 or kind in ("flat", "ties", "real"):
        return int(rng.integers(41, 301))
    return int(rng.integers(301, 2001))


def gen_case(ctx, g, rng, craft=False):
    index = g["index"]
    kind = ("neginf" if craft == "craft" else "graded") if craft else PROFILES[index % len(PROFILES)]
    pr = rc.problem(ctx, index % len(rc.PROBLEM_SHAPES))
    N = pick_size(rng, kind, ctx.thorough)
    foreign = bool(rng.random() < 0.35)
    lib = rc.Library(rng, pr, N, with_ln_prior=True, foreign=foreign)
    ctx.count('library_in_foreign_units' if foreign else 'library_in_internal_units')
    profile = None if kind == "real" else rc.make_profile(rng, kind, N)
    path = str(rng.choice(["inmem", "object", "file"], p=[0.35, 0.4, 0.25]))
    kw = {}
    n_linear = int(rng.integers(1, 5))
    kw["n_linear_samples"] = n_linear
    r = rng.random()
    if r < 0.4:
        max_post = None
    elif r < 0.7:
        max_post = int(rng.integers(1, 6))
    else:
        max_post = int(rng.integers(1, N + 3))
    if kind in ("flat", "ties") and N > 120 and max_post is None:
        max_post = int(rng.integers(1, 60))        # keeps the linear-parameter stage cheap
    kw["max_posterior_samples"] = max_post
    n_prior, shuffle, pool, n_batches = None, False, None, None
    # n_prior_samples / randomize_prior_order are options of rejection_sample on EVERY path (the property quantifies
    # over their product with in-memory and file-cache paths); only pools and batching are specific to the cache paths
    r = rng.random()
    if r < 0.35:
        n_prior = None
    elif r < 0.45:
        n_prior = N
    elif r < 0.92:
        n_prior = int(rng.integers(1, N + 1))
    else:
        n_prior = N + int(rng.integers(1, 4))
    shuffle = bool(rng.random() < 0.5)
    if path != "inmem" and rng.random() < 0.5:
        pool = rec.RecPool(size=int(rng.integers(1, 5)))
        n_batches = None if rng.random() < 0.5 else int(rng.integers(1, 7))
    kw.update(n_prior_samples=n_prior, randomize_prior_order=shuffle, n_batches=n_batches)
    if rng.random() < 0.3:
        kw["return_all_logprobs"] = True
    kw["in_memory"] = path == "inmem"
    gseed = int(rng.integers(0, 2 ** 31))
    return dict(kind=kind, pr=pr, lib=lib, profile=profile, path=path, kw=kw, n_linear=n_linear, max_post=max_post,
                n_prior=n_prior, shuffle=shuffle, pool=pool, gseed=gseed, N=N)


def independent_ll(c):
    """likelihood of every library row evaluated outside the sampling call (un-proxied helper)"""
    j = c["pr"].joker()
    return np.array(j.marginal_ln_likelihood(c["pr"].data, c["lib"].samples, in_memory=True), dtype="f8")


def describe(c, extra=None):
    d = dict(profile=c["kind"], path=c["path"], N=c["N"], options={k: v for k, v in c["kw"].items()},
             pool=None if c["pool"] is None else dict(size=c["pool"].size), generator_seed=c["gseed"],
             problem=dict(p=c["pr"].p, q=c["pr"].q))
    if c["N"] <= 64 and c["profile"] is not None:
        d["profile_ll_hex"] = rc.hexlist(c["profile"])
    if extra:
        d.update(extra)
    return d


def run_case(ctx, g):
    ctx.seed = g.get("seed", ctx.seed)
    rng = ctx.case_rng(g["kind"], g["index"])
    craft = g["kind"] if g["kind"] in ("craft", "thresh") else False
    c = gen_case(ctx, g, rng, craft=craft)
    lib, N = c["lib"], c["N"]
    try:
        _run(ctx, g, c, rng, craft)
    finally:
        lib.drop_file()


def _run(ctx, g, c, rng, craft):
    lib, N, kw = c["lib"], c["N"], c["kw"]
    profile = c["profile"]
    zero_p = float(rng.uniform(0.4, 1.0))
    placed = []

    def crafter(gen, out):
        # positions -> library rows through the permutation this very generator drew (if any)
        ch = gen.of("choice") or gen.of("permutation")
        order = list(ch[-1]["out"]) if ch else list(range(len(out)))
        sub = np.random.default_rng(c["gseed"] + 1)
        n = min(len(out), len(order))
        if craft == "craft":      # u = 0.0 (a legal draw of uniform[0,1)) on rows whose likelihood is -inf
            for pos in range(n):
                if 0 <= order[pos] < N and profile[order[pos]] == -np.inf and sub.random() < zero_p:
                    out[pos] = 0.0
                    placed.append(pos)
        else:                     # u within one ulp of exp(ll - max): decisions at the float threshold
            m_ = max(profile[order[pos]] for pos in range(n))
            for pos in sub.permutation(n)[:8]:
                e_ = float(np.exp(profile[order[pos]] - m_))
                u_ = [e_, float(np.nextafter(e_, 0.0)), float(np.nextafter(e_, 1.0))][int(sub.integers(0, 3))]
                if 0.0 <= u_ < 1.0:
                    out[pos] = u_
                    placed.append(int(pos))
        return out

    gen = rc.CraftGen(c["gseed"], crafter if craft else None)
    source = "file" if c["path"] == "file" else "object"
    res, raised = rc.run_call(c["pr"], lib, profile, gen, "rejection_sample", kw, pool=c["pool"], source=source)
    out = rc.outcome(res, raised)
    rounds, tail, choices = rc.split_events(gen.calls)

    # ---- what the user declared
    n_eval = N if c["n_prior"] is None else c["n_prior"]
    tags = dict(path=c["path"], profile=c["kind"], shuffle=c["shuffle"])
    ctx.count(f"profile:{c['kind']}")
    ctx.count(f"path:{c['path']}")
    if craft == "craft":
        ctx.count("craft:u=0 on -inf row", len(placed))
    elif craft == "thresh":
        ctx.count("craft:u within 1 ulp of exp(ll-max)", len(placed))

    # ---- outside the property's domain: every evaluated likelihood is -inf (no finite value next to them)
    ev_rows = [r for e_ in gen.calls if e_["method"] == "ll" for r in e_["rows"]]
    if profile is not None and ev_rows and all(0 <= r < N and profile[r] == -np.inf for r in ev_rows):
        ctx.count("out of domain: all evaluated likelihoods -inf (skipped)")
        return

    # ---- likelihood per library row for the model / oracle
    if profile is None:
        libll = independent_ll(c)
        seen = {}
        for ev in gen.calls:
            if ev["method"] == "ll":
                for r_, v in zip(ev["rows"], ev["out"]):
                    seen[r_] = v
        diff = [r_ for r_, v in seen.items() if r_ >= 0 and core.bits(v) != core.bits(libll[r_])]
        if diff:
            ctx.count("real-ll differs from an independent evaluation (history dependence: C05's business)")
            for r_ in diff:
                libll[r_] = seen[r_]
    else:
        libll = profile

    idx = [int(v) for v in choices[-1]["out"]] if choices else None
    uu = rounds[0][1] if len(rounds) >= 1 else None
    mop = {"op": "reject.sample", "libLL": core.bits_list(libll), "lnp": core.bits_list(lib.lnp),
           "nPrior": c["n_prior"], "maxPost": c["max_post"], "nLinear": c["n_linear"], "idx": idx,
           "uu": core.bits_list(uu) if uu is not None else []}
    inp = describe(c, dict(n_eval=n_eval))
    if uu is not None and len(uu) <= 64:
        inp["uniforms_hex"] = rc.hexlist(uu)
        inp["choice"] = idx

    # ---- too many prior samples requested: both sides must refuse
    if n_eval > N:
        m = ctx.model(mop)
        ctx.evaluated(REL, None)
        ctx.count("opt:n_prior>N")
        if out != "value" or m.get("err") != "value":
            ctx.mismatch(REL, g, inp, out, m, "n_prior_samples larger than the library must be refused with a ValueError", tags)
        return

    def viol(what, impl=None, model=None, extra_tags=None):
        t = dict(tags)
        t.update(extra_tags or {})
        rc.report(ctx, (what[:60], t.get("path")), REL, g, inp, impl if impl is not None else out, model, what, tags=t)

    if out not in ("ok", "ok+all"):
        ctx.evaluated(REL, None)
        viol(f"rejection_sample on a valid library/options must return a JokerSamples; got {out}: {str(res)[:300]}",
             extra_tags=dict(outcome=out))
        return
    samples = res[0] if out == "ok+all" else res
    if ("return_all_logprobs" in kw) != (out == "ok+all"):
        ctx.evaluated(REL, None)
        viol("return_all_logprobs must add (only) a second return value", extra_tags=dict(outcome=out))
        return

    # ---- V1 rows are library rows, unmodified, n_linear copies each
    groups, why = rc.table_rows(lib, samples, c["n_linear"])
    if groups is None:
        ctx.evaluated(REL, None)
        viol("every returned row's nonlinear parameters are bit-identical to one library row, n_linear_samples "
             "consecutive copies per accepted sample: " + why)
        return

    # ---- V2 one uniform(0,1) draw per evaluated sample from the sampler's generator
    evaluated = [r for rr, _ in rounds for r in rr] + list(tail)
    if len(rounds) != 1 or uu is None or len(uu) != n_eval or tail:
        ctx.evaluated(REL, None)
        viol("exactly one uniform(0,1) draw per evaluated sample must be taken from the sampler's generator "
             f"(observed {[None if u_ is None else len(u_) for _, u_ in rounds]} for {n_eval} evaluated samples)",
             impl=dict(rows=groups))
        return
    if np.any(uu < 0) or np.any(uu >= 1):
        raise core.Infra("recorded uniforms outside [0,1)")

    # ---- V3 evaluated rows = first N rows / first N of the drawn permutation
    if c["shuffle"] and idx is not None:
        order = idx[:n_eval]
    elif c["shuffle"]:
        order = list(evaluated)      # shuffled by other means: C10's business; C02 needs N distinct library rows
        ctx.count("shuffle without a recorded choice draw")
    else:
        order = list(range(n_eval))
    if (evaluated != order or len(set(order)) != n_eval or any(not (0 <= r < N) for r in order)
            or (idx is not None and (len(idx) < n_eval))):
        ctx.evaluated(REL, None)
        viol(f"n_prior_samples={n_eval} must evaluate exactly rows 0..N-1 (or the first N entries of the drawn "
             f"permutation), each once, in that order; helper evaluated {evaluated[:12]}.. expected {order[:12]}..",
             impl=dict(evaluated=evaluated[:200]))
        return

    if c["shuffle"] and idx is None:
        mop["idx"] = list(order)      # the permutation was not drawn with `choice`: the model takes the observed order

    # ---- V4 returned rows are evaluated rows, in evaluation order, no duplicates
    pos_of = {r: p for p, r in enumerate(order)}
    if any(r not in pos_of for r in groups):
        ctx.evaluated(REL, None)
        viol("every returned row must be an evaluated prior sample", impl=dict(rows=groups))
        return
    positions = [pos_of[r] for r in groups]
    if any(b <= a for a, b in zip(positions, positions[1:])):
        ctx.evaluated(REL, None)
        viol("returned rows must appear in evaluation order without duplicates", impl=dict(rows=groups, positions=positions))
        return

    # ---- V5 selection = first max_posterior_samples of the accepted positions (60-digit re-decision)
    lls = [float(libll[r]) for r in order]
    sure, border = rc.oracle_accept(lls, uu)
    sel = rc.consistent_selection(sure, border, c["max_post"], positions)
    n_acc = len(sure)
    if border:
        ctx.count("cases with borderline decisions")
    nontriv = 0 < n_acc < n_eval
    binding = c["max_post"] is not None and c["max_post"] < n_acc
    for name, on in (("opt:shuffle", c["shuffle"]), ("opt:n_prior<N", n_eval < N), ("opt:truncation binding", binding),
                     ("opt:n_linear>1", c["n_linear"] > 1), ("opt:pool", c["pool"] is not None),
                     ("opt:return_all_logprobs", out == "ok+all"), ("some rejected", n_acc < n_eval),
                     ("N=1", N == 1), ("N>300", N > 300)):
        if on:
            ctx.count(name)
    key = (c["kind"], c["path"], c["shuffle"], n_eval < N, binding, c["n_linear"] > 1, min(N // 50, 8)) if nontriv else None
    ctx.evaluated(REL, key, sample=dict(inp, returned_rows=groups[:8]))
    m = ctx.model(mop)
    model_full = m.get("full")
    if sel is None:
        ctx.count("too many borderline decisions (skipped)")
        return
    if not sel:
        want = sorted(sure)[: c["max_post"]] if c["max_post"] is not None else sorted(sure)
        viol("kept exactly when exp(ll_i - max ll) > u_i (own uniform, sampler's generator), truncated to the first "
             f"max_posterior_samples accepted: returned positions {positions[:16]}.. but the rule gives "
             f"{want[:16]}.. (borderline positions: {border})",
             impl=dict(rows=groups, positions=positions), model=dict(full=model_full, good=m.get("good")),
             extra_tags=dict(rule="selection"))
        return
    # the best sample always survives (corollary, re-checked on the output when no truncation hides it)
    if c["max_post"] is None:
        best = [p for p, l in enumerate(lls) if l == max(lls)]
        if any(p not in positions for p in best):
            viol("every evaluated sample with the maximum likelihood survives", impl=dict(positions=positions, best=best))
            return
    # ---- correspondence with the Lean model
    if m.get("err") is not None or model_full != groups:
        if border:
            ctx.count("borderline exp(d) vs u decisions excused")
        else:
            ctx.mismatch(REL, g, inp, dict(rows=groups), m, "the Lean model must return exactly the rows the implementation "
                         "returned (the property's predicate held on this input)", tags)
    elif m.get("evalRows") != order:
        ctx.mismatch(REL, g, inp, dict(evaluated=order[:50]), dict(evalRows=m.get("evalRows")[:50]),
                     "model and implementation must evaluate the same rows in the same order", tags)


def post(ctx):
    ctx.rule = RULE
    need = 60 if ctx.thorough else 20
    for k in PROFILES:
        ctx.require(f"profile {k}", ctx.counters[f"profile:{k}"], need)
    for p in ("inmem", "object", "file"):
        ctx.require(f"path {p}", ctx.counters[f"path:{p}"], need)
    for o in ("opt:shuffle", "opt:n_prior<N", "opt:truncation binding", "opt:n_linear>1", "opt:pool",
              "opt:return_all_logprobs", "some rejected"):
        ctx.require(o, ctx.counters[o], need)
    ctx.require("libraries stored in foreign units (the sampler has to convert them)", ctx.counters["library_in_foreign_units"], need)
    ctx.require("u = 0.0 placed on a -inf row", ctx.counters["craft:u=0 on -inf row"], need)
    ctx.require("u placed within 1 ulp of the threshold", ctx.counters["craft:u within 1 ulp of exp(ll-max)"], need)
    ctx.require("borderline decisions recognised by the oracle", ctx.counters["cases with borderline decisions"], need)
    ctx.require("single-row libraries", ctx.counters["N=1"], 3)
    ctx.require("libraries > 300 rows", ctx.counters["N>300"], 3)
    ctx.assumptions = core.TRUSTED_BASE + [
        "numpy Generator.uniform / choice(replace=False) produce independent uniform[0,1) draws / a uniformly random "
        "duplicate-free selection (the probability statement accept_probability is about Lebesgue measure of the draw)",
        "Float.exp (libm) vs numpy exp: decisions closer than (|d|+8)*2^-52 relative are re-decided in 60-digit decimal "
        "arithmetic and excused, never reported",
    ]
    rc.cleanup()
