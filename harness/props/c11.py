"""C11 - MCMC continuation targets the same model and posterior as the sampler.

Tie (DESIGN 3/C11).  For each generated configuration (poly_trend, offsets, K prior kind, constant / sampled
jitter, prior units for P / K / v / s, data unit, sample-library units) the real `TheJoker.setup_mcmc` builds its
pymc model.  Physical parameter values (in the prior's declared units) are substituted through the model's value
variables and the following are observed: `model_rv`, the `obs` log-likelihood term, the per-variable prior terms,
`logp`, `ln_likelihood`, `ln_prior`, and the returned `mcmc_init`.

Compared with
 * the sampler's own model: design matrix `[Kepler column | trend_M]` (twobody's `cy_rv_from_elements`, the very
   routine the kernel calls, with `(P [day], e, omega, M0, t_ref)`, and `validate_prepare_data`'s trend matrix)
   times the linear parameters converted to the data unit -- the property's predicate for `model_rv`;
 * the Lean model `Mcmc.mcmcRV / samplerRV / dataTerm / medianIdx` executed at Float from the DECLARED numbers
   (epochs, labels, units), with the Kepler solver of `Drive/McmcOps.lean`;
 * closed-form Gaussian / prior densities (float `fsum`, declared units) for the log-density decomposition.

Tolerances: RVs abs 1e-8 (|K|+1) + 1e-10 max|trend| (the kernel asks twobody for 1e-10 in the anomaly);
log-density terms abs 1e-9 (1 + |value|), computed from the implementation's own `model_rv` so that the Kepler
tolerance does not enter; init point rel 1e-12.

Scope note: multi-survey data are generated as lists of time-disjoint surveys, so that C08's defect (survey ids
not re-sorted with the epochs) cannot leak into this property; interleaved layouts belong to C08."""
import math

import numpy as np

import core as core_mod

NEEDS_KERNEL = False

RULE = ("configurations from the scenario engine: p in 1..3, q in 0..2, K FixedCompanionMass / Normal, jitter zero / "
        "constant / sampled, canonical and custom units, 1..9 library rows; 6 parameter points each (incl. the init "
        "point); non-trivial = a point where dropping the jitter, ignoring a unit factor or the phase convention would "
        "move the compared value by more than 100x the tolerance (measured); distinct = distinct (configuration, point)")

TWO_PI = 2 * math.pi
_seen = set()


def violate(ctx, rel, g, inp, impl, model, predicate, tags=None):
    """one VIOLATION line per defect: the first violation of each (relation, where, units class) is reported"""
    tags = tags or {}
    key = (rel, tags.get("where"), tags.get("custom_units"))
    ctx.count(f"violations:{tags.get('where')}:custom_units={tags.get('custom_units')}")
    if key in _seen:
        return
    _seen.add(key)
    ctx.violation(rel, g, inp, impl, model, predicate, tags=tags)


def fast():
    import pytensor
    return pytensor.config.change_flags(mode="FAST_COMPILE")


def setup(ctx):
    import glob
    import os
    import core
    if not ctx.replay_mode:
        for f in glob.glob(os.path.join(core.VERIF, "replays", ctx.prop, f"{ctx.seed}-*.json")):
            os.remove(f)


# ------------------------------------------------------------------------------------------------
# configuration


def make_cfg(rng, index):
    """problem + sample library with linear columns, from the scenario engine"""
    import astropy.units as u
    import scen
    canonical = index % 4 == 0
    p = int(rng.choice([1, 2, 3]))
    q = int(rng.choice([0, 0, 1, 2]))
    if index in (1, 3, 5):       # single-source configurations that quote rv_err in another unit than rv (see below): guaranteed
        q = 0
    if index % 10 == 7:          # many surveys: two-digit offset names (dv0_10, dv0_11, ...)
        q = int(rng.choice([10, 11, 12]))
        p = int(rng.choice([1, 2]))
    s_kind = ["zero", "const", "sampled", "sampled"][index % 4] if index % 4 else str(rng.choice(["const", "sampled"]))
    for _ in range(200):
        pr = scen.make_problem(rng, p=p, q=q, s_kind=s_kind, units="canonical" if canonical else None,
                               n=int(rng.integers(q + 3, 10)) if q < 6 else q + 1 + int(rng.integers(2, 8)),
                               data_form=None if q == 0 else "list", err_scale=float(10 ** rng.uniform(-1.0, 0.3)), build=False)
        if q == 0 or pr.desc["layout"] == "disjoint":
            break
    else:
        raise RuntimeError("no disjoint layout generated")
    if not canonical and index % 2 == 1:
        # uncertainties quoted in another (equivalent) unit than the velocities, also for a single RVData (RVData keeps
        # each quantity in the unit it was given)
        for sv in pr.surveys:
            if sv.get("err_unit", sv["unit"]) == sv["unit"]:
                eun = str(rng.choice([x for x in scen.VEL_UNITS if x != sv["unit"]]))
                sv["err"] = np.asarray(sv["err"]) * float(u.Unit(sv["unit"]).to(u.Unit(eun)))
                sv["err_unit"] = eun
    scen.build_objects(pr)
    N = [3, 2, 1, 4, 5, 8, 9][index % 7]      # 2 rows: the smallest library that needs the median rule
    lib, phys = scen.make_library(rng, pr, N, units="canonical" if canonical else None, e_max=0.9)
    du = pr.data_unit
    # linear columns in units of the library's choosing
    lin_units = {}
    Ku = u.Unit("km/s") if canonical else u.Unit(str(rng.choice(scen.VEL_UNITS)))
    lin = dict(K=rng.normal(0, 8, N))
    lin_units["K"] = Ku
    lib["K"] = (lin["K"] * u.km / u.s).to(Ku)
    for l in range(pr.p):
        vu = (u.km / u.s if canonical else u.Unit(str(rng.choice(scen.VEL_UNITS)))) / (u.day if (canonical or rng.random() < 0.5) else u.yr) ** l
        vals = rng.normal(0, 10, N) / (200.0 ** l)
        lib[f"v{l}"] = (vals * u.km / u.s / u.day ** l).to(vu)
        lin_units[f"v{l}"] = vu
    for j in range(1, pr.q + 1):
        ou = u.Unit("km/s") if canonical else u.Unit(str(rng.choice(scen.VEL_UNITS)))
        lib[f"dv0_{j}"] = (rng.normal(0, 2, N) * u.km / u.s).to(ou)
        lin_units[f"dv0_{j}"] = ou
    return pr, lib, phys


def prior_units(pr):
    """the units the user declared for every parameter of the prior"""
    import astropy.units as u
    from scen import U
    d = pr.desc
    un = dict(P=U(d["P"]["unit"]), e=u.one, omega=u.rad, M0=u.rad, s=U(d["s"]["unit"]), K=U(d["K"]["unit"]))
    for l, v in enumerate(d["v"]):
        un[f"v{l}"] = U(v["unit"])
    for j, o in enumerate(d["offsets"]):
        un[f"dv0_{j+1}"] = U(o["unit"])
    return un


def unit_factors(pr):
    """factors declared prior unit -> internal unit (day, rad, data velocity unit / day^l): astropy conversions only"""
    import astropy.units as u
    un = prior_units(pr)
    du = pr.data_unit
    return dict(cP=un["P"].to(u.day), cOmega=un["omega"].to(u.rad), cM0=un["M0"].to(u.rad), cS=un["s"].to(du), cK=un["K"].to(du),
                cV=[un[f"v{l}"].to(du / u.day ** l) for l in range(pr.p)], cDv=[un[f"dv0_{j+1}"].to(du) for j in range(pr.q)])


def draw_point(rng, pr):
    d = pr.desc
    th = dict(P=float(np.exp(rng.uniform(np.log(d["P"]["P_min"]), np.log(d["P"]["P_max"])))),
              e=float(rng.choice([rng.uniform(0.0, 0.2), rng.uniform(0.2, 0.9)])),
              omega=float(rng.uniform(-3.1, 3.1)), M0=float(rng.uniform(-3.1, 3.1)))
    s = d["s"]
    th["s"] = float(np.exp(rng.normal(s["mu"], s["sigma"]))) if s["kind"] == "sampled" else float(s["value"])
    K = d["K"]
    kscale = K["sigma_K0"] if K["kind"] == "fcm" else K["sigma"]
    th["K"] = float(rng.normal(0, 1) * kscale)
    for l, v in enumerate(d["v"]):
        th[f"v{l}"] = float(rng.normal(v["mu"], v["sigma"]))
    for j, o in enumerate(d["offsets"]):
        th[f"dv0_{j+1}"] = float(rng.normal(o["mu"], o["sigma"]))
    return th


def value_point(model, th):
    """physical point (prior units) -> point over the model's value variables"""
    pt = {}
    for rv in model.free_RVs:
        vv = model.rvs_to_values[rv]
        tr = model.rvs_to_transforms[rv]
        name = rv.name
        if name.startswith("__") and name.endswith("_angle1"):
            val = math.sin(th[name[2:-7]])
        elif name.startswith("__") and name.endswith("_angle2"):
            val = math.cos(th[name[2:-7]])
        else:
            val = th[name]
        if tr is not None:
            val = tr.forward(np.float64(val), *rv.owner.inputs).eval()
        pt[vv.name] = np.asarray(val, dtype="float64")
    return pt


def ln_normal(y, mu, var):
    return math.fsum(-0.5 * (yy - mm) ** 2 / vv - 0.5 * math.log(TWO_PI * vv) for yy, mm, vv in zip(y, mu, var))


# ------------------------------------------------------------------------------------------------


def cfg_case(ctx, g, rng, index):
    import astropy.units as u
    import scen
    from core import bits, bits_list, unbits
    from props.c09 import declared_cfg, row_oracle
    from thejoker.data_helpers import validate_prepare_data
    REL_RV = "setup_mcmc model_rv=sampler design matrix . x (=Mcmc.mcmcRV)"
    REL_LL = "setup_mcmc obs / ln_likelihood=ln N(y|rv,sigma^2+s^2) (=Mcmc.dataTerm)"
    REL_LP = "setup_mcmc logp / ln_prior decomposition (=Mcmc.diagnostics)"
    REL_INIT = "setup_mcmc mcmc_init=median-period row in prior units (=Mcmc.initPoint)"
    pr, lib, phys = make_cfg(rng, index)
    d = pr.desc
    un = prior_units(pr)
    uf = unit_factors(pr)
    du = pr.data_unit
    joker = pr.joker(rng=np.random.default_rng(int(rng.integers(0, 2**31))))
    model = pr.prior.model
    with fast():
        with model:
            init = joker.setup_mcmc(pr.data, lib)
    names = pr.prior.par_names
    cfg_desc = dict(p=pr.p, q=pr.q, K=d["K"]["kind"], s=d["s"]["kind"], units={k: str(v) for k, v in un.items()}, data_unit=str(du),
                    n_rows=len(lib), lib_units={n: str(lib[n].unit) for n in names}, n_epochs=int(sum(len(sv["t"]) for sv in pr.surveys)))
    custom = any([abs(uf["cP"] - 1) > 1e-12, abs(uf["cK"] - 1) > 1e-12, abs(uf["cS"] - 1) > 1e-12] + [abs(c - 1) > 1e-12 for c in uf["cV"] + uf["cDv"]])
    ctx.count("cfg:custom-units" if custom else "cfg:canonical-units")
    ctx.count(f"cfg:s={d['s']['kind']}")
    ctx.count(f"cfg:p={pr.p}")
    ctx.count(f"cfg:q={'0' if pr.q == 0 else '>0'}")
    if pr.q >= 10:
        ctx.count("cfg:q>=10")
    ctx.count(f"cfg:K={d['K']['kind']}")
    if any(sv.get("err_unit", sv["unit"]) != sv["unit"] for sv in pr.surveys):
        ctx.count("cfg:rv_err in another unit than rv" + (", single RVData" if pr.q == 0 else ", several sources"))
    if abs(uf["cP"] - 1) > 1e-12:
        ctx.count("cfg:P-not-day")
    tags0 = dict(call="setup_mcmc", s=d["s"]["kind"], custom_units=bool(custom))

    # ---------------- initial point -------------------------------------------------------------
    N = len(lib)
    P_day = np.asarray(lib["P"].to_value(u.day), dtype=float)
    mi = ctx.model({"op": "mcmc.median", "P": bits_list(P_day)})["idx"]
    # the row the implementation chose: match on all nonlinear columns
    init_raw = dict(init)
    extra_keys = sorted(set(init.keys()) - set(names))
    # keys beyond the prior's parameters may only name variables of the model (start values of auxiliary free variables)
    bad_extra = [k_ for k_ in extra_keys if k_ not in model.named_vars]
    if not set(names) <= set(init.keys()) or bad_extra or any(np.ndim(init[n_]) != 0 for n_ in names if n_ in init):
        violate(ctx, REL_INIT, g, dict(cfg_desc, periods_day=P_day.tolist()), {k: np.asarray(v).tolist() for k, v in init.items()},
                dict(model_idx=mi), "mcmc_init must hold one scalar per prior parameter (a single member row)", tags=dict(tags0, where="init-shape"))
        init = {n: np.ravel(init.get(n, np.nan))[0] for n in names}
    cand = [i for i in range(N) if all(abs(float(init[n]) - float(lib[n][i].to_value(un[n]))) <= 1e-12 * (1 + abs(float(init[n]))) for n in names)]
    kth = float(np.sort(P_day)[N // 2])
    ctx.evaluated(REL_INIT, (index, N) if N > 1 else None, sample=dict(cfg_desc, init={k: float(v) for k, v in init.items()}, model_idx=mi))
    ctx.count("init:N=1" if N == 1 else "init:N>1")
    if N == 2:
        ctx.count("init:N=2")
    if not cand or not set(names) <= set(init.keys()):
        violate(ctx, REL_INIT, g, dict(cfg_desc, periods_day=P_day.tolist()), {k: float(v) for k, v in init.items()},
                      dict(model_idx=mi, expected_row={n: float(lib[n][mi].to_value(un[n])) for n in names}),
                      "mcmc_init must be an actual member row expressed in the prior's units (all parameters)", tags=dict(tags0, where="init-row"))
    elif all(P_day[i] != kth for i in cand):
        violate(ctx, REL_INIT, g, dict(cfg_desc, periods_day=P_day.tolist()), dict(chosen_rows=cand),
                      dict(model_idx=mi, kth_period=kth), "the chosen row's period must be the floor(N/2)-th order statistic", tags=dict(tags0, where="init-median"))
    elif mi not in cand and len(set(P_day.tolist())) == N:
        ctx.mismatch(REL_INIT, g, cfg_desc, dict(chosen_rows=cand), dict(model_idx=mi), "model picks another row although periods are distinct")

    # ---------------- the point pymc starts from when handed mcmc_init -----------------------------------------
    # (pm.sample(initvals=mcmc_init) builds its start point with make_initial_point_fn(overrides=mcmc_init), which only
    # looks at FREE variables: a value for a parameter that is a Deterministic of auxiliary free variables - the default
    # prior's omega and M0 - is dropped silently unless the dict also starts those auxiliary variables)
    REL_START = "start point pymc builds from mcmc_init=the chosen sample (all parameters that the model lets one set)"
    try:
        from pymc.initial_point import make_initial_point_fn
        with fast():
            ip = make_initial_point_fn(model=model, overrides=dict(init_raw), jitter_rvs=set(), return_transformed=True)(0)
            fpar = model.compile_fn(model.replace_rvs_by_values([pr.prior.pars[n_] for n_ in names]), inputs=model.value_vars,
                                    on_unused_input="ignore")
        start = dict(zip(names, [float(np.asarray(v_)) for v_ in fpar({k_: ip[k_] for k_ in [vv_.name for vv_ in model.value_vars]})]))
        start_err = None
    except Exception as e_:  # noqa: BLE001
        start, start_err = None, f"{type(e_).__name__}: {str(e_)[:200]}"
    free_names = {rv_.name for rv_ in model.free_RVs}
    settable = [n_ for n_ in names if n_ in free_names or f"__{n_}_angle1" in free_names]
    ctx.evaluated(REL_START, (index,), sample=dict(cfg_desc, start=start, init={k_: float(np.ravel(v_)[0]) for k_, v_ in init_raw.items()}))
    ctx.count("start:parameters behind auxiliary angle variables", sum(1 for n_ in settable if n_ not in free_names))
    if start is None:
        violate(ctx, REL_START, g, cfg_desc, dict(error=start_err), None, "pymc must be able to build its start point from mcmc_init",
                tags=dict(tags0, where="start-point"))
    else:
        def off(n_):
            d_ = start[n_] - float(init[n_])
            if n_ in ("omega", "M0"):
                per = TWO_PI / float(un[n_].to(u.rad))
                d_ = (d_ + per / 2) % per - per / 2
            return abs(d_)
        wrong = {n_: dict(start=start[n_], mcmc_init=float(init[n_])) for n_ in settable if n_ in init and not off(n_) <= 1e-9 * (1 + abs(float(init[n_])))}
        if wrong:
            violate(ctx, REL_START, g, dict(cfg_desc, mcmc_init={k_: float(np.ravel(v_)[0]) for k_, v_ in init_raw.items()},
                                           free_variables=sorted(free_names)), wrong, None,
                    "handed to pymc as initvals, mcmc_init must start the chain AT the chosen sample: these parameters start elsewhere "
                    "(a key naming a Deterministic is ignored by pymc; the free variables behind it need start values)",
                    tags=dict(tags0, where="start-point"))

    # ---------------- call history: samples that carry another reference epoch than the data ----------------------
    if index % 2 == 1:
        from astropy.time import Time
        REL_TREF = "setup_mcmc with samples whose t_ref differs from the data's: refused, or the point describes the same orbit"
        all_data0, _, _ = validate_prepare_data(pr.data, pr.p, pr.q)
        t0_ = np.asarray(all_data0._t_bmjd, dtype=float)
        tref_data = float(all_data0._t_ref_bmjd)
        same = index % 4 == 3
        delta = 0.0 if same else float(rng.choice([-1, 1]) * rng.uniform(3.0, 40.0))
        lib2 = lib.copy()
        lib2.tbl.meta["t_ref"] = Time(tref_data + delta, format="mjd", scale="tcb")
        refused2 = None
        with fast():
            try:
                with model:
                    init2 = joker.setup_mcmc(pr.data, lib2)
            except Exception as e_:  # noqa: BLE001
                refused2, init2 = f"{type(e_).__name__}: {str(e_)[:160]}", None
        ctx.evaluated(REL_TREF, (index, same))
        ctx.count("tref-history:same epoch stated explicitly" if same else "tref-history:other epoch")
        inp2 = dict(cfg_desc, samples_t_ref_minus_data_t_ref_days=delta)
        if same:
            if refused2 is not None or any(abs(float(np.ravel(init2[n_])[0]) - float(init[n_])) > 1e-12 * (1 + abs(float(init[n_]))) for n_ in names):
                violate(ctx, REL_TREF, g, inp2, dict(refused=refused2, init=None if init2 is None else {n_: float(np.ravel(init2[n_])[0]) for n_ in names}),
                        dict(init={n_: float(init[n_]) for n_ in names}),
                        "samples that state the data's own reference epoch must give the same initial point as samples without one",
                        tags=dict(tags0, where="tref-same"))
        elif refused2 is not None:
            ctx.count("tref-history:refused")
        else:
            ctx.count("tref-history:accepted")

            def curve(vals, tref_):
                P_d_ = vals["P"] * uf["cP"]
                kc_ = scen.kepler_column(t0_, P_d_, vals["e"], vals["omega"] * uf["cOmega"], vals["M0"] * uf["cM0"], tref_)
                xl_ = [vals["v0"] * uf["cV"][0]] + [vals[f"dv0_{j+1}"] * uf["cDv"][j] for j in range(pr.q)] + [vals[f"v{l}"] * uf["cV"][l] for l in range(1, pr.p)]
                return vals["K"] * uf["cK"] * kc_ + pr.trend_matrix(t0_, np.asarray(all_lab_), tref_) @ np.array(xl_)
            # labels in the order of the merged, time-sorted data (disjoint surveys)
            all_lab_ = pr.merged()[3]
            if len(all_lab_) == len(t0_):
                row = {n_: float(init[n_]) for n_ in names}
                want_curve = curve(row, tref_data + delta)        # the chosen sample's own orbit (its epoch)
                got_curve = curve({n_: float(np.ravel(init2[n_])[0]) for n_ in names}, tref_data)   # what the model will make of the point
                gap = float(np.max(np.abs(want_curve - got_curve)))
                if gap > 1e-7 * (1 + abs(row["K"] * uf["cK"]) + float(np.max(np.abs(want_curve)))):
                    violate(ctx, REL_TREF, g, inp2, dict(init={n_: float(np.ravel(init2[n_])[0]) for n_ in names}, max_rv_gap=gap),
                            dict(sample_row=row), "the samples' M0 (and trend coefficients) refer to the samples' t_ref; the model is built "
                            "about the data's t_ref: the returned point must describe the same orbit there, or the call must refuse",
                            tags=dict(tags0, where="tref-other"))

    # ---------------- the sampler's own model -----------------------------------------------------
    all_data, ids, trend_M = validate_prepare_data(pr.data, pr.p, pr.q)
    t = np.asarray(all_data._t_bmjd, dtype=float)
    t_ref = float(all_data._t_ref_bmjd)
    y = np.asarray(all_data.rv.to_value(du), dtype=float)
    sig = np.asarray(all_data.rv_err.to_value(du), dtype=float)
    # declared data for the Lean model
    td, yd, sd, lab = pr.merged()
    x_decl = td - td.min()
    obs_json = [dict(x=bits(x_decl[i]), label=int(lab[i]), y=bits(yd[i]), sigma=bits(sd[i])) for i in range(len(td))]
    units_json = dict(cP=bits(uf["cP"]), cOmega=bits(uf["cOmega"]), cM0=bits(uf["cM0"]), cS=bits(uf["cS"]), cK=bits(uf["cK"]),
                      cV=bits_list(uf["cV"]), cDv=bits_list(uf["cDv"]))

    # ---------------- compiled observables ----------------------------------------------------------
    with fast():
        det = model.replace_rvs_by_values([model["model_rv"], model["ln_likelihood"], model["logp"], model["ln_prior"]])
        obs_term = model.logp(vars=model.observed_RVs, jacobian=False)
        lp_nojac = model.logp(jacobian=False)
        f = model.compile_fn(det + [obs_term, lp_nojac], inputs=model.value_vars, on_unused_input="ignore")
    c9 = declared_cfg(pr)
    pts = [draw_point(rng, pr) for _ in range(5)]
    pts.append({n: float(init[n]) for n in names if n in init})        # the init point itself
    if "omega" in pts[-1]:
        for a in ("omega", "M0"):
            pts[-1][a] = float((pts[-1][a] + math.pi) % TWO_PI - math.pi)
    offs = []
    first_point = None
    for k, th in enumerate(pts):
        if set(th) != set(names):
            continue
        out = f(value_point(model, th))
        rv_impl, ll_det, logp_det, lnprior_det, obs_impl, lp_phys = (np.asarray(out[0], dtype=float).ravel(), float(out[1]), float(out[2]),
                                                                      float(out[3]), float(out[4]), float(out[5]))
        inp = dict(cfg_desc, point=th)
        # internal-unit parameters (declared conversions)
        P_d, om, M0 = th["P"] * uf["cP"], th["omega"] * uf["cOmega"], th["M0"] * uf["cM0"]
        K_du, s_du = th["K"] * uf["cK"], th["s"] * uf["cS"]
        xlin = [th["v0"] * uf["cV"][0]] + [th[f"dv0_{j+1}"] * uf["cDv"][j] for j in range(pr.q)] + [th[f"v{l}"] * uf["cV"][l] for l in range(1, pr.p)]
        kc = scen.kepler_column(t, P_d, th["e"], om, M0, t_ref)
        trend = trend_M @ np.array(xlin)
        rv_s = K_du * kc + trend
        # The pymc model solves Kepler's equation with exoplanet_core (third party, trusted base), the sampler with
        # twobody.  exoplanet_core's sin f is off by up to ~1e-5 (absolute) within ~1e-4 rad of mean anomaly pi
        # (measured: e = 0.219, M = pi - 1.4e-5 -> -9.3e-6), i.e. up to ~1e-5 K in the RV.  The property is about the
        # model's conventions, so the implementation is compared with the sampler's formula evaluated with the SAME
        # Kepler oracle the implementation calls; the two oracles are compared with each other separately.
        import exoplanet_core
        Mm = 2 * math.pi * (t - t_ref) / P_d - M0
        sinf, cosf = exoplanet_core.kepler(np.asarray(Mm, dtype=float), np.full(len(t), float(th["e"])))
        kc_exo = math.cos(om) * np.asarray(cosf) - math.sin(om) * np.asarray(sinf) + th["e"] * math.cos(om)
        if float(np.max(np.abs(kc_exo - kc))) > 1e-9:
            ctx.count("kepler-oracles-differ>1e-9 (exoplanet_core vs twobody)")
        if float(np.max(np.abs(kc_exo - kc))) > 3e-5:
            raise core_mod.Infra(f"exoplanet_core and twobody Kepler solvers differ by {float(np.max(np.abs(kc_exo - kc))):.3g}")
        rv_s_twobody = rv_s
        kep_gap = abs(K_du) * float(np.max(np.abs(kc_exo - kc)))     # what the two third-party solvers disagree by
        rv_s = K_du * kc_exo + trend
        tol_rv = 1e-8 * (abs(K_du) + 1) + 1e-10 * float(np.max(np.abs(trend)))
        # how visible are the classic mistakes at this point?
        kc_wrong_phase = scen.kepler_column(t, P_d, th["e"], om, M0 * th["P"] / P_d, t_ref)
        vis = max(float(np.max(np.abs(K_du * (kc_wrong_phase - kc)))), abs(th["K"] - K_du), float(np.max(np.abs(trend_M @ np.array(
            [th["v0"]] + [th[f"dv0_{j+1}"] for j in range(pr.q)] + [th[f"v{l}"] for l in range(1, pr.p)]) - trend))))
        ctx.evaluated(REL_RV, (index, k) if vis > 100 * tol_rv else None, sample=dict(inp, model_rv=rv_impl[:4].tolist(), sampler_rv=rv_s[:4].tolist()) if k == 0 else None)
        m = ctx.model({"op": "mcmc.rv", "par": dict(P=bits(th["P"]), e=bits(th["e"]), omega=bits(th["omega"]), M0=bits(th["M0"]), s=bits(th["s"]),
                                                  K=bits(th["K"]), v=bits_list([th[f"v{l}"] for l in range(pr.p)]),
                                                  dv=bits_list([th[f"dv0_{j+1}"] for j in range(pr.q)])),
                       "units": units_json, "obs": obs_json})
        rv_m = np.array([unbits(b) for b in m["mcmc"]])
        rv_ms = np.array([unbits(b) for b in m["sampler"]])
        bad_rv = rv_impl.shape != rv_s.shape or float(np.max(np.abs(rv_impl - rv_s))) > tol_rv
        if bad_rv:
            violate(ctx, REL_RV, g, inp, dict(model_rv=rv_impl.tolist()), dict(sampler_rv=rv_s.tolist(), lean_mcmc_rv=rv_m.tolist(), tol=tol_rv),
                          "the pymc model must predict the sampler's radial velocities (same phase / reference epoch / offset / trend "
                          "conventions, parameters read in their declared units)", tags=dict(tags0, where="model_rv"))
        else:
            if float(np.max(np.abs(rv_m - rv_impl))) > 10 * tol_rv + 2 * kep_gap:
                ctx.mismatch(REL_RV, g, inp, rv_impl.tolist(), rv_m.tolist(), "Lean mcmcRV (declared inputs) differs from model_rv")
        if float(np.max(np.abs(rv_ms - rv_s_twobody))) > 10 * tol_rv or float(np.max(np.abs(rv_m - rv_ms))) > 10 * tol_rv:
            ctx.mismatch(REL_RV, g, inp, rv_s.tolist(), rv_ms.tolist(), "Lean samplerRV differs from the sampler's design matrix (harness oracle problem)")
        # ---- Gaussian data term, from the implementation's own model_rv
        var = sig ** 2 + s_du ** 2
        if k == 0:
            first_point = dict(th=th, rv=rv_impl.copy(), var=np.asarray(var, dtype=float).copy(), ll=ll_det)
        ll_true = ln_normal(y, rv_impl, var) if rv_impl.shape == y.shape else float("nan")
        ll_nojit = ln_normal(y, rv_impl, sig ** 2) if rv_impl.shape == y.shape else float("nan")
        tol_ll = 1e-9 * (1 + abs(ll_true))
        jit_visible = abs(ll_true - ll_nojit) > 100 * tol_ll
        ctx.evaluated(REL_LL, (index, k) if jit_visible else None, sample=dict(inp, obs=obs_impl, ln_likelihood=ll_det, oracle=ll_true) if k == 0 else None)
        if jit_visible:
            ctx.count("point:jitter-visible")
        if not abs(obs_impl - ll_true) <= tol_ll:
            violate(ctx, REL_LL, g, inp, dict(obs_term=obs_impl), dict(oracle=ll_true, without_jitter=ll_nojit, s_data_unit=s_du),
                          "the observed-data term of the model's log-density must be sum ln N(y_i | rv_i, sigma_i^2 + s^2), s in the data unit",
                          tags=dict(tags0, where="obs"))
        if not abs(ll_det - ll_true) <= tol_ll:
            violate(ctx, REL_LL, g, inp, dict(ln_likelihood=ll_det), dict(oracle=ll_true, without_jitter=ll_nojit, s_data_unit=s_du),
                          "the stored ln_likelihood must equal the Gaussian data term ln N(y | model, sigma^2 + s^2)", tags=dict(tags0, where="ln_likelihood"))
        md = float(unbits(m["data"]))
        if not bad_rv and abs(md - ll_true) > 1e-6 * (1 + abs(ll_true)) + 10 * tol_rv * float(np.sum(np.abs(y - rv_impl) / var)):
            ctx.mismatch(REL_LL, g, inp, ll_true, md, "Lean dataTerm differs from the closed form")
        # ---- decomposition
        if not (0.0 < th["e"] < 1.0):
            # on the boundary of the support of the eccentricity prior the log-density is +-inf (the library may
            # contain e = 0 exactly): nothing to compare
            ctx.count("point:e-on-boundary")
            continue
        ctx.evaluated(REL_LP, (index, k), sample=None)
        tol_lp = 1e-9 * (1 + abs(logp_det) + abs(ll_true))
        if not abs(lnprior_det - (logp_det - ll_true)) <= tol_lp:
            violate(ctx, REL_LP, g, inp, dict(ln_prior=lnprior_det, logp=logp_det), dict(gaussian_data_term=ll_true, expected_ln_prior=logp_det - ll_true),
                          "stored ln_prior must be logp minus the Gaussian data term", tags=dict(tags0, where="ln_prior"))
        row = dict(P=th["P"], e=th["e"], s=th["s"], K=th["K"], v=[th[f"v{l}"] for l in range(pr.p)], dv=[th[f"dv0_{j+1}"] for j in range(pr.q)])
        pri = row_oracle(c9, row, True)
        if pri is not None and not bad_rv:
            offs.append((k, lp_phys - pri - ll_true, abs(lp_phys) + abs(pri) + abs(ll_true)))
    # log-density over the physical parameters = ln prior(declared) + ln N + one constant
    if len(offs) >= 2:
        vals = np.array([o[1] for o in offs])
        scale = max(o[2] for o in offs)
        tol = 1e-9 * (1 + scale)
        ctx.evaluated(REL_LP, (index, "const"), sample=dict(cfg_desc, offsets=vals.tolist(), tol=tol))
        if np.ptp(vals) > tol:
            violate(ctx, REL_LP, g, dict(cfg_desc, points=[pts[o[0]] for o in offs]), dict(logp_minus_prior_minus_data=vals.tolist()), dict(tol=tol),
                          "log-density over the physical parameters must equal ln prior(declared densities) + ln N(y|model, sigma^2+s^2) up to ONE constant",
                          tags=dict(tags0, where="logp-const"))
    # ---------------- call history: the same prior / model set up again for OTHER data -----------------------------
    # (one prior, many stars).  The second call must either refuse or leave a model whose data term is that of the
    # data it was given; silently keeping the first star's likelihood is a wrong posterior.
    if index % 2 == 0 and first_point is not None and first_point["rv"].shape == y.shape:
        import thejoker as tj
        REL_H = "setup_mcmc called again on the same model with other data: refused, or the model is that of the new data"
        shift = 5.0 * float(np.median(sig))

        def shifted(dd):
            return tj.RVData(t=dd.t, rv=dd.rv + shift * du, rv_err=dd.rv_err, t_ref=dd.t_ref)
        if isinstance(pr.data, dict):
            dataB = {kk: shifted(vv) for kk, vv in pr.data.items()}
        elif isinstance(pr.data, (list, tuple)):
            dataB = [shifted(vv) for vv in pr.data]
        else:
            dataB = shifted(pr.data)
        refused = None
        with fast():
            try:
                with model:
                    joker.setup_mcmc(dataB, lib)
            except Exception as e:   # noqa: BLE001
                refused = f"{type(e).__name__}: {str(e)[:120]}"
        ctx.evaluated(REL_H, (index,))
        if refused is not None:
            ctx.count("second setup_mcmc call with other data: refused")
        else:
            with fast():
                f2 = model.compile_fn(model.replace_rvs_by_values([model["model_rv"], model["ln_likelihood"]]),
                                      inputs=model.value_vars, on_unused_input="ignore")
            o2 = f2(value_point(model, first_point["th"]))
            rv2, ll2 = np.asarray(o2[0], dtype=float).ravel(), float(o2[1])
            want_B = ln_normal(y + shift, rv2, first_point["var"]) if rv2.shape == y.shape else float("nan")
            ctx.count("second setup_mcmc call with other data: accepted")
            if not abs(ll2 - want_B) <= 1e-8 * (1 + abs(want_B)):
                violate(ctx, REL_H, g, dict(cfg_desc, point=first_point["th"], second_data="every velocity raised by %r %s" % (shift, du)),
                        dict(ln_likelihood_after_second_call=ll2, ln_likelihood_after_first_call=first_point["ll"]),
                        dict(gaussian_term_of_the_second_data=want_B),
                        "after setup_mcmc(data_B, ...) on a model already set up for data_A the model's ln_likelihood must be the Gaussian "
                        "term of data_B (or the call must refuse): it is still that of data_A", tags=dict(tags0, where="second-call"))


def eunit_case(ctx, g, rng, index):
    """the eccentricity prior declared in per cent (JokerPrior accepts any unit convertible to dimensionless; the sampler
    converts): the pymc model must not depend on the declaration.  Metamorphic: the same model with e in u.one."""
    import astropy.units as u
    import pymc as pm
    import thejoker as tj
    import thejoker.units as xu
    from astropy.time import Time
    REL = "setup_mcmc model is the same whichever unit the eccentricity prior is declared in (one / per cent)"
    fcm = index % 2 == 0
    n = int(rng.integers(5, 10))
    t = 58000.0 + np.sort(rng.uniform(0, 200, n))
    data = tj.RVData(Time(t, format="mjd", scale="tcb"), rng.normal(0, 5, n) * u.km / u.s, rng.uniform(0.1, 1.0, n) * u.km / u.s)
    e0 = float(rng.uniform(0.05, 0.8))
    phys = [dict(P=float(rng.uniform(3, 200)), e=float(rng.uniform(0.05, 0.9)), omega=float(rng.uniform(-3, 3)), M0=float(rng.uniform(-3, 3)),
                 K=float(rng.normal(0, 10)), v0=float(rng.normal(0, 10))) for _ in range(3)]
    res = {}
    inp = dict(K_prior="FixedCompanionMass" if fcm else "Normal", n_epochs=n, sample_e=e0, points=phys)
    ctx.evaluated(REL, (index,))
    ctx.count("eunit:" + inp["K_prior"])
    for unit, scale in ((u.one, 1.0), (u.percent, 100.0)):
        try:
            with fast():
                with pm.Model() as model:
                    pars = {"e": xu.with_unit(pm.Uniform("e", 0.0, 0.95 * scale), unit)}
                    if not fcm:
                        pars["K"] = xu.with_unit(pm.Normal("K", 0.0, 20.0), u.km / u.s)
                    prior = tj.JokerPrior.default(P_min=2 * u.day, P_max=256 * u.day, sigma_K0=30 * u.km / u.s, sigma_v=100 * u.km / u.s, pars=pars)
                joker = tj.TheJoker(prior, rng=np.random.default_rng(1))
                smp = tj.JokerSamples(t_ref=data.t_ref)
                smp["P"] = [17.3] * u.day
                smp["e"] = [e0] * u.one
                smp["omega"] = [1.1] * u.rad
                smp["M0"] = [2.2] * u.rad
                smp["s"] = [0.0] * u.km / u.s
                smp["K"] = [8.0] * u.km / u.s
                smp["v0"] = [3.0] * u.km / u.s
                with model:
                    init = joker.setup_mcmc(data, smp)
                f = model.compile_fn(model.replace_rvs_by_values([model["model_rv"], model["ln_likelihood"], model["logp"]]),
                                     inputs=model.value_vars, on_unused_input="ignore")
                outs = []
                for th in phys:
                    th2 = dict(th, e=th["e"] * scale, s=0.0)
                    o = f(value_point(model, th2))
                    outs.append((np.asarray(o[0], dtype=float).ravel(), float(o[1]), float(o[2])))
            res[str(unit)] = dict(init_e=float(np.ravel(init["e"])[0]), outs=outs)
        except Exception as e_:  # noqa: BLE001
            res[str(unit)] = dict(error=f"{type(e_).__name__}: {str(e_)[:200]}")
    a, b = res[str(u.one)], res[str(u.percent)]
    tags = dict(call="setup_mcmc", where="e-unit", custom_units=True)
    if "error" in a:
        raise core_mod.Infra("reference model (e in u.one) failed: " + a["error"])
    if "error" in b:
        violate(ctx, REL, g, inp, dict(percent=b), None, "a prior with e declared in per cent is accepted by JokerPrior and the sampler; "
                "setup_mcmc / evaluating its model must work as well", tags=tags)
        return
    bad = []
    if abs(b["init_e"] - 100.0 * a["init_e"]) > 1e-9:
        bad.append(f"mcmc_init e: {b['init_e']} (per cent) vs {a['init_e']} (one)")
    for k, (oa, ob) in enumerate(zip(a["outs"], b["outs"])):
        if oa[0].shape != ob[0].shape or float(np.max(np.abs(oa[0] - ob[0]))) > 1e-8 * (1 + float(np.max(np.abs(oa[0])))):
            bad.append(f"model_rv at point {k}: max gap {float(np.max(np.abs(oa[0] - ob[0]))):.3g}")
        if not abs(oa[1] - ob[1]) <= 1e-8 * (1 + abs(oa[1])):
            bad.append(f"ln_likelihood at point {k}: {ob[1]} vs {oa[1]}")
    # the log-density may differ by ONE constant (the density of e per per cent)
    da = [oa[2] - a["outs"][0][2] for oa in a["outs"]]
    db = [ob[2] - b["outs"][0][2] for ob in b["outs"]]
    if not all(abs(x - y) <= 1e-8 * (1 + abs(x)) for x, y in zip(da, db)):
        bad.append(f"logp differences between points: {db} (per cent) vs {da} (one)")
    if bad:
        violate(ctx, REL, g, inp, dict(differences=bad), None, "model_rv, ln_likelihood and the log-density (up to one constant) must not "
                "depend on the unit the eccentricity prior is declared in", tags=tags)


def f32const_case(ctx, g, rng, index):
    """parameters FIXED through pytensor constants, as docs/examples/Strader-circular-only does (`pm.Deterministic("omega",
    pt.constant(...))`): `pt.constant(0.5)` is float32 and `pt.constant(1)` int8.  The sampler works in double precision
    throughout; the pymc model must predict the same velocities - metamorphic: the same constants declared as float64."""
    import astropy.units as u
    import pymc as pm
    import pytensor.tensor as pt
    import thejoker as tj
    import thejoker.units as xu
    from astropy.time import Time
    REL = "setup_mcmc model with parameters fixed by float32 / integer pytensor constants = the same model with float64 constants"
    n = int(rng.integers(5, 10))
    t = 58000.0 + np.sort(rng.uniform(0, 200, n))
    data = tj.RVData(Time(t, format="mjd", scale="tcb"), rng.normal(0, 5, n) * u.km / u.s, rng.uniform(0.1, 1.0, n) * u.km / u.s)
    e0 = float(np.float32(rng.choice([0.5, 0.25, 0.3, 0.1])))       # a value a float32 constant holds exactly or not: both occur
    om0 = int(rng.choice([1, 2, 3]))
    phys = [dict(P=float(rng.uniform(3, 200)), M0=float(rng.uniform(-3, 3)), K=float(rng.choice([1, -1]) * rng.uniform(50, 200)),
                 v0=float(rng.normal(0, 10))) for _ in range(3)]
    res = {}
    inp = dict(e=e0, omega=om0, n_epochs=n, points=phys)
    ctx.evaluated(REL, (index,))
    ctx.count("f32const")
    for tag in ("narrow", "double"):
        try:
            with fast():
                with pm.Model() as model:
                    ce = pt.constant(e0) if tag == "narrow" else pt.constant(np.float64(e0))
                    co = pt.constant(om0) if tag == "narrow" else pt.constant(np.float64(om0))
                    pars = {"e": xu.with_unit(pm.Deterministic("e", ce), u.one), "omega": xu.with_unit(pm.Deterministic("omega", co), u.rad)}
                    prior = tj.JokerPrior.default(P_min=2 * u.day, P_max=256 * u.day, sigma_K0=30 * u.km / u.s, sigma_v=100 * u.km / u.s, pars=pars)
                joker = tj.TheJoker(prior, rng=np.random.default_rng(1))
                smp = tj.JokerSamples(t_ref=data.t_ref)
                smp["P"] = [17.3] * u.day
                smp["e"] = [e0] * u.one
                smp["omega"] = [float(om0)] * u.rad
                smp["M0"] = [2.2] * u.rad
                smp["s"] = [0.0] * u.km / u.s
                smp["K"] = [80.0] * u.km / u.s
                smp["v0"] = [3.0] * u.km / u.s
                with model:
                    joker.setup_mcmc(data, smp)
                f = model.compile_fn(model.replace_rvs_by_values([model["model_rv"], model["ln_likelihood"]]),
                                     inputs=model.value_vars, on_unused_input="ignore")
                outs = []
                for th in phys:
                    o = f(value_point(model, dict(th, e=e0, omega=float(om0), s=0.0)))
                    outs.append((np.asarray(o[0], dtype=float).ravel(), float(o[1]), str(np.asarray(o[0]).dtype)))
            res[tag] = dict(outs=outs)
        except Exception as e_:  # noqa: BLE001
            res[tag] = dict(error=f"{type(e_).__name__}: {str(e_)[:200]}")
    a, b = res["double"], res["narrow"]
    tags = dict(call="setup_mcmc", where="narrow-constants", custom_units=False)
    if "error" in a:
        raise core_mod.Infra("reference model (float64 constants) failed: " + a["error"])
    if "error" in b:
        violate(ctx, REL, g, inp, dict(narrow=b), None, "a prior with parameters fixed by pytensor constants (the documented circular-orbit pattern) "
                "must be usable in setup_mcmc", tags=tags)
        return
    bad = []
    for k, (oa, ob) in enumerate(zip(a["outs"], b["outs"])):
        gap = float(np.max(np.abs(oa[0] - ob[0]))) if oa[0].shape == ob[0].shape else float("inf")
        if not gap <= 1e-9 * (1 + abs(phys[k]["K"])):
            bad.append(f"model_rv at point {k}: max gap {gap:.3g} km/s for K = {phys[k]['K']:.1f} km/s (dtype {ob[2]})")
    if bad:
        violate(ctx, REL, g, inp, dict(differences=bad), None, "the sampler computes in double precision; the pymc model must predict the "
                "same radial velocities, not a single-precision version of them: " + "; ".join(bad), tags=tags)


def median_case(ctx, g, rng):
    """JokerSamples.median_period against Mcmc.medianIdx on many small libraries (ties included)"""
    import astropy.units as u
    import thejoker as tj
    from core import bits_list
    rel = "JokerSamples.median_period=Mcmc.medianIdx"
    N = int(rng.integers(1, 40))
    P = np.exp(rng.uniform(0, 5, N))
    ties = rng.random() < 0.3 and N > 2
    if ties:
        P[rng.integers(0, N, size=N // 2)] = P[0]
    unit = u.Unit(str(rng.choice(["day", "yr", "hour"])))
    s = tj.JokerSamples()
    s["P"] = P * unit
    s["e"] = rng.uniform(0, 1, N) * u.one
    s["omega"] = rng.uniform(0, 6, N) * u.rad
    s["M0"] = np.arange(N) * u.rad          # row tag
    s["s"] = np.zeros(N) * u.km / u.s
    row = s.median_period()
    i_impl = int(round(float(np.atleast_1d(row["M0"].value)[0])))
    mi = ctx.model({"op": "mcmc.median", "P": bits_list(P)})["idx"]
    kth = float(np.sort(P)[N // 2])
    ctx.evaluated(rel, (N, ties), sample=dict(N=N, ties=bool(ties), impl_row=i_impl, model_row=mi))
    ctx.count("median:ties" if ties else "median:distinct")
    ctx.count("median:even" if N % 2 == 0 else "median:odd")
    inp = dict(P=P.tolist(), unit=str(unit))
    same = all(float(np.atleast_1d(row[n].value)[0]) == float(s[n].value[i_impl]) for n in ("P", "e", "omega", "M0", "s")) and 0 <= i_impl < N
    if not same:
        violate(ctx, rel, g, inp, dict(row={n: float(np.atleast_1d(row[n].value)[0]) for n in ("P", "e", "omega", "M0")}), dict(model_idx=mi),
                      "the median-period sample must be an actual member row (all columns of one row)", tags=dict(call="median_period", where="member"))
    elif P[i_impl] != kth:
        violate(ctx, rel, g, inp, dict(row=i_impl, period=float(P[i_impl])), dict(model_idx=mi, kth_period=kth),
                      "its period must be the floor(N/2)-th order statistic", tags=dict(call="median_period", where="order-statistic"))
    elif not ties and mi != i_impl:
        ctx.mismatch(rel, g, inp, i_impl, mi, "model picks another row although periods are distinct")


def plan(ctx):
    cases = [("cfg", i) for i in range(250 if ctx.thorough else 20)]
    cases += [("median", i) for i in range(3000 if ctx.thorough else 200)]
    cases += [("eunit", i) for i in range(12 if ctx.thorough else 2)]
    cases += [("f32const", i) for i in range(12 if ctx.thorough else 2)]
    return cases


def run_case(ctx, g):
    import thejoker  # noqa: F401
    from thejoker.logging import logger
    logger.setLevel("ERROR")
    kind, index = g["kind"], g["index"]
    ctx.seed = g.get("seed", ctx.seed)
    rng = ctx.case_rng(kind, index)
    if kind == "cfg":
        cfg_case(ctx, g, rng, index)
    elif kind == "median":
        median_case(ctx, g, rng)
    elif kind == "eunit":
        eunit_case(ctx, g, rng, index)
    elif kind == "f32const":
        f32const_case(ctx, g, rng, index)


def post(ctx):
    ctx.require("setup_mcmc called a second time with other data on the same model",
                ctx.counters["second setup_mcmc call with other data: refused"] + ctx.counters["second setup_mcmc call with other data: accepted"], 5)
    c = ctx.counters
    ctx.rule = RULE
    ctx.extra["exhaustive"] = False
    ctx.require("start points with parameters behind auxiliary angle variables", c["start:parameters behind auxiliary angle variables"], 10)
    ctx.require("samples carrying another reference epoch than the data", c["tref-history:other epoch"], 3)
    ctx.require("samples stating the data's own reference epoch", c["tref-history:same epoch stated explicitly"], 3)
    ctx.require("parameters fixed by float32 / integer pytensor constants", c["f32const"], 2)
    ctx.require("eccentricity prior declared in per cent", c["eunit:FixedCompanionMass"] + c["eunit:Normal"], 2)
    ctx.require("single RVData whose rv_err is in another unit than rv", c["cfg:rv_err in another unit than rv, single RVData"], 2)
    ctx.require("several sources with rv_err in another unit than rv", c["cfg:rv_err in another unit than rv, several sources"], 1)
    ctx.require("configurations with custom units", c["cfg:custom-units"], 8)
    ctx.require("configurations with canonical units", c["cfg:canonical-units"], 3)
    ctx.require("P prior not in days", c["cfg:P-not-day"], 3)
    ctx.require("sampled jitter", c["cfg:s=sampled"], 5)
    ctx.require("constant non-zero jitter", c["cfg:s=const"], 2)
    ctx.require("points where the jitter is visible", c["point:jitter-visible"], 30)
    ctx.require("offsets", c["cfg:q=>0"], 4)
    ctx.require("configurations with >= 10 survey offsets", c["cfg:q>=10"], 2)
    ctx.require("poly_trend >= 2", c["cfg:p=2"] + c["cfg:p=3"], 5)
    ctx.require("init from several samples", c["init:N>1"], 8)
    ctx.require("init from one sample", c["init:N=1"], 1)
    ctx.require("init from exactly two samples", c["init:N=2"], 2)
    ctx.require("median with ties", c["median:ties"], 20)
    ctx.require("median even N", c["median:even"], 40)
