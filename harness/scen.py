"""Scenario engine: structured, mostly-valid problems built from the repo's own types, together with the
*declared* numbers (what the user wrote down, in the units the user chose) from which the harness derives the
Lean model's inputs independently of thejoker's own conversions.  (DESIGN.md 2.4b)"""
import math

import numpy as np

VEL_UNITS = ["km/s", "m/s", "cm/s"]
TIME_UNITS = ["day", "yr", "hour"]


def U(name):
    import astropy.units as u
    return u.Unit(name)


class Problem:
    """One inference problem: data (1..q+1 surveys), prior, declared description."""

    def __init__(self):
        self.surveys = []      # list of dict(t, rv, err, unit)  (declared, unsorted as given)
        self.keys = None       # dict keys if data given as a dict, else None (list) / 'single'
        self.p = 1
        self.q = 0
        self.desc = {}
        self.prior = None
        self.data = None
        self.model = None

    # ---- canonical numbers for the model (data unit = unit of the first survey given) ----
    @property
    def data_unit(self):
        return U(self.surveys[0]["unit"])

    def merged(self):
        """correctly labelled merged rows, sorted by time (stable): t, y, sigma (data unit), label (0 = reference)"""
        du = self.data_unit
        order = list(range(len(self.surveys)))
        if isinstance(self.keys, list):   # dict input: labels follow sorted key order
            order = sorted(range(len(self.surveys)), key=lambda i: self.keys[i])
        t, y, s, lab = [], [], [], []
        for label, i in enumerate(order):
            sv = self.surveys[i]
            f = U(sv["unit"]).to(du)
            ok = np.isfinite(sv["t"]) & np.isfinite(sv["rv"]) & np.isfinite(sv["err"])
            t += list(np.asarray(sv["t"])[ok])
            y += list((np.asarray(sv["rv"]) * U(sv["unit"])).to_value(du)[ok])
            s += list((np.asarray(sv["err"]) * U(sv.get("err_unit", sv["unit"]))).to_value(du)[ok])
            lab += [label] * int(ok.sum())
        t, y, s, lab = map(np.array, (t, y, s, lab))
        idx = np.argsort(t, kind="stable")
        return t[idx], y[idx], s[idx], lab[idx]

    def trend_matrix(self, t, lab, t_ref):
        """columns [v0 | dv0_1..dv0_q | v1..v_{p-1}]"""
        n = len(t)
        cols = [np.ones(n)]
        for j in range(1, self.q + 1):
            cols.append((lab == j).astype(float))
        dt = t - t_ref
        for l in range(1, self.p):
            cols.append(dt ** l)
        return np.stack(cols, axis=1)

    def linear_prior(self):
        """(mu, sigma, kind) per design column in data units: index 0 = K (kind 'fcm' => per-sample variance)"""
        import astropy.units as u
        du = self.data_unit
        d = self.desc
        mu, sig = [], []
        K = d["K"]
        if K["kind"] == "fcm":
            mu.append((K["mu"] * U(K["unit"])).to_value(du))
            sig.append(None)
        else:
            mu.append((K["mu"] * U(K["unit"])).to_value(du))
            sig.append((K["sigma"] * U(K["unit"])).to_value(du))
        v = d["v"]
        mu.append((v[0]["mu"] * U(v[0]["unit"])).to_value(du))
        sig.append((v[0]["sigma"] * U(v[0]["unit"])).to_value(du))
        for o in d["offsets"]:
            mu.append((o["mu"] * U(o["unit"])).to_value(du))
            sig.append((o["sigma"] * U(o["unit"])).to_value(du))
        for l in range(1, self.p):
            tu = du / u.day ** l
            mu.append((v[l]["mu"] * U(v[l]["unit"])).to_value(tu))
            sig.append((v[l]["sigma"] * U(v[l]["unit"])).to_value(tu))
        return np.array(mu, dtype=float), sig

    def fcm(self):
        """sigma_K0, max_K in data units, P0 in days"""
        K = self.desc["K"]
        du = self.data_unit
        return ((K["sigma_K0"] * U(K["unit"])).to_value(du), (K["P0"] * U(K["P0_unit"])).to_value(U("day")),
                (K["max_K"] * U(K["max_K_unit"])).to_value(du))

    def lambdaK(self, P_day, e):
        K = self.desc["K"]
        if K["kind"] != "fcm":
            return ((K["sigma"] * U(K["unit"])).to_value(self.data_unit)) ** 2
        s0, P0, mk = self.fcm()
        return min(mk ** 2, s0 ** 2 * (P_day / P0) ** (-2 / 3.) / (1 - e ** 2))

    def joker(self, rng=None, pool=None, tempfile_path=None):
        import thejoker as tj
        return tj.TheJoker(self.prior, rng=rng, pool=pool, tempfile_path=tempfile_path)


def gen_times(rng, n, baseline=None):
    if baseline is None:
        baseline = float(10 ** rng.uniform(0.3, 4.0))   # 2 d .. 27 yr
    t0 = float(rng.choice([50000.0, 55123.25, 58000.5, 59999.75]))
    t = t0 + np.sort(rng.uniform(0, baseline, n))
    # dyadic-ish times keep t - t_ref exact; mix in both kinds
    if rng.random() < 0.5:
        t = np.round(t * 64) / 64
    return t


def make_problem(rng, p=None, q=None, K_kind=None, n=None, s_kind=None, units=None, means=None,
                 data_form=None, cap=None, err_scale=None, same_units=True, build=True):
    """Build a random problem.  `units` = None (random) | 'canonical' (km/s, day) | dict overrides."""
    pr = Problem()
    pr.p = int(rng.choice([1, 1, 2, 3])) if p is None else p
    pr.q = int(rng.choice([0, 0, 1, 2])) if q is None else q
    K_kind = str(rng.choice(["fcm", "fcm", "normal"])) if K_kind is None else K_kind
    s_kind = str(rng.choice(["zero", "const", "sampled"])) if s_kind is None else s_kind
    means = bool(rng.random() < 0.5) if means is None else means
    cap = bool(rng.random() < 0.25) if cap is None else cap
    canonical = units == "canonical"

    def vunit():
        return "km/s" if canonical else str(rng.choice(VEL_UNITS, p=[0.5, 0.4, 0.1]))

    def tunit():
        return "day" if canonical else str(rng.choice(TIME_UNITS, p=[0.5, 0.3, 0.2]))

    # ---- data ----
    nsurv = pr.q + 1
    n_tot = int(rng.integers(max(nsurv, 1), 13)) if n is None else max(n, nsurv)
    sizes = np.ones(nsurv, dtype=int)
    for _ in range(n_tot - nsurv):
        sizes[rng.integers(0, nsurv)] += 1
    scatter = float(10 ** rng.uniform(-0.5, 1.5))          # km/s
    es = float(10 ** rng.uniform(-2.0, 0.7)) if err_scale is None else err_scale   # relative to scatter
    layout = str(rng.choice(["interleaved", "disjoint", "identical"])) if nsurv > 1 else "single"
    base_t = gen_times(rng, n_tot)
    dunit0 = vunit()
    for i in range(nsurv):
        if layout == "interleaved" or nsurv == 1:
            t = rng.permutation(base_t)[: sizes[i]] if nsurv > 1 else base_t
            t = np.array(t, dtype=float)
        elif layout == "disjoint":
            lo = int(sizes[:i].sum())
            t = base_t[lo: lo + sizes[i]]
        else:   # identical epochs across surveys (as far as sizes allow)
            t = base_t[: sizes[i]]
        if rng.random() < 0.5:
            t = rng.permutation(t)
        un = dunit0 if (same_units or rng.random() < 0.7) else vunit()
        f = U("km/s").to(U(un))
        rv = rng.normal(rng.normal(0, 20), scatter, len(t)) * f
        # the uncertainties may be quoted in another (equivalent) unit than the velocities
        eun = un if (canonical or rng.random() < 0.7) else str(rng.choice([x for x in VEL_UNITS if x != un]))
        err = scatter * es * rng.uniform(0.5, 1.5, len(t)) * U("km/s").to(U(eun))
        pr.surveys.append(dict(t=np.array(t), rv=np.array(rv), err=np.array(err), unit=un, err_unit=eun))
    if nsurv == 1:
        pr.keys = "single" if (data_form in (None, "single")) else None
    else:
        form = str(rng.choice(["list", "dict"])) if data_form is None else data_form
        if form == "dict":
            ks = list(rng.permutation(nsurv * 3)[:nsurv])
            pr.keys = [int(k) for k in ks] if rng.random() < 0.5 else [f"s{int(k):02d}" for k in ks]
        else:
            pr.keys = None

    # ---- prior description (declared numbers, declared units) ----
    d = pr.desc
    Pu = tunit()
    Pmin_d = float(10 ** rng.uniform(-0.3, 1.0))
    Pmax_d = Pmin_d * float(10 ** rng.uniform(0.5, 3.0))
    d["P"] = dict(unit=Pu, P_min=float((Pmin_d * U("day")).to_value(U(Pu))), P_max=float((Pmax_d * U("day")).to_value(U(Pu))))
    Ku = vunit()
    fK = U("km/s").to(U(Ku))
    if K_kind == "fcm":
        P0u = tunit()
        mku = vunit()
        sigma_K0 = float(10 ** rng.uniform(0.5, 2.0))     # km/s
        max_K = float(sigma_K0 * 10 ** rng.uniform(-1.0, -0.2)) if cap else 500.0
        d["K"] = dict(kind="fcm", unit=Ku, sigma_K0=sigma_K0 * fK, mu=(float(rng.normal(0, 5)) * fK if means else 0.0),
                      P0=float((float(10 ** rng.uniform(0.5, 2.8)) * U("day")).to_value(U(P0u))), P0_unit=P0u,
                      max_K=float(max_K * U("km/s").to(U(mku))), max_K_unit=mku, explicit=bool(means or cap or rng.random() < 0.3))
    else:
        d["K"] = dict(kind="normal", unit=Ku, mu=(float(rng.normal(0, 5)) * fK if means else 0.0),
                      sigma=float(10 ** rng.uniform(0.3, 1.8)) * fK)
    d["v"] = []
    custom_v = means or rng.random() < 0.3
    for l in range(pr.p):
        vu = vunit()
        tu = "day" if canonical else str(rng.choice(["day", "yr"]))
        unit = vu if l == 0 else f"{vu} / {tu}{'' if l == 1 else str(l)}"
        f = U("km/s").to(U(vu)) / (U("day").to(U(tu)) ** l)
        scale = float(10 ** rng.uniform(1.0, 2.5)) / (300.0 ** l)
        d["v"].append(dict(unit=unit, sigma=scale * f, mu=(float(rng.normal(0, scale / 3)) * f if (means and custom_v) else 0.0)))
    d["custom_v"] = bool(custom_v)
    d["offsets"] = []
    for j in range(pr.q):
        ou = vunit()
        f = U("km/s").to(U(ou))
        d["offsets"].append(dict(unit=ou, sigma=float(10 ** rng.uniform(-0.5, 1.0)) * f,
                                 mu=(float(rng.normal(0, 1)) * f if means else 0.0)))
    su = vunit()
    fs = U("km/s").to(U(su))
    if s_kind == "zero":
        d["s"] = dict(kind="zero", unit=su, value=0.0)
    elif s_kind == "const":
        d["s"] = dict(kind="const", unit=su, value=float(scatter * es * 10 ** rng.uniform(-0.5, 0.7)) * fs)
    else:
        d["s"] = dict(kind="sampled", unit=su, mu=float(math.log(scatter * es * fs)), sigma=0.7)
    d["scatter_kms"] = scatter
    d["err_rel"] = es
    d["layout"] = layout
    # "nice" prior numbers: constants that are exactly representable in float32 (as 6000.0, 0.5, -300.0 are) become float32
    # constants in the pytensor graph; whatever the package does with them, the declared value is this number.  Decided from the
    # declared content (no generator call), for about half of the problems.
    if int(abs(float(d["P"]["P_min"])) * 1e6) % 2 == 1:
        f32 = lambda x: float(np.float32(x))      # noqa: E731
        if d["K"]["kind"] == "normal":
            d["K"]["mu"], d["K"]["sigma"] = f32(d["K"]["mu"]), f32(d["K"]["sigma"])
        else:
            d["K"]["mu"] = f32(d["K"]["mu"])
        for v in d["v"]:
            v["mu"], v["sigma"] = f32(v["mu"]), f32(v["sigma"])
        for o in d["offsets"]:
            o["mu"], o["sigma"] = f32(o["mu"]), f32(o["sigma"])
        d["float32_representable_prior_numbers"] = True
    if build:
        build_objects(pr)
    return pr


def build_objects(pr):
    """construct RVData / JokerPrior from the declared description"""
    import astropy.units as u
    import pymc as pm
    import thejoker as tj
    import thejoker.units as xu
    from thejoker.distributions import FixedCompanionMass
    from thejoker.prior import default_nonlinear_prior
    d = pr.desc
    datas = [tj.RVData(t=sv["t"], rv=sv["rv"] * U(sv["unit"]), rv_err=sv["err"] * U(sv.get("err_unit", sv["unit"]))) for sv in pr.surveys]
    if pr.keys == "single":
        pr.data = datas[0]
    elif pr.keys is None:
        pr.data = datas
    else:
        pr.data = {k: dd for k, dd in zip(pr.keys, datas)}
    with pm.Model() as model:
        pars = {}
        s = d["s"]
        if s["kind"] == "sampled":
            s_arg = xu.with_unit(pm.Lognormal("s", s["mu"], s["sigma"]), U(s["unit"]))
        else:
            s_arg = s["value"] * U(s["unit"])
        Pu = U(d["P"]["unit"])
        K = d["K"]
        if K["kind"] == "normal":
            pars["K"] = xu.with_unit(pm.Normal("K", K["mu"], K["sigma"]), U(K["unit"]))
        elif K["explicit"]:
            nl = default_nonlinear_prior(d["P"]["P_min"] * Pu, d["P"]["P_max"] * Pu, s=s_arg, model=model)
            pars.update(nl)
            pars["K"] = xu.with_unit(
                FixedCompanionMass("K", P=nl["P"], e=nl["e"], sigma_K0=K["sigma_K0"] * U(K["unit"]),
                                   P0=K["P0"] * U(K["P0_unit"]), mu=K["mu"], max_K=K["max_K"] * U(K["max_K_unit"])),
                U(K["unit"]))
        sigma_v = None
        if d["custom_v"]:
            for l, v in enumerate(d["v"]):
                pars[f"v{l}"] = xu.with_unit(pm.Normal(f"v{l}", v["mu"], v["sigma"]), U(v["unit"]))
        else:
            sigma_v = [v["sigma"] * U(v["unit"]) for v in d["v"]]
            if pr.p == 1:
                sigma_v = sigma_v[0]
        offs = [xu.with_unit(pm.Normal(f"dv0_{j+1}", o["mu"], o["sigma"]), U(o["unit"])) for j, o in enumerate(d["offsets"])]
        # the list handed to JokerPrior need not be in name order: the parameter NAMED dv0_k belongs to the k-th further
        # survey whatever its position in the list (decided from the declared content, not from the generator, so that
        # the case streams do not move)
        if len(offs) >= 2 and int(abs(float(d["offsets"][0]["mu"])) * 1e6 + abs(float(d["offsets"][-1]["sigma"])) * 1e6) % 2 == 1:
            offs = offs[::-1]
            d["offsets_list_order"] = "reversed"
        elif len(offs) >= 2:
            d["offsets_list_order"] = "by name"
        kw = {}
        if K["kind"] == "fcm" and not K["explicit"]:
            kw = dict(sigma_K0=K["sigma_K0"] * U(K["unit"]), P0=K["P0"] * U(K["P0_unit"]))
        pr.prior = tj.JokerPrior.default(P_min=d["P"]["P_min"] * Pu, P_max=d["P"]["P_max"] * Pu, sigma_v=sigma_v,
                                        s=s_arg, poly_trend=pr.p, v0_offsets=offs or None, pars=pars or None,
                                        model=model, **kw)
    pr.model = model
    return pr


def make_library(rng, pr, N, units=None, e_max=0.95, ln_prior=True, s_values=None):
    """Hand-built prior-sample library for problem `pr` (no pymc draw: fast).  Returns (JokerSamples, dict of
    physical arrays in internal units: P[day], e, omega[rad], M0[rad], s[data unit])."""
    import astropy.units as u
    import thejoker as tj
    d = pr.desc
    Pu = U(d["P"]["unit"])
    lo, hi = (d["P"]["P_min"] * Pu).to_value(u.day), (d["P"]["P_max"] * Pu).to_value(u.day)
    P = np.exp(rng.uniform(np.log(lo), np.log(hi), N))
    e = np.where(rng.random(N) < 0.15, 0.0, rng.beta(0.867, 3.03, N) * e_max / 1.0)
    e = np.clip(e, 0, e_max)
    om = rng.uniform(0, 2 * np.pi, N)
    M0 = rng.uniform(0, 2 * np.pi, N)
    du = pr.data_unit
    s = d["s"]
    if s_values is not None:
        sv = np.asarray(s_values, dtype=float)
    elif s["kind"] == "zero":
        sv = np.zeros(N)
    elif s["kind"] == "const":
        sv = np.full(N, (s["value"] * U(s["unit"])).to_value(du))
    else:
        sv = (np.exp(rng.normal(s["mu"], s["sigma"], N)) * U(s["unit"])).to_value(du)
    canonical = units == "canonical"
    cu = dict(P=u.day, e=u.one, omega=u.rad, M0=u.rad, s=du)
    if not canonical:
        cu["P"] = U(str(rng.choice(TIME_UNITS)))
        cu["omega"] = U(str(rng.choice(["rad", "deg"])))
        cu["M0"] = U(str(rng.choice(["rad", "deg"])))
        cu["s"] = U(str(rng.choice(VEL_UNITS)))
    if isinstance(units, dict):
        cu.update({k: U(v) for k, v in units.items()})
    samples = tj.JokerSamples(poly_trend=pr.p, n_offsets=pr.q)
    samples["P"] = (P * u.day).to(cu["P"])
    samples["e"] = e * u.one
    samples["omega"] = (om * u.rad).to(cu["omega"])
    samples["M0"] = (M0 * u.rad).to(cu["M0"])
    samples["s"] = (sv * du).to(cu["s"])
    if ln_prior:
        # recognisable values, different from library to library (a stale ln_prior of ANOTHER library must be
        # visible); derived from the content, not from the generator, so that the case streams do not move
        base = float(int(abs(float(P[0])) * 1e6) % 9973) * 64.0
        samples["ln_prior"] = base + np.arange(N) + 0.5
    phys = dict(P=P, e=e, omega=om, M0=M0, s=sv, units={k: str(v) for k, v in cu.items()})
    return samples, phys


def kepler_column(t, P, e, omega, M0, t_ref, tol=1e-10, maxiter=128):
    """the oracle for the K column of the design matrix: unit-amplitude Kepler RV at the data epochs"""
    from twobody.wrap import cy_rv_from_elements
    return np.array(cy_rv_from_elements(np.ascontiguousarray(t, dtype="f8"), float(P), 1.0, float(e), float(omega),
                                        float(M0), float(t_ref), tol, maxiter))
