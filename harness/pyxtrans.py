"""Translate thejoker/src/fast_likelihood.pyx (the Cython subset it uses) into a runnable
pure-Python *source twin*, regenerated from the current file on every run.

There is no Cython in this sandbox, so the compiled extension in /repo cannot be rebuilt from an
edited .pyx.  The twin is what ties the kernel-anchored checks to the source as it is *now*.
See DESIGN.md section 2.4(a).
"""
import re, sys, ast, types
import numpy as np

TYPE_RE = r"(?:public\s+)?(?:readonly\s+)?(?:const\s+)?(?:unsigned\s+)?(?:int|double|float|long\s+long|long|char\s*\*|object|bint|Py_ssize_t|size_t|str|list|dict|tuple)(?:\s*\[[^\]]*\])?"


def split_args(s):
    out, depth, cur = [], 0, ""
    for ch in s:
        if ch in "([{":
            depth += 1
        elif ch in ")]}":
            depth -= 1
        if ch == "," and depth == 0:
            out.append(cur.strip()); cur = ""
        else:
            cur += ch
    if cur.strip():
        out.append(cur.strip())
    return out


def logical_lines(text):
    """join physical lines while parentheses are open; keep (indent, text, lineno)"""
    res, buf, depth, start = [], "", 0, 0
    for no, line in enumerate(text.split("\n"), 1):
        code = line.split("#")[0] if "'" not in line and '"' not in line else line
        def nocomment(l):
            outc, q = "", None
            for ch in l:
                if q:
                    outc += ch
                    if ch == q: q = None
                elif ch in "'\"":
                    q = ch; outc += ch
                elif ch == "#":
                    break
                else:
                    outc += ch
            return outc.rstrip()
        if not buf:
            start = no
            buf = line
            first = True
        else:
            if first:
                buf = nocomment(buf); first = False
            buf += " " + nocomment(line).strip()
        # crude paren depth ignoring strings
        stripped = re.sub(r"(\"[^\"]*\"|'[^']*')", "", code)
        depth += sum(stripped.count(c) for c in "([{") - sum(stripped.count(c) for c in ")]}")
        if depth <= 0:
            res.append((start, buf)); buf = ""; depth = 0
    if buf:
        res.append((start, buf))
    return res


def strip_param_types(params):
    out = []
    for p in split_args(params):
        default = None
        if "=" in p:
            p, default = p.split("=", 1)
        name = re.findall(r"[A-Za-z_]\w*", p)[-1]
        out.append(name + ("=" + default if default is not None else ""))
    return ", ".join(out)


def ptr_arg(a):
    """'&(self.Atmp[0, 0])' / '&self.npar_ipiv[0]' / '&(self.npar_ipiv)[0]' / '&info' -> (base, index or None)"""
    a = a.strip()
    assert a.startswith("&"), a
    a = a[1:].strip()
    m = re.match(r"^\((.*)\)\s*(\[.*\])?$", a)
    if m:
        inner, idx = m.group(1), m.group(2)
        a = inner + (idx or "")
    m = re.match(r"^(.*?)\[([^\]]*)\]$", a)
    if m:
        return m.group(1).strip(), "(" + m.group(2) + ",)"
    return a, None


_CAST = re.compile(r"<\s*(?:unsigned\s+)?(?:int|long|double|float|bint|object|Py_ssize_t|size_t|np\.\w+_t)\s*\*?\s*>")


def _strip_casts(line):
    """drop C casts such as <double>x (outside string literals and comments)"""
    code, sep, comment = line.partition("#")
    if "'" in code or '"' in code:
        return line
    return _CAST.sub("", code) + sep + comment


def translate(src):
    out = []
    lines = logical_lines(src)
    i = 0
    in_cdef_block = None  # indent of block content
    skip_block_indent = None
    while i < len(lines):
        no, line = lines[i]; i += 1
        raw = line
        stripped = line.strip()
        indent = len(line) - len(line.lstrip())
        if skip_block_indent is not None:
            if stripped == "" or indent > skip_block_indent:
                continue
            skip_block_indent = None
        if in_cdef_block is not None:
            if stripped == "" or stripped.startswith("#"):
                out.append(line); continue
            if indent > in_cdef_block:
                m = re.match(r"^(\s*)(" + TYPE_RE + r")\s*(.*)$", line)
                if not m:
                    raise SyntaxError(f"line {no}: cannot parse declaration {line!r}")
                rest = m.group(3)
                pad = " " * in_cdef_block
                if "=" in rest and not re.match(r"^[\w\s,]*$", rest):
                    out.append(pad + rest)
                else:
                    out.append(pad + "pass  # decl " + rest)
                continue
            in_cdef_block = None
        if stripped.startswith("cimport ") or re.match(r"^from\s+\S+\s+cimport\s", stripped):
            out.append(" " * indent + "pass  # " + stripped); continue
        if stripped in ("np.import_array()", "import cython"):
            out.append(" " * indent + "pass  # " + stripped); continue
        if stripped.startswith("cdef extern"):
            skip_block_indent = indent; continue
        if stripped == "cdef:":
            in_cdef_block = indent; continue
        m = re.match(r"^(\s*)cdef\s+class\s+(\w+)\s*:", line)
        if m:
            out.append(f"{m.group(1)}class {m.group(2)}:"); continue
        m = re.match(r"^(\s*)(?:cdef|cpdef|def)\s+(?:inline\s+)?(?:(?:void|int|long|double|float|object|bint|Py_ssize_t|size_t)\s*\*?\s+)?(\w+)\s*\((.*)\)"
                     r"\s*(?:(?:noexcept|nogil|except\s*[-+*?\w.]*)\s*)*:\s*$", line)
        if m and not re.match(r"^\s*def\s", line) or (m and re.match(r"^\s*def\s", line)):
            out.append(f"{m.group(1)}def {m.group(2)}({strip_param_types(m.group(3))}):"); continue
        # Cython-only decorators and nogil blocks
        if re.match(r"^\s*@cython\.\w+(\(.*\))?\s*$", line) or re.match(r"^\s*@(cython\.)?(cfunc|ccall|inline|final)\s*$", line):
            continue
        m = re.match(r"^(\s*)with\s+(?:nogil|gil)\s*:\s*$", line)
        if m:
            out.append(f"{m.group(1)}if True:"); continue
        m = re.match(r"^(\s*)cdef\s+(" + TYPE_RE + r")\s*(.*)$", line)
        if m:
            rest = m.group(3)
            if "=" in rest:
                out.append(m.group(1) + rest)
            else:
                out.append(m.group(1) + "pass  # decl " + rest)
            continue
        m = re.match(r"^(\s*)lapack\.(\w+)\((.*)\)\s*$", line)
        if m:
            pad, fn, args = m.group(1), m.group(2), split_args(m.group(3))
            if fn == "dgetrf":
                A, ipiv, info = ptr_arg(args[2]), ptr_arg(args[4]), ptr_arg(args[5])
                out.append(f"{pad}{info[0]} = _rt.dgetrf({ptr_arg(args[0])[0]}, {ptr_arg(args[1])[0]}, {A[0]}, {A[1]}, {ipiv[0]}, {ipiv[1]})")
            elif fn == "dgetri":
                A, ipiv, info = ptr_arg(args[1]), ptr_arg(args[3]), ptr_arg(args[6])
                out.append(f"{pad}{info[0]} = _rt.dgetri({ptr_arg(args[0])[0]}, {A[0]}, {A[1]}, {ipiv[0]}, {ipiv[1]})")
            elif fn == "dsysv":
                A, ipiv, b, info = ptr_arg(args[3]), ptr_arg(args[5]), ptr_arg(args[6]), ptr_arg(args[10])
                out.append(f"{pad}{info[0]} = _rt.dsysv({args[0]}, {ptr_arg(args[1])[0]}, {A[0]}, {A[1]}, {ipiv[0]}, {b[0]}, {b[1]})")
            else:
                raise SyntaxError(f"line {no}: unknown lapack routine {fn}")
            continue
        m = re.match(r"^(\s*)c_rv_from_elements\((.*)\)\s*$", line)
        if m:
            pad, args = m.group(1), split_args(m.group(2))
            t, rv = ptr_arg(args[0]), ptr_arg(args[1])
            out.append(f"{pad}_rt.c_rv_from_elements({t[0]}, {t[1]}, {rv[0]}, {rv[1]}, {', '.join(args[2:])})")
            continue
        if "&" in re.sub(r"(\"[^\"]*\"|'[^']*')", "", stripped.split("#")[0]):
            raise SyntaxError(f"line {no}: unsupported address-of in {line!r}")
        out.append(line)
    py = "\n".join(_strip_casts(l) for l in out)
    ast.parse(py)
    return py


class RT:
    """runtime shims"""
    import scipy.linalg.lapack as _lp
    from twobody.wrap import cy_rv_from_elements as _kep

    @staticmethod
    def dgetrf(m, n, A, idx, ipiv, ipidx):
        # row-major array handed to Fortran == transpose; LU of A^T
        assert tuple(idx) == (0, 0) and tuple(ipidx) == (0,)
        lu, piv, info = RT._lp.dgetrf(np.asarray(A).T, overwrite_a=False)
        np.asarray(A)[...] = lu.T
        np.asarray(ipiv)[...] = piv + 1
        return info

    @staticmethod
    def dgetri(n, A, idx, ipiv, ipidx):
        inv, info = RT._lp.dgetri(np.asarray(A).T.copy(order="F"), np.asarray(ipiv) - 1)
        np.asarray(A)[...] = inv.T
        return info

    @staticmethod
    def dsysv(uplo, n, A, idx, ipiv, b, bidx):
        lower = 0 if uplo in ("U", b"U") else 1
        udut, piv, x, info = RT._lp.dsysv(np.asarray(A).T.copy(order="F"), np.asarray(b).copy(), lower=lower)
        np.asarray(b)[...] = x
        return info

    @staticmethod
    def c_rv_from_elements(t, tidx, rv, rvidx, N, P, K, e, om, M0, t0, tol, maxiter):
        t = np.asarray(t); rv = np.asarray(rv)
        toff = int(np.ravel_multi_index(tuple(tidx), t.shape))
        roff = int(np.ravel_multi_index(tuple(rvidx), rv.shape))
        vals = np.array(RT._kep(np.ascontiguousarray(t.reshape(-1)[toff:toff + N]), P, K, e, om, M0, t0, tol, maxiter))
        rv.reshape(-1)[roff:roff + N] = vals


import importlib.abc, importlib.machinery

class TwinFinder(importlib.abc.MetaPathFinder, importlib.abc.Loader):
    NAME = "thejoker.src.fast_likelihood"
    def __init__(self, path):
        self.path = path
        self.py = translate(open(path).read())
    def find_spec(self, fullname, path=None, target=None):
        if fullname == self.NAME:
            return importlib.machinery.ModuleSpec(fullname, self, origin=self.path + "<twin>")
        return None
    def create_module(self, spec):
        return None
    def exec_module(self, module):
        module.__dict__["_rt"] = RT
        module.__dict__["__twin__"] = True
        with np.errstate(all="ignore"):
            exec(compile("from math import pow, log, fabs, pi\n" + self.py, self.path + "<twin>", "exec"), module.__dict__)

def install_twin(path):
    f = TwinFinder(path)
    sys.meta_path.insert(0, f)
    return f

def load_twin(path):
    src = open(path).read()
    py = translate(src)
    mod = types.ModuleType("thejoker.src.fast_likelihood")
    mod.__dict__["_rt"] = RT
    mod.__dict__["lapack"] = None
    import math
    with np.errstate(all="ignore"):
        exec(compile("from math import pow, log, fabs, pi\n" + py, path + "<twin>", "exec"), mod.__dict__)
    return mod, py




# ---------------------------------------------------------------------------------------------
# staleness of the compiled binary: Cython embeds each translated source line in the .c file

def embedded_pyx_lines(c_path):
    """{lineno: text} of the .pyx lines Cython embedded in the generated C file."""
    out = {}
    pat = re.compile(r'^\s*/\* "thejoker/src/fast_likelihood\.pyx":(\d+)\s*$')
    try:
        lines = open(c_path, errors="replace").read().split("\n")
    except OSError:
        return None
    i = 0
    while i < len(lines):
        m = pat.match(lines[i])
        if m:
            j = i + 1
            while j < len(lines) and "*/" not in lines[j]:
                mm = re.match(r"^ \* (.*?)\s*# <<<<<<<<<<<<<<\s*$", lines[j])
                if mm:
                    out[int(m.group(1))] = mm.group(1).rstrip()
                j += 1
            i = j
        i += 1
    return out


def binary_is_fresh(pyx_path, c_path):
    """True iff every source line embedded in the .c equals the current .pyx line (whitespace-insensitive)
    and the .pyx has no code line beyond what the .c knows about in executable regions.  Conservative:
    any doubt -> stale."""
    emb = embedded_pyx_lines(c_path)
    if not emb:
        return False, "no embedded source lines / no .c file"
    cur = open(pyx_path).read().split("\n")
    norm = lambda x: re.sub(r"\s+", " ", x.split("#")[0]).strip()
    for no, text in emb.items():
        if no - 1 >= len(cur) or norm(cur[no - 1]) != norm(text):
            return False, f"line {no} differs: .c has {text!r}, .pyx has {cur[no-1] if no-1 < len(cur) else None!r}"
    last = max(i for i, l in enumerate(cur, 1) if norm(l))
    if max(emb) != last:
        return False, f".pyx has code up to line {last}, .c knows lines up to {max(emb)}"
    return True, "all embedded lines match"
