"""./check Cxx [--replay file]   -- decide one property (DESIGN.md 2.4c)."""
import glob
import importlib
import json
import os
import sys
import time
import traceback
import warnings

HERE = os.path.dirname(os.path.abspath(__file__))
sys.path.insert(0, HERE)
warnings.filterwarnings("ignore")

import core  # noqa: E402


def install_twin(ctx):
    """Serve thejoker.src.fast_likelihood from the current .pyx source (DESIGN 2.4a)."""
    import pyxtrans
    pyx = os.path.join(core.REPO, "thejoker", "src", "fast_likelihood.pyx")
    cfile = os.path.join(core.REPO, "thejoker", "src", "fast_likelihood.c")
    info = {"pyx": pyx}
    try:
        fresh, why = pyxtrans.binary_is_fresh(pyx, cfile)
    except Exception as e:  # noqa
        fresh, why = False, f"staleness check failed: {e!r}"
    info["binary_fresh"] = fresh
    info["binary_note"] = why
    try:
        pyxtrans.install_twin(pyx)
        info["twin"] = "installed"
    except SyntaxError as e:
        info["twin"] = f"translation failed: {e}"
    ctx.extra["kernel_source"] = info
    return info


def main(argv):
    if not argv or not argv[0].startswith("C"):
        print("usage: check Cxx [--replay file]")
        return 2
    prop = argv[0]
    replay = None
    if "--replay" in argv:
        replay = argv[argv.index("--replay") + 1]
    tier = os.environ.get("VERIF_TIER", "quick")
    tier = "thorough" if tier.startswith("thor") else "quick"
    seed = int(os.environ.get("VERIF_SEED", "0") or 0)
    ctx = core.Ctx(prop, tier, seed, replay=replay)
    try:
        info = install_twin(ctx)
        sys.path.insert(0, core.REPO)
        mod = importlib.import_module(f"props.{prop.lower()}")
        if info["twin"] != "installed" and getattr(mod, "NEEDS_KERNEL", False):
            ctx.lean = core.lean_check(prop, ctx.log, thorough=ctx.thorough)
            ctx.violation("tie:pyx-translator", None, {"file": info["pyx"]}, info["twin"], None,
                          "the kernel source must stay inside the Cython subset the translator understands "
                          "so that the model can be compared with it", no_input=True)
            return ctx.finish()
        ctx.lean = core.lean_check(prop, ctx.log, thorough=ctx.thorough)
        if not ctx.lean["ok"]:
            ctx.log("[lean] NOT OK: " + ctx.lean["detail"][:2000])
        if hasattr(mod, "setup"):
            mod.setup(ctx)
        if replay:
            r = json.load(open(replay))
            gens = [r["gen"]] if r.get("gen") else []
        else:
            gens = []
            for f in sorted(glob.glob(os.path.join(core.VERIF, "corpus", prop, "*.json"))):
                gens.append(json.load(open(f))["gen"])
            ctx.count("corpus_cases", len(gens))
            gens += [dict(kind=k, index=i, seed=seed) for (k, i) in mod.plan(ctx)]
        budget = float(os.environ.get("VERIF_BUDGET_S", "0") or 0)
        for g in gens:
            if budget and time.time() - ctx.t0 > budget:
                ctx.notes.append(f"time budget {budget}s reached after {ctx.evaluations} evaluations")
                break
            ctx.seed_for_case = g.get("seed", seed)
            try:
                mod.run_case(ctx, g)
            except core.Infra:
                raise
            except Exception as e:  # an exception escaping the real code is an observation, not a crash of the check
                tb = traceback.extract_tb(e.__traceback__)
                frames = [f for f in tb if f.filename.startswith(core.REPO) or "<twin>" in f.filename]
                if frames and not isinstance(e, (MemoryError, KeyboardInterrupt)):
                    ctx.violation("impl:unexpected-exception", g, g, f"{type(e).__name__}: {e}"[:500], None,
                                  "valid input must not make the implementation raise",
                                  tags={"exception": type(e).__name__, "kind": g.get("kind")})
                else:
                    raise
        if hasattr(mod, "post"):
            mod.post(ctx)
        return ctx.finish()
    except core.Infra as e:
        print(f"INFRA: {e}", flush=True)
        traceback.print_exc()
        try:
            ctx.notes.append(f"infrastructure failure: {e}")
            ctx.finish()
        except Exception:
            pass
        return 2
    except Exception as e:
        print(f"INFRA: unexpected harness error {type(e).__name__}: {e}", flush=True)
        traceback.print_exc()
        return 2


if __name__ == "__main__":
    sys.exit(main(sys.argv[1:]))
