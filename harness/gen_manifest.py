"""Regenerate MANIFEST.json from the table below (kept in one place so it is always schema-valid)."""
import json, os
HERE = os.path.dirname(os.path.dirname(os.path.abspath(__file__)))
props = {json.loads(l)["id"]: json.loads(l) for l in open(os.path.join(HERE, "properties.jsonl"))}

# one JSON file per claimed property: harness/manifest.d/Cxx.json = {design_ref, text, note, technique}
import glob
CLAIMED = {}
for f in sorted(glob.glob(os.path.join(HERE, "harness", "manifest.d", "C*.json"))):
    d = json.load(open(f))
    CLAIMED[os.path.basename(f)[:-5]] = (d["design_ref"], d["text"], d["note"], d["technique"])
checks = []
for pid, (ref, text, note, tech) in CLAIMED.items():
    checks.append({
        "property_id": pid,
        "quick_cmd": f"./check {pid}",
        "thorough_cmd": f"VERIF_TIER=thorough ./check {pid}",
        "evidence_file": f"evidence/{pid}.json",
        "replay_cmd_template": f"./check {pid} --replay {{path}}",
        "engine": "lean4-proof+correspondence",
        "level_claimed": {"category": "proof", "text": text, "design_ref": ref},
        "level_note": note,
        "technique": tech,
    })
na = [{"property_id": pid, "reason": "check under construction in this session: model/theorems designed in DESIGN.md section 3 but not yet wired into ./check"}
      for pid in props if pid not in CLAIMED]
m = {
    "version": 1,
    "setup_cmd": "./setup.sh",
    "hooks": {
        "guard": "THEJOKER_VERIF",
        "enable": "no hooks are compiled into /repo: observation uses public arguments (rng, pool, tempfile_path), module-attribute patching from the harness and a sys.meta_path finder serving a source twin of fast_likelihood.pyx",
        "baseline_off_cmd": "cd /repo && /venv/bin/python -m pytest -ra -q -p no:cacheprovider --timeout=900 --continue-on-collection-errors",
        "source_commits": [],
        "add_only": True,
    },
    "engines": [{
        "name": "lean4-proof+correspondence", "path": "lean/ + harness/",
        "serves_properties": sorted(CLAIMED),
        "kind_free_text": "Lean 4 theorems about a hand-written executable model; model tied to /repo on every run by a differential correspondence harness (real code in-process vs `lake env lean --run Driver.lean`), kernel source served through a pyx->Python translator",
    }],
    "checks": checks,
    "not_applicable": na,
    "notes": ("See DESIGN.md (sections 7.4-7.9: triage, seeded changes, bug hunts). Exit codes: 0 held, 1 violation (VIOLATION "
              "line), 2 infrastructure failure. Known findings (committed list, never written at run time): known_findings.json "
              "- 'findings' entries (C01/C07 Woodbury cancellation, C10 child streams from the private seed sequence, C13 "
              "disk-full cache write) print a KNOWN-FINDING line and leave the exit code at 0; 'fixed' entries document the "
              "66 'fix:' commits in /repo and suppress nothing. Checks honour VERIF_SEED, VERIF_TIER, and VERIF_REPO (private "
              "copy of the repository; evidence/ is only written for /repo itself)."),
}
json.dump(m, open(os.path.join(HERE, "MANIFEST.json"), "w"), indent=1)
print("claimed", sorted(CLAIMED), "not_applicable", len(na))
