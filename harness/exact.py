"""Exact (fractions.Fraction) mode of the source twin of fast_likelihood.pyx  (DESIGN.md 2.4a, last bullet).

The translated source is re-executed with every float literal turned into an exact rational, non-integer powers
routed through a double-precision oracle, and the LAPACK shims replaced by exact Gaussian elimination.  What the
twin then computes is the *algebra* of the current source, free of rounding, so it can be compared with the Lean
model over Q and with closed forms without a round-off budget."""
import ast
import math
import numbers
import types
from fractions import Fraction as F

import numpy as np

import pyxtrans


def toF(x):
    if isinstance(x, F):
        return x
    return F(float(x))


def farr(a):
    a = np.asarray(a)
    out = np.empty(a.shape, dtype=object)
    for idx in np.ndindex(a.shape):
        out[idx] = toF(a[idx])
    return out


class PowRewriter(ast.NodeTransformer):
    def visit_BinOp(self, node):
        self.generic_visit(node)
        if isinstance(node.op, ast.Pow):
            if isinstance(node.right, ast.Constant) and isinstance(node.right.value, int):
                return node
            return ast.copy_location(ast.Call(func=ast.Attribute(value=ast.Name(id="_rt", ctx=ast.Load()), attr="pow_", ctx=ast.Load()),
                                              args=[node.left, node.right], keywords=[]), node)
        return node


class FloatConstRewriter(ast.NodeTransformer):
    def visit_Constant(self, node):
        if isinstance(node.value, float):
            return ast.copy_location(ast.Call(func=ast.Attribute(value=ast.Name(id="_rt", ctx=ast.Load()), attr="F", ctx=ast.Load()),
                                              args=[ast.Constant(value=node.value)], keywords=[]), node)
        return node


def gauss_inv(A):
    n = A.shape[0]
    M = [[A[i, j] for j in range(n)] + [F(int(i == j)) for j in range(n)] for i in range(n)]
    for c in range(n):
        piv = next((r for r in range(c, n) if M[r][c] != 0), None)
        if piv is None:
            return None
        M[c], M[piv] = M[piv], M[c]
        pv = M[c][c]
        M[c] = [v / pv for v in M[c]]
        for r in range(n):
            if r != c and M[r][c] != 0:
                f = M[r][c]
                M[r] = [a - f * b for a, b in zip(M[r], M[c])]
    return np.array([[M[i][n + j] for j in range(n)] for i in range(n)], dtype=object)


def gauss_solve_det(A, b):
    """exact solve A z = b and det A (Fractions); returns (z or None, det)"""
    n = len(b)
    M = [[F(A[i][j]) for j in range(n)] + [F(b[i])] for i in range(n)]
    det = F(1)
    for c in range(n):
        piv = next((r for r in range(c, n) if M[r][c] != 0), None)
        if piv is None:
            return None, F(0)
        if piv != c:
            M[c], M[piv] = M[piv], M[c]
            det = -det
        det *= M[c][c]
        for r in range(c + 1, n):
            if M[r][c] != 0:
                f = M[r][c] / M[c][c]
                M[r] = [a - f * bb for a, bb in zip(M[r], M[c])]
    z = [F(0)] * n
    for i in range(n - 1, -1, -1):
        z[i] = (M[i][n] - sum(M[i][j] * z[j] for j in range(i + 1, n))) / M[i][i]
    return z, det


class XRT:
    F = staticmethod(lambda x: F(x))
    _pending = {}

    @staticmethod
    def pow_(x, y):   # oracle: evaluate in double precision, re-enter exactly
        if not (isinstance(x, (numbers.Real, F)) and isinstance(y, (numbers.Real, F))):
            return x ** y
        if isinstance(y, int) or (isinstance(y, F) and y.denominator == 1):
            return F(x) ** int(y)
        return F(float(x) ** float(y))

    @staticmethod
    def dgetrf(m, n, A, idx, ipiv, ipidx):
        A_ = np.asarray(A)
        n_ = A_.shape[0]
        XRT._pending[id(A_)] = A_.copy()
        M = [[A_[i, j] for j in range(n_)] for i in range(n_)]
        for c in range(n_):
            piv = next((r for r in range(c, n_) if M[r][c] != 0), None)
            if piv is None:
                return c + 1
            if piv != c:
                M[c], M[piv] = M[piv], M[c]
            for r in range(c + 1, n_):
                f = M[r][c] / M[c][c]
                M[r] = [a - f * b for a, b in zip(M[r], M[c])]
        for i in range(n_):
            for j in range(n_):
                A_[i, j] = M[i][j]
        return 0

    @staticmethod
    def dgetri(n, A, idx, ipiv, ipidx):
        A_ = np.asarray(A)
        orig = XRT._pending.pop(id(A_), None)
        if orig is None:
            raise RuntimeError("dgetri without a preceding dgetrf on the same array")
        inv = gauss_inv(orig)
        if inv is None:
            return 1
        A_[...] = inv
        return 0

    @staticmethod
    def dsysv(uplo, n, A, idx, ipiv, b, bidx):
        # LAPACK reads only the triangle named by uplo; mirror it so a non-symmetric input behaves as in LAPACK
        A_ = np.asarray(A).copy()
        n_ = A_.shape[0]
        upper_c = uplo in ("U", b"U")   # row-major memory handed to Fortran: 'U' there = lower triangle here
        for i in range(n_):
            for j in range(i + 1, n_):
                if upper_c:
                    A_[i, j] = A_[j, i]
                else:
                    A_[j, i] = A_[i, j]
        inv = gauss_inv(A_)
        if inv is None:
            return 1
        bb = np.asarray(b)
        x = inv.dot(bb)
        bb[...] = x
        return 0

    @staticmethod
    def c_rv_from_elements(t, tidx, rv, rvidx, N, P, K, e, om, M0, t0, tol, maxiter):
        from twobody.wrap import cy_rv_from_elements as kep
        tt = np.array([float(v) for v in np.asarray(t).reshape(-1)])
        toff = int(np.ravel_multi_index(tuple(tidx), np.asarray(t).shape))
        vals = np.array(kep(np.ascontiguousarray(tt[toff:toff + N]), float(P), float(K), float(e), float(om), float(M0),
                            float(t0), float(tol), int(maxiter)))
        rvv = np.asarray(rv)
        roff = int(np.ravel_multi_index(tuple(rvidx), rvv.shape))
        flat = rvv.reshape(-1)
        for i in range(N):
            flat[roff + i] = F(float(vals[i]))


def _log(x):
    x = toF(x)
    if x <= 0:
        return float("-inf") if x == 0 else float("nan")
    return math.log(x.numerator) - math.log(x.denominator)


_cache = {}


def load_exact(path):
    """module object of the exact twin for the .pyx at `path` (cached per file content)"""
    src = open(path).read()
    key = (path, hash(src))
    if key in _cache:
        return _cache[key]
    py = pyxtrans.translate(src)
    tree = FloatConstRewriter().visit(PowRewriter().visit(ast.parse(py)))
    ast.fix_missing_locations(tree)
    mod = types.ModuleType("thejoker_fast_likelihood_exact")
    mod.__package__ = "thejoker.src"
    mod.__dict__.update(_rt=XRT, pow=XRT.pow_, log=_log, fabs=abs, pi=F(math.pi))
    exec(compile(tree, path + "<twin-exact>", "exec"), mod.__dict__)
    cls = mod.CJokerHelper
    orig_init = cls.__init__

    def init(self, *a, **k):
        orig_init(self, *a, **k)
        for name, v in list(vars(self).items()):
            if isinstance(v, np.ndarray) and v.dtype.kind == "f":
                setattr(self, name, farr(v))
            elif isinstance(v, (float, np.floating)):
                setattr(self, name, toF(v))
    cls.__init__ = init
    _cache[key] = mod
    return mod
