"""Observation devices that live outside /repo: a recording numpy Generator, a recording pool, global-RNG
tripwires.  (DESIGN.md 2.4b)"""
import hashlib
import pickle
import random

import numpy as np


class RecGen(np.random.Generator):
    """numpy Generator that logs every draw thejoker makes through it.  It *is* a Generator
    (isinstance checks pass) and produces exactly the stream of the wrapped bit generator."""

    def __new__(cls, bitgen_or_seed=0):
        return super().__new__(cls)

    def __init__(self, bitgen_or_seed=0):
        if not isinstance(bitgen_or_seed, np.random.BitGenerator):
            bitgen_or_seed = np.random.PCG64(bitgen_or_seed)
        super().__init__(bitgen_or_seed)
        self.calls = []

    def _log(self, name, args, kwargs, out):
        self.calls.append(dict(method=name, args=args, kwargs=kwargs, out=np.array(out, copy=True)))

    def uniform(self, *a, **k):
        out = super().uniform(*a, **k)
        self._log("uniform", a, k, out)
        return out

    def choice(self, *a, **k):
        out = super().choice(*a, **k)
        self._log("choice", a, k, out)
        return out

    def multivariate_normal(self, mean, cov, *a, **k):
        out = super().multivariate_normal(mean, cov, *a, **k)
        self._log("multivariate_normal", (np.array(mean, copy=True), np.array(cov, copy=True)) + tuple(a), k, out)
        return out

    def normal(self, *a, **k):
        out = super().normal(*a, **k)
        self._log("normal", a, k, out)
        return out

    def integers(self, *a, **k):
        out = super().integers(*a, **k)
        self._log("integers", a, k, out)
        return out

    def random(self, *a, **k):
        out = super().random(*a, **k)
        self._log("random", a, k, out)
        return out

    def permutation(self, *a, **k):
        out = super().permutation(*a, **k)
        self._log("permutation", a, k, out)
        return out

    def shuffle(self, *a, **k):
        out = super().shuffle(*a, **k)
        self._log("shuffle", a, k, None)
        return out

    def of(self, name):
        return [c for c in self.calls if c["method"] == name]


def spawn_key(gen):
    ss = gen.bit_generator._seed_seq
    return tuple(int(v) for v in ss.spawn_key), int(ss.n_children_spawned), ss.entropy


class RecPool:
    """Serial pool that records what is mapped.  Child generators found in tasks are replaced by recording
    generators over the *same* bit generator (same stream), and their seed-sequence spawn keys are logged."""

    def __init__(self, size=1, inner=None, wrap_children=True):
        self.size = size
        self.inner = inner
        self.maps = []        # one entry per map call: dict(worker, tasks, child_keys, children)
        self.wrap_children = wrap_children
        self.fail_at = None   # (map_call_index, exception) injected failure
        self.closed = False

    def map(self, worker, tasks, callback=None):
        tasks = [tuple(t) for t in tasks]
        entry = dict(worker=getattr(worker, "__name__", repr(worker)), n_tasks=len(tasks),
                     slices=[], ids=[], child_keys=[], children=[])
        new_tasks = []
        for t in tasks:
            t = list(t)
            sl = t[0]
            entry["slices"].append(tuple(int(v) for v in sl) if isinstance(sl, tuple) else np.array(sl, copy=True))
            entry["ids"].append(int(t[1]))
            for i, a in enumerate(t):
                if isinstance(a, np.random.Generator):
                    entry["child_keys"].append(spawn_key(a))
                    if self.wrap_children and self.inner is None:
                        t[i] = RecGen(a.bit_generator)
                        entry["children"].append(t[i])
            new_tasks.append(tuple(t))
        self.maps.append(entry)
        if self.fail_at is not None and self.fail_at[0] == len(self.maps) - 1:
            raise self.fail_at[1]
        if self.inner is not None:
            return self.inner.map(worker, new_tasks)
        return [worker(t) for t in new_tasks]

    def close(self):
        self.closed = True
        if self.inner is not None:
            self.inner.close()


class GlobalRngWatch:
    """hash numpy's and Python's global random state before/after a call"""

    def __init__(self):
        self.before = self.snap()

    @staticmethod
    def snap():
        st = np.random.get_state()
        h = hashlib.sha256()
        h.update(pickle.dumps((st[0], st[1].tobytes(), st[2], st[3], st[4])))
        bg = np.random.get_bit_generator()
        return dict(np_state=h.hexdigest(), bitgen_id=id(bg),
                    bitgen_state=hashlib.sha256(pickle.dumps(bg.state)).hexdigest(),
                    py_state=hashlib.sha256(pickle.dumps(random.getstate())).hexdigest())

    def changed(self):
        after = self.snap()
        return [k for k in after if after[k] != self.before[k]]
