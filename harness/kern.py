"""Shared kernel-side plumbing for C01 / C03 / C04 / C07: derive the model's inputs from the *declared*
problem, evaluate the independent closed form, the Lean Q model, the exact twin and the real API."""
import os
from fractions import Fraction as F

import numpy as np

import core
import exact
import oracle
import scen


def canon(pr):
    """canonical (data-unit, day) numbers of the declared problem"""
    import astropy.time as at
    t, y, sig, lab = pr.merged()
    t_ref = float(np.min(t))
    trend = pr.trend_matrix(t, lab, t_ref)
    mu, sig_lin = pr.linear_prior()
    return dict(t=t, y=y, sigma=sig, label=lab, t_ref=t_ref, trend=trend, mu=mu, sig_lin=sig_lin,
                n=len(t), k=1 + trend.shape[1])


def design(pr, c, theta):
    """n x k design matrix for nonlinear parameters theta = dict(P[day], e, omega, M0)"""
    kep = scen.kepler_column(c["t"], theta["P"], theta["e"], theta["omega"], theta["M0"], c["t_ref"])
    return np.column_stack([kep, c["trend"]])


def lam_vector(pr, c, theta):
    lam = [pr.lambdaK(theta["P"], theta["e"])] + [s ** 2 for s in c["sig_lin"][1:]]
    return np.array(lam, dtype=float)


def lam_exact(pr, c, theta):
    """prior variances as exact rationals; lambda_K = min(max_K^2, sigma_K0^2/(1-e^2) * pw) with pw the double pow oracle"""
    K = pr.desc["K"]
    sig = c["sig_lin"]
    out = []
    if K["kind"] == "fcm":
        s0, P0, mk = pr.fcm()
        pw = F(float(np.float64(theta["P"]) / np.float64(P0)) ** (-2 / 3.))
        e = F(float(theta["e"]))
        out.append(min(F(mk) ** 2, F(s0) ** 2 / (1 - e ** 2) * pw))
    else:
        out.append(F(float(sig[0])) ** 2)
    out += [F(float(s)) ** 2 for s in sig[1:]]
    return out


def var_exact(c, s):
    return [F(float(v)) ** 2 + F(float(s)) ** 2 for v in c["sigma"]]


def lean_eval(ctx, M, y, ivar, s, mu, lam, full=False):
    n, k = M.shape
    r = ctx.model({"op": "kernel.eval", "n": n, "k": k, "M": core.bits_list(M), "y": core.bits_list(y),
                   "ivar": core.bits_list(ivar), "s": core.bits(s), "mu": core.bits_list(mu), "lam": core.bits_list(lam),
                   "full": full})
    return r


def theta_of(phys, i):
    return dict(P=float(phys["P"][i]), e=float(phys["e"][i]), omega=float(phys["omega"][i]), M0=float(phys["M0"][i]),
                s=float(phys["s"][i]))


def exact_helper(pr):
    """exact-mode twin helper for the problem, built the way TheJoker._make_joker_helper does"""
    from thejoker.data_helpers import validate_prepare_data
    mod = exact.load_exact(os.path.join(core.REPO, "thejoker", "src", "fast_likelihood.pyx"))
    all_data, ids, trend_M = validate_prepare_data(pr.data, pr.prior.poly_trend, pr.prior.n_offsets)
    return mod.CJokerHelper(all_data, pr.prior, np.ascontiguousarray(trend_M))


def exact_ll(h, chunk):
    """marginal ln-likelihood of each row of `chunk` in exact mode; 'inf' marks the code's singular return"""
    out = []
    for row in np.asarray(chunk, dtype=float):
        try:
            v = h.batch_marginal_ln_likelihood(exact.farr(row[None, :]))
            out.append(float(np.asarray(v, dtype=float)[0]))
        except ZeroDivisionError:
            out.append(float("inf"))
    return np.array(out)


def budget(M, var, lam, chi2, ll, n, e, r=None):
    """forward-error budget for the float kernel (DESIGN 2.4c): returns (tol, well_conditioned)"""
    cA, cB = oracle.conds(M, var, lam)
    eps = 2.220446049250313e-16
    chi2 = abs(float(chi2))
    if r is not None:
        # magnitude of the terms that cancel in the Woodbury form: r^T C_s^-1 r  (>= chi2)
        chi2 = max(chi2, float(sum(float(ri) ** 2 / float(vi) for ri, vi in zip(r, var))))
    # the Kepler column is the same oracle on both sides, so no solver-tolerance term is needed
    tol = 10 * eps * (cA * chi2 + n * cB) + 1e-11 * (1 + abs(ll))
    return tol, (cA < 1e8 and cB < 1e10), cA, cB


def lu_nopivot(A):
    """exact Doolittle LU without pivoting (exists for positive definite A): returns (L, U) lists of Fractions or None"""
    k = len(A)
    L = [[F(int(i == j)) for j in range(k)] for i in range(k)]
    U = [[F(0)] * k for _ in range(k)]
    for i in range(k):
        for j in range(i, k):
            U[i][j] = A[i][j] - sum(L[i][m] * U[m][j] for m in range(i))
        if U[i][i] == 0:
            return None
        for j in range(i + 1, k):
            L[j][i] = (A[j][i] - sum(L[j][m] * U[m][i] for m in range(i))) / U[i][i]
    return L, U


def fstr(q):
    q = F(q)
    return f"{q.numerator}/{q.denominator}"


def lean_eval_cert(ctx, M, y, ivar, s, mu, lam):
    """certified evaluation of the Lean model for any size: the harness computes an inverse and an LU certificate of
    A^-1 in exact rationals, the Lean side checks them (Kernel.checkInv / checkLU, proved sound) and evaluates chi2,
    det B, a.  Inputs are doubles (exact rationals)."""
    from exact import gauss_inv
    n, k = M.shape
    Mf = [[F(float(M[i, j])) for j in range(k)] for i in range(n)]
    iv = [F(float(v)) for v in ivar]
    sf = F(float(s))
    lamf = [F(float(v)) for v in lam]
    siv = [v / (1 + sf * sf * v) for v in iv]
    Ainv = [[(1 / lamf[i] if i == j else F(0)) + sum(Mf[t][i] * siv[t] * Mf[t][j] for t in range(n)) for j in range(k)] for i in range(k)]
    X = gauss_inv(np.array(Ainv, dtype=object))
    lu = lu_nopivot(Ainv)
    if X is None or lu is None:
        return {"singular": "no certificate"}
    L, U = lu
    flat = lambda A_: [fstr(A_[i][j]) for i in range(k) for j in range(k)]
    op = {"op": "kernel.evalcert", "n": n, "k": k, "M": [fstr(v) for row in Mf for v in row], "y": [fstr(F(float(v))) for v in y],
          "ivar": [fstr(v) for v in iv], "s": fstr(sf), "mu": [fstr(F(float(v))) for v in mu], "lam": [fstr(v) for v in lamf],
          "X": flat(X), "L": flat(L), "U": flat(U)}
    return ctx.model(op)
