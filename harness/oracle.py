"""Independent oracles (standard library only): the dense Gaussian closed form in exact rationals, 50-digit
logs, float condition numbers.  Written independently of the Lean model's algorithm (no Woodbury)."""
import math
from decimal import Decimal, getcontext
from fractions import Fraction as F

import numpy as np

from exact import gauss_solve_det, toF

getcontext().prec = 60
LN2PI = Decimal(2 * 1).ln() + Decimal("3.14159265358979323846264338327950288419716939937510582097494").ln()


def ln_frac(q):
    q = F(q)
    if q <= 0:
        return None
    return (Decimal(q.numerator) / Decimal(q.denominator)).ln()


def closed_form(M, y, var, mu, lam):
    """ln N(y | M mu, diag(var) + M diag(lam) M^T) from exact rationals.
    Returns dict(chi2, detB (Fractions), ll (float), singular=bool)."""
    n, k = len(y), len(mu)
    Mf = [[toF(M[i][j]) for j in range(k)] for i in range(n)]
    yf = [toF(v) for v in y]
    vf = [toF(v) for v in var]
    mf = [toF(v) for v in mu]
    lf = [toF(v) for v in lam]
    B = [[(vf[i] if i == j else F(0)) + sum(Mf[i][a] * lf[a] * Mf[j][a] for a in range(k)) for j in range(n)] for i in range(n)]
    r = [yf[i] - sum(Mf[i][a] * mf[a] for a in range(k)) for i in range(n)]
    z, det = gauss_solve_det(B, r)
    if z is None or det <= 0:
        return dict(singular=True, detB=det)
    chi2 = sum(ri * zi for ri, zi in zip(r, z))
    ll = Decimal(-0.5) * ((Decimal(chi2.numerator) / Decimal(chi2.denominator)) + n * LN2PI + ln_frac(det))
    return dict(singular=False, chi2=chi2, detB=det, ll=float(ll), B=B, r=r)


def posterior(M, y, var, mu, lam):
    """exact conditional posterior of the linear parameters: A = (L^-1 + M^T C^-1 M)^-1, a = A (L^-1 mu + M^T C^-1 y)"""
    n, k = len(y), len(mu)
    Mf = [[toF(M[i][j]) for j in range(k)] for i in range(n)]
    yf = [toF(v) for v in y]
    vf = [toF(v) for v in var]
    mf = [toF(v) for v in mu]
    lf = [toF(v) for v in lam]
    Ainv = [[(1 / lf[i] if i == j else F(0)) + sum(Mf[t][i] * Mf[t][j] / vf[t] for t in range(n)) for j in range(k)] for i in range(k)]
    rhs = [mf[i] / lf[i] + sum(Mf[t][i] * yf[t] / vf[t] for t in range(n)) for i in range(k)]
    a, det = gauss_solve_det(Ainv, rhs)
    if a is None:
        return None
    A = []
    for c in range(k):
        col, _ = gauss_solve_det(Ainv, [F(int(i == c)) for i in range(k)])
        A.append(col)
    A = [[A[c][r] for c in range(k)] for r in range(k)]
    return dict(a=a, A=A, Ainv=Ainv)


def conds(M, var, lam):
    """float condition numbers of A^-1 and B (for the forward-error budget)"""
    M = np.asarray(M, dtype=float)
    var = np.asarray(var, dtype=float)
    lam = np.asarray(lam, dtype=float)
    with np.errstate(all="ignore"):
        Ainv = np.diag(1 / lam) + M.T @ np.diag(1 / var) @ M
        B = np.diag(var) + M @ np.diag(lam) @ M.T
        try:
            cA = float(np.linalg.cond(Ainv))
            cB = float(np.linalg.cond(B))
        except Exception:
            cA = cB = float("inf")
    return cA, cB
