"""child process of ./check C13 'diskfull' cases: runs ONE sampler call whose cache directory is a tiny tmpfs and
prints one JSON line.  Isolated in a process of its own because HDF5 may crash the interpreter when a file object
that hit ENOSPC is released (observed: segmentation fault at garbage collection / interpreter exit).
usage: diskfull_child.py <mountpoint> <index> <seed>"""
import json
import os
import sys
import tempfile
import warnings

HERE = os.path.dirname(os.path.abspath(__file__))
sys.path.insert(0, HERE)
sys.path.insert(0, os.path.join(HERE, "props"))
warnings.filterwarnings("ignore")


def main():
    mnt, index, seed = sys.argv[1], int(sys.argv[2]), int(sys.argv[3])
    import numpy as np
    import core
    import pyxtrans
    pyxtrans.install_twin(os.path.join(core.REPO, "thejoker", "src", "fast_likelihood.pyx"))
    sys.path.insert(0, core.REPO)
    import histlib as hl
    rng = np.random.default_rng([seed, 1313, index])
    pr = hl.small_problem(rng, n=int(rng.integers(3, 6)))
    N = int(rng.choice([1500, 3000]))
    lib, phys, internal = hl.library(rng, pr, N, internal_units=True, ln_prior=bool(index % 2))
    entry = ("marginal", "rejection", "iterative")[index % 3]
    want = np.asarray(pr.joker(rng=np.random.default_rng(1)).marginal_ln_likelihood(pr.data, lib, in_memory=True))
    os.environ["TMPDIR"] = mnt
    tempfile.tempdir = mnt
    out, exc = None, None
    j = pr.joker(rng=np.random.default_rng(1), tempfile_path=mnt)
    try:
        if entry == "marginal":
            out = np.asarray(j.marginal_ln_likelihood(pr.data, lib))
        elif entry == "rejection":
            out = np.asarray(j.rejection_sample(pr.data, lib, return_all_logprobs=True)[1])
        else:
            out = j.iterative_rejection_sample(pr.data, lib, n_requested_samples=2, init_batch_size=N)
    except BaseException as e:   # noqa: BLE001
        exc = e
    res = dict(entry=entry, N=N, ln_prior=bool(index % 2), p=pr.p, q=pr.q, left=sorted(os.listdir(mnt)),
               raised=None if exc is None else [type(exc).__name__, str(exc)[:200], isinstance(exc, (OSError, RuntimeError))])
    if exc is None:
        if entry == "iterative":
            res["values_ok"] = False
            res["non_finite"] = None
        else:
            o = np.asarray(out, dtype=float)
            res["values_ok"] = bool(o.shape == want.shape and np.all(o == want))
            res["non_finite"] = int(np.sum(~np.isfinite(o)))
    sys.stdout.write("RESULT " + json.dumps(res) + "\n")
    sys.stdout.flush()
    os._exit(0)      # do not run interpreter shutdown: HDF5 may crash there after ENOSPC


if __name__ == "__main__":
    main()
