"""Common machinery of the /verif checks: context, verdict logic, evidence, Lean build / audit /
driver.  See DESIGN.md section 2.4(c) for the verdict logic implemented here."""
import collections
import hashlib
import json
import os
import re
import struct
import subprocess
import sys
import time
import traceback
import zlib

import numpy as np

VERIF = os.path.dirname(os.path.dirname(os.path.abspath(__file__)))
LEAN_DIR = os.path.join(VERIF, "lean")
REPO = os.environ.get("VERIF_REPO", "/repo")
ALLOWED_AXIOMS = {"propext", "Classical.choice", "Quot.sound"}
FORBIDDEN = re.compile(r"\b(sorry|admit|native_decide|bv_decide|implemented_by|unsafe)\b|^axiom\s|maxHeartbeats 0")

TRUSTED_BASE = [
    "Lean 4.33.0 kernel + Mathlib v4.33.0 (axioms allowed: propext, Classical.choice, Quot.sound; audited each run)",
    "hand-written Lean model tied to /repo by the correspondence harness in /verif/harness (this run)",
    "pyx->Python source twin translator (harness/pyxtrans.py) for thejoker/src/fast_likelihood.pyx (no Cython in sandbox)",
    "numpy Generator/SeedSequence, LAPACK, twobody Kepler solver, pymc/pytensor, astropy units/Time, HDF5 stack: modelled as oracles, not verified",
    "IEEE-754 rounding: theorems are over ordered fields / reals; Float only used for executing decision logic",
]


class Infra(Exception):
    """infrastructure failure -> exit 2"""


def bits(x):
    return struct.unpack("<Q", struct.pack("<d", float(x)))[0]


def unbits(b):
    return struct.unpack("<d", struct.pack("<Q", int(b)))[0]


def bits_list(a):
    return [bits(v) for v in np.asarray(a, dtype="f8").ravel()]


def crc(s):
    return zlib.crc32(s.encode()) & 0xFFFFFFFF


def jsonable(o):
    if isinstance(o, dict):
        return {str(k): jsonable(v) for k, v in o.items()}
    if isinstance(o, (list, tuple)):
        return [jsonable(v) for v in o]
    if hasattr(o, "unit") and hasattr(o, "value") and not isinstance(o, (str, bytes)):   # astropy Quantity
        return {"value": jsonable(np.asarray(o.value)), "unit": str(o.unit)}
    if isinstance(o, np.ndarray):
        return jsonable(o.tolist())
    if isinstance(o, (np.integer,)):
        return int(o)
    if isinstance(o, (np.floating, float)):
        f = float(o)
        if f != f or f in (float("inf"), float("-inf")):
            return repr(f)
        return f
    if isinstance(o, (np.bool_,)):
        return bool(o)
    if isinstance(o, (str, int, bool)) or o is None:
        return o
    return repr(o)


# ------------------------------------------------------------------------------------------------
# Lean side


def _run(cmd, cwd=None, timeout=3600, env=None):
    p = subprocess.run(cmd, cwd=cwd, stdout=subprocess.PIPE, stderr=subprocess.STDOUT, text=True,
                       timeout=timeout, env=env)
    return p.returncode, p.stdout


def prop_theorems(prop):
    path = os.path.join(LEAN_DIR, "JokerVerif", "Props", f"{prop}.lean")
    if not os.path.exists(path):
        return path, []
    src = open(path).read()
    ns = None
    names = []
    stack = []
    for line in src.split("\n"):
        m = re.match(r"^namespace\s+(\S+)", line)
        if m:
            stack.append(m.group(1))
        m = re.match(r"^end\s+(\S+)", line)
        if m and stack and stack[-1] == m.group(1):
            stack.pop()
        m = re.match(r"^(?:@\[[^\]]*\]\s*)?theorem\s+([^\s:({\[]+)", line)
        if m:
            names.append(".".join(stack + [m.group(1)]))
    return path, names


def lean_sources_hash():
    h = hashlib.sha256()
    for root, _, files in sorted(os.walk(LEAN_DIR)):
        if ".lake" in root or "/build" in root:
            continue
        for f in sorted(files):
            if f.endswith(".lean") or f.endswith(".toml"):
                h.update(f.encode())
                h.update(open(os.path.join(root, f), "rb").read())
    return h.hexdigest()


def lean_forbidden_hits():
    hits = []
    for root, _, files in os.walk(os.path.join(LEAN_DIR, "JokerVerif")):
        for f in files:
            if not f.endswith(".lean"):
                continue
            in_block = 0
            for no, line in enumerate(open(os.path.join(root, f)), 1):
                code = line
                # strip block comments (coarse, line based) and line comments
                out = ""
                i = 0
                while i < len(code):
                    if code.startswith("/-", i):
                        in_block += 1
                        i += 2
                    elif code.startswith("-/", i) and in_block:
                        in_block -= 1
                        i += 2
                    elif in_block:
                        i += 1
                    elif code.startswith("--", i):
                        break
                    else:
                        out += code[i]
                        i += 1
                if FORBIDDEN.search(out):
                    hits.append(f"{f}:{no}: {line.strip()}")
    return hits


def lean_check(prop, log, thorough=False):
    """Build the property's theorem file, audit axioms.  Returns dict(ok, theorems, axioms, detail)."""
    path, thms = prop_theorems(prop)
    res = {"ok": False, "theorems": thms, "axioms": {}, "detail": "", "file": path}
    if not thms:
        res["detail"] = f"no theorems found in {path}"
        return res
    stamp_dir = os.path.join(LEAN_DIR, "build")
    os.makedirs(stamp_dir, exist_ok=True)
    stamp = os.path.join(stamp_dir, f"audit_{prop}.json")
    hsh = lean_sources_hash()
    if os.path.exists(stamp):
        try:
            old = json.load(open(stamp))
            if old.get("hash") == hsh and old.get("ok") and (old.get("leanchecker") or not thorough) and os.path.exists(
                    os.path.join(LEAN_DIR, ".lake", "build", "lib", "lean", "JokerVerif", "Props", f"{prop}.olean")):
                old["cached"] = True
                return old
        except Exception:
            pass
    t0 = time.time()
    rc, out = _run(["lake", "build", f"JokerVerif.Props.{prop}", "Driver"], cwd=LEAN_DIR)
    log(f"[lean] lake build JokerVerif.Props.{prop}: rc={rc} ({time.time()-t0:.1f}s)")
    if rc != 0:
        res["detail"] = "lake build failed:\n" + out[-3000:]
        return res
    hits = lean_forbidden_hits()
    if hits:
        res["detail"] = "forbidden constructs: " + "; ".join(hits[:5])
        return res
    audit = os.path.join(stamp_dir, f"Audit_{prop}.lean")
    with open(audit, "w") as f:
        f.write(f"import JokerVerif.Props.{prop}\n")
        for t in thms:
            f.write(f"#print axioms {t}\n")
    rc, out = _run(["lake", "env", "lean", audit], cwd=LEAN_DIR)
    if rc != 0:
        res["detail"] = "axiom audit failed:\n" + out[-3000:]
        return res
    axioms = {}
    for m in re.finditer(r"'([^']+)' (does not depend on any axioms|depends on axioms: \[([^\]]*)\])", out):
        axioms[m.group(1)] = [] if m.group(3) is None else [a.strip() for a in m.group(3).split(",")]
    bad = {t: [a for a in ax if a not in ALLOWED_AXIOMS] for t, ax in axioms.items()}
    bad = {t: a for t, a in bad.items() if a}
    missing = [t for t in thms if t not in axioms]
    if bad or missing:
        res["detail"] = f"axiom audit: disallowed {bad}, not reported {missing}"
        res["axioms"] = axioms
        return res
    detail = f"{len(thms)} theorems, axioms within {sorted(ALLOWED_AXIOMS)}"
    if thorough:
        t0 = time.time()
        rc, out = _run(["lake", "env", "leanchecker", f"JokerVerif.Props.{prop}"], cwd=LEAN_DIR)
        log(f"[lean] leanchecker JokerVerif.Props.{prop}: rc={rc} ({time.time()-t0:.1f}s)")
        if rc != 0:
            res["detail"] = "leanchecker (independent re-check of the compiled module) failed:\n" + out[-2000:]
            return res
        res["leanchecker"] = True
        detail += "; leanchecker re-check passed"
    res.update(ok=True, axioms=axioms, hash=hsh, detail=detail)
    json.dump(res, open(stamp, "w"))
    return res


class Driver:
    """Persistent `lake env lean --run Driver.lean` process, JSON line protocol."""

    def __init__(self, log):
        self.log = log
        self.p = None
        self.n = 0

    def start(self):
        t0 = time.time()
        self.p = subprocess.Popen(["lake", "env", "lean", "--run", "Driver.lean"], cwd=LEAN_DIR,
                                  stdin=subprocess.PIPE, stdout=subprocess.PIPE, stderr=subprocess.PIPE,
                                  text=True, bufsize=1)
        r = self.call({"op": "ping"})
        if r.get("pong") != 1:
            raise Infra(f"lean driver did not answer ping: {r}")
        self.log(f"[lean] driver up in {time.time()-t0:.1f}s")

    def call(self, op):
        if self.p is None:
            self.start()
        self.p.stdin.write(json.dumps(op, separators=(",", ":")) + "\n")
        self.p.stdin.flush()
        line = self.p.stdout.readline()
        if not line:
            err = self.p.stderr.read()[-2000:]
            raise Infra(f"lean driver died on op {op.get('op')}: {err}")
        self.n += 1
        try:
            return json.loads(line)
        except Exception:
            raise Infra(f"lean driver printed non-JSON: {line[:500]}")

    def close(self):
        if self.p is not None:
            try:
                self.p.stdin.close()
                self.p.wait(timeout=20)
            except Exception:
                self.p.kill()
            self.p = None


def rat(s):
    """parse "p/q" or "p" from the Lean driver into a Fraction"""
    from fractions import Fraction
    return Fraction(s)


# ------------------------------------------------------------------------------------------------
# context


class Ctx:
    def __init__(self, prop, tier, seed, replay=None):
        self.prop, self.tier, self.seed = prop, tier, seed
        self.thorough = tier == "thorough"
        self.t0 = time.time()
        self.replay_mode = replay is not None
        self.replay_path = replay
        self.violations = []      # dicts
        self.known_hits = collections.OrderedDict()
        self.samples = []
        self.counters = collections.Counter()
        self.evaluations = 0
        self.nontrivial = set()
        self.relations = set()
        self.notes = []
        self.targets = []         # (name, predicate description, required, actual getter)
        self._driver = None
        self.lean = None          # result of lean_check
        self.known = [k for k in load_known() if k.get("property") == prop and not k.get("fixed")]
        self.rule = ""
        self.assumptions = []
        self.extra = {}
        self._mismatches = {}

    # -- logging
    def log(self, msg):
        print(msg, flush=True)

    # -- randomness
    def case_rng(self, kind, index):
        return np.random.default_rng(np.random.SeedSequence([self.seed, crc(self.prop), crc(kind), int(index)]))

    # -- lean driver
    def model(self, op):
        if self._driver is None:
            self._driver = Driver(self.log)
        r = self._driver.call(op)
        if isinstance(r, dict) and r.get("err") == "bad-op":
            raise Infra(f"lean driver rejected op {op.get('op')}: {r}")
        return r

    # -- bookkeeping
    def count(self, key, n=1):
        self.counters[key] += n

    def evaluated(self, relation, nontrivial_key=None, sample=None):
        self.evaluations += 1
        self.relations.add(relation)
        if nontrivial_key is not None:
            self.nontrivial.add((relation, nontrivial_key))
        if sample is not None and len(self.samples) < 6:
            self.samples.append(jsonable(sample))

    def require(self, name, actual, minimum):
        """coverage target: a run that misses it is an infrastructure failure (exit 2), never a green result"""
        self.targets.append((name, actual, minimum))

    # -- verdicts
    def violation(self, relation, gen, inp, impl, model, predicate, tags=None, no_input=False):
        tags = dict(tags or {})
        for k in self.known:
            trig = k.get("trigger", {})
            if all(tags.get(a) == b for a, b in trig.items()):
                self.known_hits.setdefault(k["id"], k)
                self.count("known_finding_hits")
                return "known"
        v = dict(property=self.prop, seed=self.seed, tier=self.tier, relation=relation, gen=jsonable(gen),
                 input=jsonable(inp), impl_output=jsonable(impl), model_output=jsonable(model),
                 predicate=predicate, tags=jsonable(tags),
                 verdict="no-failing-input-found" if no_input else "violation")
        self.violations.append(v)
        return "violation"

    def mismatch(self, relation, gen, inp, impl, model, predicate, tags=None):
        """model and implementation differ but the property's own predicate was NOT shown to fail on this
        input: the correspondence is broken; reported (once per relation) as no-failing-input-found unless a
        concrete violation of the same relation is found."""
        self.count(f"mismatch:{relation}")
        self._mismatches.setdefault(relation, []).append((gen, inp, impl, model, predicate, tags))

    # -- finishing
    def write_replay(self, v, i):
        d = os.path.join(VERIF, "replays", self.prop)
        os.makedirs(d, exist_ok=True)
        path = os.path.join(d, f"{self.seed}-{i}.json")
        v = dict(v)
        v["how_to_replay"] = f"cd {VERIF} && ./check {self.prop} --replay {path}"
        with open(path, "w") as f:
            json.dump(v, f, indent=1)
        return path

    def finish(self):
        if self._driver is not None:
            self._driver.close()
        concrete = {v["relation"] for v in self.violations if v["verdict"] == "violation"}
        for rel, ms in self._mismatches.items():
            if rel in concrete:
                continue
            gen, inp, impl, model, predicate, tags = ms[0]
            self.violation(rel, gen, inp, impl, model,
                           predicate + f" [model/implementation correspondence broken on {len(ms)} case(s); "
                           "the property's own predicate held on every explored input]", tags=tags, no_input=True)
        wall = time.time() - self.t0
        lean = self.lean or {"ok": False, "theorems": [], "detail": "lean check not run"}
        n_thm = len(lean.get("theorems", []))
        n_rel = len(self.relations)
        obligations = n_thm + n_rel
        broken_rel = {v["relation"] for v in self.violations}
        discharged = (n_thm if lean.get("ok") else 0) + len(self.relations - broken_rel)
        missed = [(n, a, m) for (n, a, m) in self.targets if a < m]
        lines = []
        for k in self.known_hits.values():
            lines.append(f"KNOWN-FINDING: property={self.prop} {k['what_fails']} [{k['id']}]")
        # broken proof with no concrete failing input
        viols = list(self.violations)
        if not lean.get("ok") and not self.replay_mode:
            if not any(v["verdict"] == "violation" for v in viols):
                viols.append(dict(property=self.prop, seed=self.seed, tier=self.tier,
                                  relation=f"lean:{lean.get('file')}", gen=None, input=None, impl_output=None,
                                  model_output=None, predicate="property theorems must build and pass the axiom audit",
                                  detail=lean.get("detail"), verdict="no-failing-input-found", tags={}))
        # concrete violations first; at most 5 lines
        viols.sort(key=lambda v: v["verdict"] != "violation")
        shown = viols[:5]
        for i, v in enumerate(shown):
            path = self.replay_path if self.replay_mode else self.write_replay(v, i)
            tail = " no-failing-input-found" if v["verdict"] == "no-failing-input-found" else ""
            lines.append(f"VIOLATION property={self.prop} replay={path}{tail}")
        ev = {
            "property_id": self.prop, "tier": self.tier, "seed": self.seed, "level": "proof",
            "coverage": {
                "obligations": max(obligations, 1), "discharged": discharged,
                "checker_cmd": f"cd lean && lake build JokerVerif.Props.{self.prop} && lake env lean build/Audit_{self.prop}.lean  # then ./check {self.prop}",
                "trusted_base": TRUSTED_BASE,
                "theorems": lean.get("theorems", []), "lean_status": lean.get("detail", ""),
                "axioms_used": sorted({a for ax in lean.get("axioms", {}).values() for a in ax}),
                "correspondence_relations": sorted(self.relations),
                "evaluations": self.evaluations, "distinct_nontrivial": len(self.nontrivial),
                "rule": self.rule, "samples": self.samples[:6] or ["(no case was run)"],
                "branch_counters": dict(self.counters),
                "coverage_targets": [dict(name=n, actual=a, minimum=m) for (n, a, m) in self.targets],
                "known_findings_hit": list(self.known_hits.keys()),
                "notes": self.notes, **self.extra,
            },
            "assumptions": self.assumptions or TRUSTED_BASE,
            "wall_s": round(wall, 2), "violations": len(viols),
        }
        if not self.replay_mode:
            # evidence/ describes runs against /repo itself; a run against a private copy (VERIF_REPO, used when the
            # machinery is tested against seeded changes) leaves it alone and writes under .scratch/
            edir = os.path.join(VERIF, "evidence") if os.path.realpath(REPO) == "/repo" else \
                os.path.join(VERIF, ".scratch", "evidence-other-repo")
            os.makedirs(edir, exist_ok=True)
            with open(os.path.join(edir, f"{self.prop}.json"), "w") as f:
                json.dump(ev, f, indent=1)
        for l in lines:
            print(l, flush=True)
        if viols:
            return 1
        if missed and not self.replay_mode:
            print(f"INFRA: coverage targets missed: {missed}", flush=True)
            return 2
        print(f"OK property={self.prop} tier={self.tier} seed={self.seed} evaluations={self.evaluations} "
              f"nontrivial={len(self.nontrivial)} theorems={n_thm} relations={n_rel} wall={wall:.1f}s", flush=True)
        return 0


def load_known():
    p = os.path.join(VERIF, "known_findings.json")
    if not os.path.exists(p):
        return []
    return json.load(open(p)).get("findings", [])
