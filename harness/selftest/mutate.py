"""mutation self-test driver: python mutate.py Cxx  (reads mutants_Cxx.py: list MUTANTS of dicts
 name, edits=[(file, old, new)], expect='violation'|'green')"""
import sys, os, subprocess, json, importlib.util, re, time
prop = sys.argv[1]
only = sys.argv[2:] 
REPO = os.environ["MUT_REPO"]          # a scratch git clone of the package with a branch `fixed` (fix diffs applied)
VERIF = os.path.dirname(os.path.dirname(os.path.dirname(os.path.abspath(__file__))))
OUT = os.environ.get("MUT_OUT", os.path.join(VERIF, ".scratch"))
os.makedirs(OUT, exist_ok=True)
spec = importlib.util.spec_from_file_location("m", os.path.join(os.path.dirname(os.path.abspath(__file__)), f"mutants_{prop}.py"))
m = importlib.util.module_from_spec(spec); spec.loader.exec_module(m)
def sh(cmd, **kw):
    return subprocess.run(cmd, shell=True, stdout=subprocess.PIPE, stderr=subprocess.STDOUT, text=True, **kw)
def reset():
    sh(f"cd {REPO} && git checkout -q -f fixed && git clean -fdq -e thejoker/_version.py -e 'thejoker/src/*.so' -e 'thejoker/src/*.c'")
results = []
env = dict(os.environ, VERIF_REPO=REPO)
for mu in m.MUTANTS:
    if only and mu["name"] not in only:
        continue
    reset()
    for ed in mu["edits"]:
        f, old, new = ed[:3]
        p = os.path.join(REPO, f)
        s = open(p).read()
        if len(ed) > 3 and ed[3] == "all":
            assert s.count(old) >= 1, (mu["name"], f, s.count(old))
        else:
            assert s.count(old) == 1, (mu["name"], f, s.count(old))
        open(p, "w").write(s.replace(old, new))
    t0 = time.time()
    r = sh(f"cd {VERIF} && timeout 1500 ./check {prop}", env=env)
    lines = [l for l in r.stdout.split("\n") if re.match(r"^(VIOLATION|OK|INFRA|KNOWN)", l)]
    viol = [l for l in lines if l.startswith("VIOLATION")]
    res = dict(name=mu["name"], expect=mu["expect"], rc=r.returncode, lines=lines[:4], wall=round(time.time() - t0))
    if viol:
        rp = re.search(r"replay=(\S+)", viol[0]).group(1)
        keep = os.path.join(OUT, f"{prop}_{mu['name']}.json")
        sh(f"cp {rp} {keep}")
        d = json.load(open(keep))
        res["relation"] = d["relation"]; res["gen"] = d["gen"]; res["predicate"] = d["predicate"][:200]
        r2 = sh(f"cd {VERIF} && timeout 900 ./check {prop} --replay {keep}", env=env)
        res["replay_on_mutant_rc"] = r2.returncode
        reset()
        r3 = sh(f"cd {VERIF} && timeout 900 ./check {prop} --replay {keep}", env=env)
        res["replay_on_original_rc"] = r3.returncode
    reset()
    ok = (mu["expect"] == "violation" and res["rc"] == 1 and res.get("replay_on_mutant_rc") == 1 and res.get("replay_on_original_rc") == 0) or \
         (mu["expect"] == "green" and res["rc"] == 0)
    res["as_expected"] = ok
    results.append(res)
    print(json.dumps(res), flush=True)
json.dump(results, open(os.path.join(OUT, f"mutres_{prop}.json"), "w"), indent=1)
