PYX = "thejoker/src/fast_likelihood.pyx"
MH = "thejoker/multiproc_helpers.py"
LH = "thejoker/likelihood_helpers.py"
TJ = "thejoker/thejoker.py"
# the C01 repair (kernel reads the jitter-inflated s_ivar); without it s_ivar is dead code on the pinned tree
USE_S_IVAR = [(PYX, "self.ivar[n]", "self.s_ivar[n]", "all"), (PYX, "* self.ivar[m])", "* self.s_ivar[m])")]
MARG_IVAR = """            # Note: jitter must be in same units as the data RV's / ivar
            get_ivar(self.ivar, chunk[n, 4], self.s_ivar)

            # TODO: this is a continuation of the massive hack introduced above.
            if self.fixed_K_prior == 0:
                self.Lambda[0] = (self.sigma_K0**2 / (1 - e**2)
                                  * (P / self.P0)**(-2/3.))
                self.Lambda[0] = min(self.max_K**2, self.Lambda[0])
"""
MUTANTS = [
 dict(name="H_kernel_uses_s_ivar", expect="green", edits=USE_S_IVAR),
 dict(name="skip_s_ivar_when_s_zero", expect="violation", edits=USE_S_IVAR + [(PYX, MARG_IVAR, MARG_IVAR.replace(
     "            get_ivar(self.ivar, chunk[n, 4], self.s_ivar)\n", "            if chunk[n, 4] != 0:\n                get_ivar(self.ivar, chunk[n, 4], self.s_ivar)\n"))]),
 dict(name="lambda0_only_first_row_of_batch", expect="violation", edits=[(PYX, MARG_IVAR, MARG_IVAR.replace(
     "            if self.fixed_K_prior == 0:\n", "            if self.fixed_K_prior == 0 and n == 0:\n"))]),
 dict(name="results_reversed", expect="violation", edits=[(MH, "        n_prior_samples=n_prior_samples,\n    )\n    return np.concatenate(results)", "        n_prior_samples=n_prior_samples,\n    )\n    return np.concatenate(results[::-1])")]),
 dict(name="results_sorted_by_size", expect="violation", edits=[(MH, "        n_prior_samples=n_prior_samples,\n    )\n    return np.concatenate(results)", "        n_prior_samples=n_prior_samples,\n    )\n    return np.concatenate(sorted(results, key=len))")]),
 dict(name="inmem_pack_without_units_sivar", expect="violation", edits=USE_S_IVAR + [(TJ, """        if in_memory:
            if isinstance(prior_samples, JokerSamples):
                prior_samples, _ = prior_samples.pack(
                    units=joker_helper.internal_units, names=joker_helper.packed_order
                )
            return marginal_ln_likelihood_inmem(joker_helper, prior_samples)""", """        if in_memory:
            if isinstance(prior_samples, JokerSamples):
                prior_samples, _ = prior_samples.pack(names=joker_helper.packed_order)
            return marginal_ln_likelihood_inmem(joker_helper, prior_samples)""")]),
 dict(name="inmem_extra_uniform", expect="violation", edits=[(LH, "    # get indices of samples that pass rejection step\n    uu = rng.uniform(size=len(lls))\n    good_samples_idx = np.where(np.exp(lls - lls.max()) > uu)[0]\n    good_samples_idx = good_samples_idx[:max_posterior_samples]",
     "    # get indices of samples that pass rejection step\n    uu = rng.uniform(size=len(lls) + 1)[1:]\n    good_samples_idx = np.where(np.exp(lls - lls.max()) > uu)[0]\n    good_samples_idx = good_samples_idx[:max_posterior_samples]")]),
 dict(name="worker_off_by_one_later_batches", expect="violation", edits=[(MH, """    slice_or_idx, task_id, prior_samples_file, joker_helper = task

    # Read the batch of prior samples""", """    slice_or_idx, task_id, prior_samples_file, joker_helper = task
    if isinstance(slice_or_idx, tuple) and task_id > 0 and slice_or_idx[1] - slice_or_idx[0] > 1:
        slice_or_idx = (slice_or_idx[0] - 1, slice_or_idx[1] - 1)

    # Read the batch of prior samples""")]),
 dict(name="a_not_zeroed", expect="violation", edits=[(PYX, "            for i in range(self.n_linear):\n                self.a[i] = 0.\n", "            pass\n")]),
 dict(name="H_reorder_chi2_loops", expect="green", edits=[(PYX, """        for n in range(self.n_times):
            for m in range(self.n_times):
                chi2 += ((self.b[m] - self.rv[m])
                         * self.Binv[n, m]
                         * (self.b[n] - self.rv[n]))""", """        for m in range(self.n_times):
            for n in range(self.n_times):
                chi2 += ((self.b[n] - self.rv[n])
                         * (self.Binv[n, m]
                            * (self.b[m] - self.rv[m])))""")]),
 dict(name="H_rename_work_array_and_add_one_declared", expect="green", edits=[(PYX, "Btmp", "Bwork", "all"), (PYX, "        double[::1] ntime_work\n", "        double[::1] ntime_work\n        double[::1] resid\n"), (PYX, "        self.ntime_work = np.zeros(self.n_times, dtype=np.float64)\n", "        self.ntime_work = np.zeros(self.n_times, dtype=np.float64)\n        self.resid = np.zeros(self.n_times, dtype=np.float64)\n"),
     (PYX, "        chi2 = 0.\n        for n in range(self.n_times):\n            for m in range(self.n_times):\n                chi2 += ((self.b[m] - self.rv[m])\n                         * self.Binv[n, m]\n                         * (self.b[n] - self.rv[n]))",
           "        chi2 = 0.\n        for n in range(self.n_times):\n            self.resid[n] = self.b[n] - self.rv[n]\n        for n in range(self.n_times):\n            for m in range(self.n_times):\n                chi2 += (self.resid[m]\n                         * self.Binv[n, m]\n                         * self.resid[n])")]),
 dict(name="H_both_growth_factors_8", expect="green", edits=[(LH, "    safety_factor = 4  # MAGIC NUMBER\n", "    safety_factor = 8  # MAGIC NUMBER\n"), (MH, "    safety_factor = 4  # MAGIC NUMBER\n", "    safety_factor = 8  # MAGIC NUMBER\n")]),
]
MUTANTS.append(dict(name="reduce_reverses_trend_rows", expect="violation", edits=[(PYX, "return (CJokerHelper, (self.data, self.prior, np.array(self.trend_M)))", "return (CJokerHelper, (self.data, self.prior, np.ascontiguousarray(np.array(self.trend_M)[::-1])))")]))
