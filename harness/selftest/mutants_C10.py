MH = "thejoker/multiproc_helpers.py"
LH = "thejoker/likelihood_helpers.py"
MUTANTS = [
 dict(name="global_uniform", expect="violation", edits=[(MH, "    uu = rng.uniform(size=len(lls))\n    good_samples_idx = np.where(np.exp(lls - lls.max()) > uu)[0]\n    good_samples_idx = good_samples_idx[:max_posterior_samples]\n\n    if randomize_prior_order:",
       "    uu = np.random.uniform(size=len(lls))\n    good_samples_idx = np.where(np.exp(lls - lls.max()) > uu)[0]\n    good_samples_idx = good_samples_idx[:max_posterior_samples]\n\n    if randomize_prior_order:")]),
 dict(name="children_constant_seed", expect="violation", edits=[(MH, "sg = rng.bit_generator._seed_seq.spawn(len(tasks))", "sg = np.random.SeedSequence(42).spawn(len(tasks))")]),
 dict(name="same_child_every_batch", expect="violation", edits=[(MH, "tasks[i] = tuple(tasks[i]) + (Generator(PCG64(sg[i])),)", "tasks[i] = tuple(tasks[i]) + (Generator(PCG64(sg[0])),)")]),
 dict(name="spawn_from_copy", expect="violation", edits=[(MH, "sg = rng.bit_generator._seed_seq.spawn(len(tasks))", "import copy\n        sg = copy.deepcopy(rng.bit_generator._seed_seq).spawn(len(tasks))")]),
 dict(name="prior_sample_ignores_rng", expect="violation", edits=[("thejoker/prior.py", "samples_values = pm.draw(par_list, draws=size, random_seed=rng)", "samples_values = pm.draw(par_list, draws=size)")]),
 dict(name="inmem_fresh_generator_when_many_linear", expect="violation", edits=[(LH, "    raw_samples, _ = joker_helper.batch_get_posterior_samples(\n        prior_samples_batch, n_linear_samples, rng\n    )",
       "    if n_linear_samples > 1:\n        rng = np.random.default_rng()\n    raw_samples, _ = joker_helper.batch_get_posterior_samples(\n        prior_samples_batch, n_linear_samples, rng\n    )")]),
 dict(name="rng_context_global_swap", expect="violation", edits=[(MH, "    uu = rng.uniform(size=len(lls))\n    good_samples_idx = np.where(np.exp(lls - lls.max()) > uu)[0]\n    good_samples_idx = good_samples_idx[:max_posterior_samples]\n\n    if randomize_prior_order:",
       "    from .utils import rng_context\n    with rng_context(rng):\n        uu = np.random.uniform(size=len(lls))\n    good_samples_idx = np.where(np.exp(lls - lls.max()) > uu)[0]\n    good_samples_idx = good_samples_idx[:max_posterior_samples]\n\n    if randomize_prior_order:")]),
 dict(name="H_uniform_explicit_bounds", expect="green", edits=[(MH, "    uu = rng.uniform(size=len(lls))\n    good_samples_idx = np.where(np.exp(lls - lls.max()) > uu)[0]\n    good_samples_idx = good_samples_idx[:max_posterior_samples]\n\n    if randomize_prior_order:",
       "    uu = rng.uniform(0.0, 1.0, size=len(lls))\n    good_samples_idx = np.where(np.exp(lls - lls.max()) > uu)[0]\n    good_samples_idx = good_samples_idx[:max_posterior_samples]\n\n    if randomize_prior_order:")]),
 dict(name="H_public_seed_seq_and_comprehension", expect="green", edits=[(MH, "        sg = rng.bit_generator._seed_seq.spawn(len(tasks))\n        for i in range(len(tasks)):\n            tasks[i] = tuple(tasks[i]) + (Generator(PCG64(sg[i])),)",
       "        children = [Generator(PCG64(s)) for s in rng.bit_generator.seed_seq.spawn(len(tasks))]\n        tasks = [tuple(t) + (c,) for t, c in zip(tasks, children)]")]),
]
MUTANTS.append(dict(name="fresh_entropy_when_parallel", expect="violation", edits=[(MH, "sg = rng.bit_generator._seed_seq.spawn(len(tasks))", "sg = (np.random.SeedSequence() if getattr(pool, 'size', 1) > 1 else rng.bit_generator._seed_seq).spawn(len(tasks))")]))
