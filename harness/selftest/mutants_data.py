"""Mutation self-test of the C08 / C15 checks (DESIGN 2.7).

usage: VERIF_REPO=<healthy copy of the package, fixes/C08-*.diff and fixes/C15-*.diff applied> \
       /venv/bin/python harness/selftest/mutants_data.py [C08] [C15]        (ONLY=<substring> selects mutants)

For every entry: copy the healthy tree to a scratch directory, apply the one-line edit, run the quick check.
Mutants (m*) must give `VIOLATION ... replay=...` (a concrete one), the replay must reproduce on the mutant (exit 1)
and pass on the healthy tree (exit 0); harmless rewrites (h*) must exit 0.  The scratch copy is removed afterwards."""
import os, re, shutil, subprocess, sys, json, time, tempfile
BASE = os.environ.get("VERIF_REPO", "/repo")          # healthy base (with the fix diffs applied)
VERIF = os.path.dirname(os.path.dirname(os.path.dirname(os.path.abspath(__file__))))
MUT = os.path.join(tempfile.mkdtemp(prefix="verif_mut_"), "repo")

MUTANTS = {
 "C08": [
  ("m1 sort ids by value", "thejoker/data_helpers.py", "    ids = np.concatenate(ids)\n", "    ids = np.sort(np.concatenate(ids))\n", True),
  ("m2 merged rows time-sorted by RVData, labels left in concatenation order (the original defect)", "thejoker/data_helpers.py",
      "rv=rv, rv_err=err, sort=False)\n", "rv=rv, rv_err=err)\n", True),
  ("m2b rows sorted with numpy's unstable sort, labels with a stable one: only tied epochs of different surveys", "thejoker/data_helpers.py",
      "rv=rv, rv_err=err, sort=False)\n", "rv=rv, rv_err=err)\n    ids = ids[np.argsort(t, kind='stable')]\n", True),
  ("m3 reference = largest key", "thejoker/likelihood_helpers.py", "    for j, id_ in enumerate(unq_ids[1:]):\n", "    for j, id_ in enumerate(unq_ids[:-1]):\n", True),
  ("m4 offset columns shifted by one (last source loses its column)", "thejoker/likelihood_helpers.py",
      "        constant_part[ids == id_, j + 1] = 1.0\n", "        constant_part[ids == id_, max(j, 1)] = 1.0\n", True),
  ("m5 velocities of later sources not converted to the first unit", "thejoker/data_helpers.py",
      "        rv.append(d.rv.to_value(rv_unit))\n", "        rv.append(d.rv.value)\n", True),
  ("m6 list input: reference is the last source (keys reversed)", "thejoker/data_helpers.py",
      "                _d[i] = d\n", "                _d[-i] = d\n", True),
  ("m7 helper built with labels re-sorted (only the likelihood sees it)", "thejoker/thejoker.py",
      "        return CJokerHelper(all_data, self.prior, trend_M)\n",
      "        from .likelihood_helpers import get_trend_design_matrix as _g\n        return CJokerHelper(all_data, self.prior, _g(all_data, np.sort(ids), self.prior.poly_trend))\n", True),
  ("m8 merged reference epoch = first concatenated epoch instead of the earliest", "thejoker/data_helpers.py",
      "rv=rv, rv_err=err, sort=False)\n", "rv=rv, rv_err=err, sort=False, t_ref=Time(t[0], format='mjd', scale='tcb'))\n", True),
  ("m9 errors of the sources concatenated in reversed source order", "thejoker/data_helpers.py",
      "    err = np.concatenate(err) * rv_unit\n", "    err = np.concatenate(err[::-1]) * rv_unit\n", True),
  ("m10 sort=False skips the velocities only when cleaning: rows sorted except rv", "thejoker/data.py",
      "            self.rv = self.rv[idx]\n            if self._has_cov:\n                self.rv_err = self.rv_err[idx]\n                self.rv_err = self.rv_err[:, idx]\n            else:\n                self.rv_err = self.rv_err[idx]\n\n        if t_ref is False:",
      "            if self._has_cov:\n                self.rv_err = self.rv_err[idx]\n                self.rv_err = self.rv_err[:, idx]\n            else:\n                self.rv_err = self.rv_err[idx]\n        if True:\n            idx = self._t_bmjd.argsort()\n            self._t_bmjd = self._t_bmjd[idx]\n            self.rv_err = self.rv_err[idx] if not self._has_cov else self.rv_err\n\n        if t_ref is False:", True),
  ("h1 harmless: iterate the dict in sorted key order", "thejoker/data_helpers.py", "    for k in data.keys():\n", "    for k in sorted(data.keys()):\n", False),
  ("h2 harmless: merged rows time-sorted, labels re-ordered by the same sort", "thejoker/data_helpers.py",
      "rv=rv, rv_err=err, sort=False)\n", "rv=rv, rv_err=err)\n    ids = ids[np.argsort(t)]\n", False),
  ("h3 harmless: indicator columns by comparison broadcast", "thejoker/likelihood_helpers.py",
      "    for j, id_ in enumerate(unq_ids[1:]):\n        constant_part[ids == id_, j + 1] = 1.0\n",
      "    constant_part[:, 1:] = (ids[:, None] == unq_ids[None, 1:]).astype(float)\n", False),
  ("h4 harmless: trend columns by explicit powers", "thejoker/likelihood_helpers.py",
      "    trend_M = np.vander(dt, N=poly_trend, increasing=True)[:, 1:]\n",
      "    trend_M = np.stack([dt ** l for l in range(1, poly_trend)], axis=1) if poly_trend > 1 else np.zeros((len(dt), 0))\n", False),
  ("h5 harmless: rows and labels pre-sorted by one stable argsort", "thejoker/data_helpers.py",
      "    ids = np.concatenate(ids)\n", "    ids = np.concatenate(ids)\n    _o = np.argsort(t, kind='stable'); t, rv, err, ids = t[_o], rv[_o], err[_o], ids[_o]\n", False),
 ],
 "C15": [
  ("m1 velocities sorted separately", "thejoker/data.py", "            self.rv = self.rv[idx]\n            if self._has_cov:\n                self.rv_err = self.rv_err[idx]\n                self.rv_err = self.rv_err[:, idx]\n            else:\n                self.rv_err = self.rv_err[idx]\n\n        if t_ref is False:",
      "            self.rv = self.rv[self.rv.argsort()]\n            if self._has_cov:\n                self.rv_err = self.rv_err[idx]\n                self.rv_err = self.rv_err[:, idx]\n            else:\n                self.rv_err = self.rv_err[idx]\n\n        if t_ref is False:", True),
  ("m2 covariance sorted in rows only", "thejoker/data.py", "                self.rv_err = self.rv_err[idx]\n                self.rv_err = self.rv_err[:, idx]\n            else:\n                self.rv_err = self.rv_err[idx]\n\n        if t_ref is False:",
      "                self.rv_err = self.rv_err[idx]\n            else:\n                self.rv_err = self.rv_err[idx]\n\n        if t_ref is False:", True),
  ("m3 clean ignores the uncertainties", "thejoker/data.py", "                idx &= np.isfinite(self.rv_err)\n", "                pass\n", True),
  ("m4 default reference epoch = latest time", "thejoker/data.py", "                t_ref = self.t.min()\n", "                t_ref = self.t.max()\n", True),
  ("m5 ivar = 1/err", "thejoker/data.py", "            return 1 / self.rv_err**2\n", "            return 1 / self.rv_err\n", True),
  ("m6 slicing a covariance restricts rows only", "thejoker/data.py", "                rv_err=self.rv_err.copy()[slc][:, slc],\n", "                rv_err=self.rv_err.copy()[slc],\n", True),
  ("m7 copy passes t_ref=self.t_ref (loses 'no reference epoch')", "thejoker/data.py", "            t_ref=False if self.t_ref is None else self.t_ref,\n", "            t_ref=self.t_ref,\n", True),
  ("m8 inf counts as finite (isnan instead of isfinite) for velocities", "thejoker/data.py", "            idx = np.isfinite(self._t_bmjd) & np.isfinite(self.rv)\n", "            idx = np.isfinite(self._t_bmjd) & ~np.isnan(self.rv)\n", True),
  ("m9 Time input read in its own scale instead of TCB", "thejoker/data.py", "            _t_bmjd = t.tcb.mjd\n", "            _t_bmjd = t.mjd\n", True),
  ("m10 covariance cleaned in columns only when filtering", "thejoker/data.py", "            if self._has_cov:\n                self.rv_err = self.rv_err[idx]\n                self.rv_err = self.rv_err[:, idx]\n            else:\n                self.rv_err = self.rv_err[idx]\n\n        if sort:",
      "            if self._has_cov:\n                self.rv_err = self.rv_err[:, idx][: idx.sum()]\n            else:\n                self.rv_err = self.rv_err[idx]\n\n        if sort:", True),
  ("m11 ivar of a covariance = elementwise reciprocal", "thejoker/data.py", "            return np.linalg.inv(self.rv_err.value) / self.rv_err.unit\n", "            return (1 / self.rv_err.value) / self.rv_err.unit\n", True),
  ("m12 slices keep the uncertainty of the unsliced head", "thejoker/data.py", "                rv_err=self.rv_err.copy()[slc],\n                clean=False,\n", "                rv_err=self.rv_err.copy()[: len(self.rv.copy()[slc])],\n                clean=False,\n", True),
  ("m13 data are no longer sorted by default (sort keyword defaults to False)", "thejoker/data.py", "t_ref=None, clean=True, sort=True):", "t_ref=None, clean=True, sort=False):", True),
  ("h1 harmless: stable sort", "thejoker/data.py", "idx = self._t_bmjd.argsort()", 'idx = self._t_bmjd.argsort(kind="stable")', False),
  ("h2 harmless: covariance indexed with np.ix_", "thejoker/data.py", "                self.rv_err = self.rv_err[idx]\n                self.rv_err = self.rv_err[:, idx]\n            else:\n                self.rv_err = self.rv_err[idx]\n\n        if t_ref is False:",
      "                self.rv_err = self.rv_err[np.ix_(idx, idx)]\n            else:\n                self.rv_err = self.rv_err[idx]\n\n        if t_ref is False:", False),
  ("h3 harmless: ivar as err**-2", "thejoker/data.py", "            return 1 / self.rv_err**2\n", "            return self.rv_err**-2\n", False),
  ("h4 harmless: slices keep the parent's reference epoch", "thejoker/data.py", "                rv_err=self.rv_err.copy()[slc],\n                clean=False,\n", "                rv_err=self.rv_err.copy()[slc],\n                clean=False,\n                t_ref=False if self.t_ref is None else self.t_ref,\n", False),
  ("h5 harmless: mergesort", "thejoker/data.py", "idx = self._t_bmjd.argsort()", 'idx = np.argsort(self._t_bmjd, kind="mergesort")', False),
 ],
}

def run(cmd, env):
    p = subprocess.run(cmd, cwd=VERIF, env=env, stdout=subprocess.PIPE, stderr=subprocess.STDOUT, text=True)
    return p.returncode, p.stdout

def main():
    props = sys.argv[1:] or ["C08", "C15"]
    res = []
    for prop in props:
        for (name, path, old, new, expect_viol) in MUTANTS[prop]:
            if os.environ.get("ONLY") and os.environ["ONLY"] not in name:
                continue
            shutil.rmtree(MUT, ignore_errors=True)
            shutil.copytree(BASE, MUT, ignore=shutil.ignore_patterns(".git"))
            f = os.path.join(MUT, path)
            src = open(f).read()
            if src.count(old) != 1:
                print(f"!! {prop} {name}: pattern found {src.count(old)} times"); res.append((prop, name, "PATTERN")); continue
            open(f, "w").write(src.replace(old, new))
            env = dict(os.environ, VERIF_REPO=MUT)
            t0 = time.time()
            rc, out = run(["./check", prop], env)
            viols = re.findall(r"VIOLATION property=\S+ replay=(\S+)( no-failing-input-found)?", out)
            line = f"{prop} {name}: rc={rc} violations={len(viols)} ({time.time()-t0:.0f}s)"
            ok = None
            if expect_viol:
                concrete = [v for v in viols if not v[1]]
                if rc == 1 and concrete:
                    rp = concrete[0][0]
                    keep = rp + ".mut"
                    shutil.copy(rp, keep)
                    r = json.load(open(keep))
                    rc2, out2 = run(["./check", prop, "--replay", keep], env)
                    rc3, out3 = run(["./check", prop, "--replay", keep], dict(os.environ, VERIF_REPO=BASE))
                    os.remove(keep)
                    ok = (rc2 == 1 and rc3 == 0)
                    line += f" | replay on mutant rc={rc2}, on healthy rc={rc3} | {r['relation']} {r['tags']}"
                else:
                    ok = False
                    line += " | MISSED" + ("" if not viols else " (only no-failing-input-found)")
            else:
                ok = (rc == 0)
                if not ok:
                    line += " | FALSE ALARM\n" + out[-1500:]
            print(("PASS " if ok else "FAIL ") + line, flush=True)
            res.append((prop, name, ok))
    shutil.rmtree(os.path.dirname(MUT), ignore_errors=True)
    bad = [r for r in res if r[2] is not True]
    print("SUMMARY", len(res) - len(bad), "of", len(res), "as expected;", "problems:", bad)

main()
