UT = "thejoker/utils.py"
MH = "thejoker/multiproc_helpers.py"
TRY = """            try:
                # write samples to tempfile and recursively call this method
                prior_samples.write(f.name, overwrite=True)
                kwargs["prior_samples_file"] = f.name
                func_return = func(*args, **kwargs)
            except Exception as e:
                raise e
            finally:
                # The cache file can already be gone, e.g. when overwriting it
                # failed half way: don't let the cleanup mask the real error
                if os.path.exists(f.name):
                    os.unlink(f.name)
"""
MUTANTS = [
 dict(name="no_finally", expect="violation", edits=[(UT, TRY, """            prior_samples.write(f.name, overwrite=True)
            kwargs["prior_samples_file"] = f.name
            func_return = func(*args, **kwargs)
            os.unlink(f.name)
""")]),
 dict(name="swallow_exception", expect="violation", edits=[(UT, TRY, """            func_return = None
            try:
                prior_samples.write(f.name, overwrite=True)
                kwargs["prior_samples_file"] = f.name
                func_return = func(*args, **kwargs)
            except Exception as e:
                logger_msg = str(e)
            finally:
                if os.path.exists(f.name):
                    os.unlink(f.name)
""")]),
 dict(name="cleanup_only_on_Exception", expect="violation", edits=[(UT, TRY, """            try:
                prior_samples.write(f.name, overwrite=True)
                kwargs["prior_samples_file"] = f.name
                func_return = func(*args, **kwargs)
            except Exception as e:
                if os.path.exists(f.name):
                    os.unlink(f.name)
                raise e
            else:
                os.unlink(f.name)
""")]),
 dict(name="user_file_opened_append", expect="violation", edits=[(MH, """def run_worker(
    worker,
    pool,
    prior_samples_file,
    task_args=(),
    n_batches=None,
    n_prior_samples=None,
    samples_idx=None,
    rng=None,
):
    with tb.open_file(prior_samples_file, mode="r") as f:""", """def run_worker(
    worker,
    pool,
    prior_samples_file,
    task_args=(),
    n_batches=None,
    n_prior_samples=None,
    samples_idx=None,
    rng=None,
):
    with tb.open_file(prior_samples_file, mode="a") as f:""")]),
 dict(name="worker_error_to_empty_result", expect="violation", edits=[(MH, """    results = []
    for res in pool.map(worker, tasks):
        results.append(res)
""", """    results = []
    try:
        for res in pool.map(worker, tasks):
            results.append(res)
    except OSError:
        pass
""")]),
 dict(name="busy_flag_not_reset", expect="violation", edits=[(UT, """            try:
                # write samples to tempfile and recursively call this method
                prior_samples.write(f.name, overwrite=True)
                kwargs["prior_samples_file"] = f.name
                func_return = func(*args, **kwargs)
            except Exception as e:
                raise e
""", """            try:
                # write samples to tempfile and recursively call this method
                if getattr(prior_samples, "_cache_busy", False):
                    raise RuntimeError("prior samples are being cached by another call")
                prior_samples._cache_busy = True
                prior_samples.write(f.name, overwrite=True)
                kwargs["prior_samples_file"] = f.name
                func_return = func(*args, **kwargs)
                prior_samples._cache_busy = False
            except Exception as e:
                raise e
""")]),
 dict(name="cleanup_all_hdf5_in_tmpdir", expect="violation", edits=[(UT, """                if os.path.exists(f.name):
                    os.unlink(f.name)
""", """                import glob
                for _p in glob.glob(os.path.join(os.path.dirname(f.name), "tmp*.hdf5")):
                    os.unlink(_p)
""")]),
 dict(name="H_remove_instead_of_unlink", expect="green", edits=[(UT, """                if os.path.exists(f.name):
                    os.unlink(f.name)
""", """                if os.path.isfile(f.name):
                    os.remove(f.name)
""")]),
 dict(name="H_pathlib_missing_ok", expect="green", edits=[(UT, """                if os.path.exists(f.name):
                    os.unlink(f.name)
""", """                import pathlib
                pathlib.Path(f.name).unlink(missing_ok=True)
""")]),
 dict(name="H_write_in_place_no_overwrite", expect="green", edits=[(UT, "                prior_samples.write(f.name, overwrite=True)\n", "                os.unlink(f.name)\n                prior_samples.write(f.name)\n")]),
]
