"""Mutation self-test for the C17 / C19 checks (DESIGN 2.7).

usage: /venv/bin/python harness/selftest_c17_c19.py <repo copy> [C17|C19] [name-filter]

For every entry: copy <repo copy> into a scratch directory next to it, apply one textual edit, run the quick check
against the scratch copy and, for mutants, re-run the first reported replay.  Mutants must give
`VIOLATION property=Cxx replay=...` (a concrete one, not `no-failing-input-found`) whose replay reproduces;
harmless rewrites must give exit 0.  Nothing outside the scratch directory is modified; it is removed afterwards.
"""
import os
import re
import shutil
import subprocess
import sys

VERIF = os.path.dirname(os.path.dirname(os.path.abspath(__file__)))

SA = "thejoker/samples_analysis.py"
SP = "thejoker/samples.py"
DA = "thejoker/data.py"

# (property, name, kind, file, old, new)
ENTRIES = [
    # ---------------- C19 mutants
    ("C19", "map-argmin", "mutant", SA, "idx = np.argmax(ln_post)", "idx = np.argmin(ln_post)"),
    ("C19", "map-ignores-prior", "mutant", SA, "ln_post = samples['ln_prior'] + samples['ln_likelihood']",
     "ln_post = samples['ln_likelihood'] + 0 * samples['ln_prior'].value.astype(int)"),
    ("C19", "gap-no-wrap-arc", "mutant", SA, "phase = np.concatenate((phase, phase + 1))", "phase = np.concatenate((phase, phase))"),
    ("C19", "gap-unsorted", "mutant", SA, "phase = np.sort(data.phase(sample['P']))", "phase = np.asarray(data.phase(sample['P']))"),
    ("C19", "coverage-off-by-one-bins", "mutant", SA, "bins=np.linspace(0, 1, n_bins+1))", "bins=np.linspace(0, 1, n_bins))"),
    ("C19", "coverage-needs-two-points", "mutant", SA, "return (H > 0).sum() / n_bins", "return (H > 1).sum() / n_bins"),
    ("C19", "periods-ignore-unit", "mutant", SA, "return T / P.to_value(u.day)", "return T / P.value"),
    ("C19", "phase-abs-dt", "mutant", DA, "return ((self.t - t_ref) / P) % 1.0", "return np.abs((self.t - t_ref) / P) % 1.0"),
    ("C19", "phase-ignores-epoch-argument", "mutant", DA, "        if t_ref is None:\n            t_ref = self.t_ref\n        return ((self.t - t_ref) / P) % 1.0",
     "        t_ref = self.t_ref\n        return ((self.t - t_ref) / P) % 1.0"),
    ("C19", "gap-wrap-arc-without-first-phase", "mutant", SA, "phase = np.concatenate((phase, phase + 1))",
     "phase = np.concatenate((np.asarray(phase), [1.0]))"),          # invisible while t_ref = first epoch (phase[0] = 0)
    ("C19", "map-skips-last-row", "mutant", SA, "idx = np.argmax(ln_post)", "idx = np.argmax(ln_post[:-1]) if len(ln_post) > 1 else 0"),
    # ---------------- C19 harmless rewrites
    ("C19", "gap-head-plus-one", "harmless", SA, "phase = np.concatenate((phase, phase + 1))", "phase = np.concatenate((phase, phase[:1] + 1))"),
    ("C19", "coverage-uniform-bins", "harmless", SA, "bins=np.linspace(0, 1, n_bins+1))", "bins=n_bins, range=(0, 1))"),
    ("C19", "map-argmax-on-values", "harmless", SA, "idx = np.argmax(ln_post)", "idx = int(np.argmax(np.asarray(ln_post)))"),
    ("C19", "periods-via-mjd", "harmless", SA, "T = data.t.jd.max() - data.t.jd.min()", "T = data.t.mjd.max() - data.t.mjd.min()"),
    # ---------------- C17 mutants
    ("C17", "wrapK-half-pi", "mutant", SP, "self.tbl[\"omega\"][mask] + np.pi * u.rad", "self.tbl[\"omega\"][mask] + np.pi / 2 * u.rad"),
    ("C17", "wrapK-no-modulo", "mutant", SP, "            self.tbl[\"omega\"][mask] = self.tbl[\"omega\"][mask] % (2 * np.pi * u.rad)\n", ""),
    ("C17", "wrapK-mask-le", "mutant", SP, "mask = self.tbl[\"K\"] < 0", "mask = self.tbl[\"K\"] <= 0"),
    ("C17", "wrapK-keeps-sign", "mutant", SP, "self.tbl[\"K\"][mask] = np.abs(self.tbl[\"K\"][mask])", "self.tbl[\"K\"][mask] = self.tbl[\"K\"][mask]"),
    ("C17", "phase-over-pi", "mutant", SP, "t0 + (self[\"P\"] * phase / (2 * np.pi))", "t0 + (self[\"P\"] * phase / (np.pi))"),
    ("C17", "t0-minus-dt", "mutant", SP, "t0 = t_ref + dt", "t0 = t_ref - dt"),
    ("C17", "phase-period-unit-lost", "mutant", SP, "dt = (self[\"P\"] * self[\"M0\"] / (2 * np.pi)).to(u.day, u.dimensionless_angles())",
     "dt = (self[\"P\"].value * u.day * self[\"M0\"] / (2 * np.pi)).to(u.day, u.dimensionless_angles())"),
    ("C17", "apply-drops-meta", "mutant", SP, "return cls(samples=new_samples, **self.tbl.meta)", "return cls(samples=new_samples, t_ref=self.t_ref)"),
    ("C17", "copy-drops-t_ref", "mutant", SP, "return self.__class__(self.tbl.copy(), t_ref=self.t_ref)",
     "tbl = self.tbl.copy()\n        tbl.meta['t_ref'] = None\n        return self.__class__(tbl)"),
    ("C17", "getitem-int-as-slice", "mutant", SP, "        if isinstance(key, int):\n            return self.__class__(samples=self.tbl[key])",
     "        if isinstance(key, int):\n            return self.__class__(samples=self.tbl[key:key + 1])"),
    ("C17", "median-interpolates", "mutant", SP, "        idx = np.argpartition(self[\"P\"], len(self[\"P\"]) // 2)[len(self[\"P\"]) // 2]\n        return self[idx]",
     "        idx = np.argsort(self[\"P\"])\n        return self[idx[(len(idx) - 1) // 2:len(idx) // 2 + 1]].mean()"),
    ("C17", "median-takes-first-partition-entry", "mutant", SP, "len(self[\"P\"]) // 2)[len(self[\"P\"]) // 2]", "len(self[\"P\"]) // 2)[0]"),
    ("C17", "pack-no-conversion", "mutant", SP, "arrs.append(self.tbl[name].to_value(unit))", "arrs.append(self.tbl[name].value)"),
    ("C17", "unpack-reversed-columns", "mutant", SP, "samples[k] = packed_samples[:, i] * unit", "samples[k] = packed_samples[:, npars - 1 - i] * unit"),
    ("C17", "wrapK-pi-in-column-unit", "mutant", SP, "self.tbl[\"omega\"][mask] + np.pi * u.rad",
     "self.tbl[\"omega\"][mask] + np.pi * self.tbl[\"omega\"].unit"),       # only wrong for omega in deg
    ("C17", "getitem-slice-abs-step", "mutant", SP, "        if isinstance(key, int):\n            return self.__class__(samples=self.tbl[key])",
     "        if isinstance(key, slice) and key.step is not None:\n            key = slice(key.start, key.stop, abs(key.step))\n"
     "        if isinstance(key, int):\n            return self.__class__(samples=self.tbl[key])"),
    ("C17", "getitem-mask-drops-meta", "mutant", SP, "        return self.__class__(samples=self.tbl[key])\n\n    def __setitem__",
     "        if isinstance(key, np.ndarray) and key.dtype == bool:\n            return self.__class__(samples={k: self.tbl[k][key] for k in self.tbl.colnames}, t_ref=self.t_ref)\n"
     "        return self.__class__(samples=self.tbl[key])\n\n    def __setitem__"),
    ("C17", "pack-sorted-names", "mutant", SP, "        for name in names:\n            unit = units.get(name, self.tbl[name].unit)",
     "        for name in sorted(names):\n            unit = units.get(name, self.tbl[name].unit)"),
    ("C17", "pack-requested-unit-ignored-for-linear", "mutant", SP, "unit = units.get(name, self.tbl[name].unit)",
     "unit = units.get(name, self.tbl[name].unit) if name in _nonlinear_internal_units else self.tbl[name].unit"),
    # ---------------- C17 harmless rewrites
    ("C17", "wrapK-where", "harmless", SP,
     "            self.tbl[\"K\"][mask] = np.abs(self.tbl[\"K\"][mask])\n            self.tbl[\"omega\"][mask] = self.tbl[\"omega\"][mask] + np.pi * u.rad\n            self.tbl[\"omega\"][mask] = self.tbl[\"omega\"][mask] % (2 * np.pi * u.rad)\n",
     "            om = self.tbl[\"omega\"]\n            self.tbl[\"omega\"] = np.where(mask, (om + 180 * u.deg) % (360 * u.deg), om).to(om.unit)\n            self.tbl[\"K\"] = np.abs(self.tbl[\"K\"])\n"),
    ("C17", "median-argsort", "harmless", SP, "idx = np.argpartition(self[\"P\"], len(self[\"P\"]) // 2)[len(self[\"P\"]) // 2]",
     "idx = np.argsort(self[\"P\"], kind=\"stable\")[len(self[\"P\"]) // 2]"),
    ("C17", "copy-passes-all-meta", "harmless", SP, "return self.__class__(self.tbl.copy(), t_ref=self.t_ref)",
     "return self.__class__(self.tbl.copy(), t_ref=self.t_ref, poly_trend=self.poly_trend, n_offsets=self.n_offsets)"),
    ("C17", "phase-single-step", "harmless", SP,
     "        return np.squeeze(\n            t0 + (self[\"P\"] * phase / (2 * np.pi)).to(u.day, u.dimensionless_angles())\n        )",
     "        return np.squeeze(\n            t_ref + (self[\"P\"] * (self[\"M0\"] + phase) / (2 * np.pi)).to(u.day, u.dimensionless_angles())\n        )"),
]


def run(cmd, env):
    p = subprocess.run(cmd, cwd=VERIF, env=env, stdout=subprocess.PIPE, stderr=subprocess.STDOUT, text=True)
    return p.returncode, p.stdout


def main(argv):
    repo = os.path.abspath(argv[0])
    only = argv[1] if len(argv) > 1 else None
    flt = argv[2] if len(argv) > 2 else None
    scratch = os.path.join(os.path.dirname(repo), "selftest_scratch")
    results = []
    for prop, name, kind, rel, old, new in ENTRIES:
        if only and prop != only:
            continue
        if flt and flt not in name:
            continue
        shutil.rmtree(scratch, ignore_errors=True)
        shutil.copytree(repo, scratch, symlinks=True, ignore=shutil.ignore_patterns("__pycache__"))
        path = os.path.join(scratch, rel)
        src = open(path).read()
        if src.count(old) != 1:
            results.append((prop, name, kind, f"EDIT-NOT-APPLICABLE (pattern found {src.count(old)} times)"))
            print(results[-1], flush=True)
            continue
        open(path, "w").write(src.replace(old, new))
        env = dict(os.environ, VERIF_REPO=scratch, VERIF_SEED=os.environ.get("VERIF_SEED", "0"))
        rc, out = run(["./check", prop], env)
        lines = [l for l in out.split("\n") if l.startswith("VIOLATION") or l.startswith("OK ") or l.startswith("INFRA")]
        if kind == "harmless":
            verdict = "green" if rc == 0 else "NOT-GREEN rc=%d %s" % (rc, lines[:2])
        else:
            conc = [l for l in lines if l.startswith(f"VIOLATION property={prop} replay=") and "no-failing-input-found" not in l]
            if rc == 1 and conc:
                rp = re.search(r"replay=(\S+)", conc[0]).group(1)
                keep = rp + ".selftest"
                shutil.copy(rp, keep)
                rc2, out2 = run(["./check", prop, "--replay", keep], env)
                ok2 = rc2 == 1 and "VIOLATION" in out2
                rc3, out3 = run(["./check", prop, "--replay", keep], dict(env, VERIF_REPO=repo))
                ok3 = rc3 == 0
                os.remove(keep)
                verdict = f"caught ({len(conc)}+ lines); replay reproduces on mutant: {ok2}; replay green on original: {ok3}"
                if not (ok2 and ok3):
                    verdict = "PROBLEM " + verdict
            else:
                verdict = "MISSED rc=%d %s" % (rc, lines[:2])
        results.append((prop, name, kind, verdict))
        print(results[-1], flush=True)
    shutil.rmtree(scratch, ignore_errors=True)
    bad = [r for r in results if r[3].startswith(("MISSED", "NOT-GREEN", "PROBLEM", "EDIT"))]
    print(f"{len(results)} entries, {len(bad)} problems")
    return 1 if bad else 0


if __name__ == "__main__":
    sys.exit(main(sys.argv[1:]))
